"""Guard oracles transcribed from the property statements (not from the code). Written as Python expressions
over role names; the checker renames the code's variables to the roles and compares truth tables."""

# C17: a keyword occurrence at [START, END) of DATA is reported iff its neighbouring bytes, if any, are not
# ASCII letters or digits.
C17_BOUNDARY = "(START == 0 or not DATA[START - 1:START].isalnum()) and (END == len(DATA) or not DATA[END:END + 1].isalnum())"
# C17: MixedCase iff the matched text is neither all upper nor all lower case and differs in letter case from
# the listed keyword (per byte: RAWB is a byte of the matched text, KWB the corresponding byte of the keyword).
C17_MIXED_PRE = "RAW.isupper() or RAW.islower()"          # -> not mixed
C17_MIXED_BYTE = "(chr(RAWB).isupper() and not chr(KWB).isupper()) or (chr(RAWB).islower() and not chr(KWB).islower())"

# C18: a decoder module is imported iff (no include list or name in include) and not (name in exclude)
C18_FILTER = "(not INCLUDE or NAME in INCLUDE) and not (EXCLUDE and NAME in EXCLUDE)"
