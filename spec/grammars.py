"""Indicator / encoding grammars transcribed from the property statements and the RFCs they name - NOT from the
shipped patterns. Used as the left-hand side of language-containment obligations (documented grammar <= shipped regex)."""

B64_ALPHABET = b"ABCDEFGHIJKLMNOPQRSTUVWXYZabcdefghijklmnopqrstuvwxyz0123456789+/"
HEX_DIGITS = b"0123456789abcdefABCDEF"

# C13: call forms that must be decoded as one unit covering exactly the expression
B64_ARG = rb"[A-Za-z0-9+/]+={0,2}"
CALL_FORMS = {
    "decoders.base64.ATOB_RE": [rb"atob\('" + B64_ARG + rb"'\)", rb'atob\("' + B64_ARG + rb'"\)'],
    "decoders.base64.BASE64DECODE_RE": [rb"Base64Decode\('" + B64_ARG + rb"'\)", rb'Base64Decode\("' + B64_ARG + rb'"\)'],
    "decoders.base64.FROMB64STRING_RE": [rb"FromBase64String\('" + B64_ARG + rb"'\)", rb'FromBase64String\("' + B64_ARG + rb'"\)',
                                         rb"\[System\.Convert\]::FromBase64String\('" + B64_ARG + rb"'\)"],
    "decoders.hex.FROMHEXSTRING_RE": [rb"FromHexString\('(?:(?:[0-9a-f]{2}){10,}|(?:[0-9A-F]{2}){10,})'\)",
                                      rb"\[System\.Convert\]::FromHexString\('(?:[0-9a-f]{2}){10,}'\)"],
}
# C13: "any run of at least 10 same-case hex pairs"
HEX_RUN = rb"(?:[0-9a-f]{2}){10,}|(?:[0-9A-F]{2}){10,}"
# C13 acceptance rules for bare base64 (statement): pure hex / pure letters texts are rejected
PURE_HEX = rb"(?i)[a-f0-9]+"
PURE_LETTERS = rb"(?i)[a-z]+"
# a bare base64 text of at least 22 characters without line breaks, optional padding
B64_BARE = rb"[A-Za-z0-9+/]{22,}={0,2}"
# "line breaks and their HTML escapes ignored": the break spellings (a proper character reference ends in ';')
B64_LINE_BREAKS = [b"\n", b"\r", b"\r\n", b"&#10;", b"&#13;", b"&#xA;", b"&#xD;", b"&#xa;", b"&#xd;", b"&#13;&#10;", b"&#xD;&#xA;", b"&#xD;&#10;", b"&#13;\n",
                   b"&#13;&#10;\r\n"]
# one element of a PowerShell byte array
PS_BYTE = rb"(?:0x[0-9a-fA-F]{2}|[0-9]{1,3})"

# C14
XML_REF = rb"&#(?:[xX][0-9a-fA-F]{2}|25[0-5]|2[0-4][0-9]|1[0-9][0-9]|[0-9]{1,2});"       # decimal 0-255 or two-digit hex
XML_RUN = rb"(?:" + XML_REF + rb"){5,}"
# C16: every non-empty prefix of -encodedcommand, and the alias -ec
ENC_SWITCH = "encodedcommand"

# C11 indicator grammars
OCTET = rb"(?:25[0-5]|2[0-4][0-9]|1[0-9][0-9]|[1-9]?[0-9])"
IPV4 = OCTET + rb"(?:\." + OCTET + rb"){3}"
LDH_LABEL = rb"[A-Za-z0-9](?:[A-Za-z0-9-]*[A-Za-z0-9])?"
EMAIL_LOCAL = rb"[A-Za-z0-9][A-Za-z0-9._%+-]{2,}"
EXE_NAME = rb"[A-Za-z0-9_]+\.[eE][xX][eE]"
DLL_NAME = rb"[A-Za-z0-9_]+\.[dD][lL][lL]"
# RFC 3986 (subset named by the statement): scheme://[userinfo@]host[:port][/path][?query][#fragment]
_UNRES = rb"A-Za-z0-9._~"
_SUBD = rb"!$&'()*+,;="
_PCT = rb"%[0-9A-Fa-f]{2}"
URL_USERINFO = rb"(?:[" + _UNRES + _SUBD + rb":-]|" + _PCT + rb")*"
URL_REGNAME = rb"[A-Za-z0-9.-]{4,253}"
URL_PORT = rb"(?::[0-9]{0,4}|:[0-5][0-9]{4}|:6[0-4][0-9]{3})?"
URL_TAILCHAR = rb"[A-Za-z0-9_~!$&(*+=:@/?%#-]"          # a url does not end in ' ) , . ;
URL_PCHAR = rb"[A-Za-z0-9._~!$&'()*+,;=:@/?%#-]"
URL_REST = rb"(?:[/?#](?:" + URL_PCHAR + rb"*" + URL_TAILCHAR + rb")?)?"
URL = rb"(?:https?|ftp|HTTPS?|FTP)://(?:" + URL_USERINFO + rb"@)?(?:" + URL_REGNAME + rb"|" + IPV4 + rb"|\[[0-9A-Fa-f:]{3,39}\])" + URL_PORT + URL_REST
NEUTRAL_DELIMITERS = b" \t\r\n\"<>"
