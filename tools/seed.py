#!/usr/bin/env python3
"""Seeded-change bookkeeping.

  seed.py harvest <seed-id> <worktree> <property> "<needs>"   confirm a sub-agent's change and store it under seeded/<id>/
  seed.py neutral <seed-id> <worktree> <property>             store a behaviour-preserving refactor (every check must stay silent)
  seed.py run [<seed-id> ...]                                  apply each stored patch to /repo, run the checks, undo

harvest confirms, in a scratch worktree of /repo's HEAD (removed afterwards): the patch applies, the 308 tests pass with
it, the demonstration exits 1 with it and 0 without it."""
import json
import os
import shutil
import subprocess
import sys

VERIF = os.path.dirname(os.path.dirname(os.path.abspath(__file__)))
SEEDED = os.path.join(VERIF, "seeded")
PY = "/venv/bin/python"


def sh(cmd, cwd=None, env=None, timeout=900):
    e = dict(os.environ)
    e.update(env or {})
    p = subprocess.run(cmd, shell=True, cwd=cwd, env=e, capture_output=True, text=True, timeout=timeout)
    return p.returncode, (p.stdout + p.stderr)


def claimed():
    with open(os.path.join(VERIF, "MANIFEST.json")) as f:
        return [c["property_id"] for c in json.load(f)["checks"]]


def harvest(sid, wt, prop, needs):
    d = os.path.join(SEEDED, sid)
    os.makedirs(d, exist_ok=True)
    rc, diff = sh("git diff -- src", cwd=wt)
    assert diff.strip(), "empty diff"
    with open(os.path.join(d, "patch.diff"), "w") as f:
        f.write(diff)
    demo_src = os.path.join(wt, f"demo_{prop}.py")
    assert os.path.exists(demo_src), demo_src
    shutil.copy(demo_src, os.path.join(d, "demo.py"))
    scratch = f"/tmp/seedchk_{sid}"
    sh(f"git -C /repo worktree remove --force {scratch}")
    rc, out = sh(f"git -C /repo worktree add -q --detach {scratch} HEAD")
    assert rc == 0, out
    ran = []
    try:
        env = {"PYTHONPATH": f"{scratch}/src"}
        demo = os.path.join(d, "demo.py")
        # the demo may hard-code its worktree path: rewrite to the scratch path
        txt = open(demo).read().replace(wt, scratch)
        sdemo = os.path.join(scratch, "demo_seed.py")
        open(sdemo, "w").write(txt)
        rc0, o0 = sh(f"{PY} demo_seed.py", cwd=scratch, env=env)
        ran.append(f"demo on unchanged HEAD: exit {rc0}")
        rc, out = sh(f"git apply {d}/patch.diff", cwd=scratch)
        assert rc == 0, "patch does not apply to HEAD: " + out
        rc1, o1 = sh(f"{PY} demo_seed.py", cwd=scratch, env=env)
        ran.append(f"demo with the change: exit {rc1}")
        rct, ot = sh(f"{PY} -m pytest -q -p no:cacheprovider", cwd=scratch, env=env)
        tail = ot.strip().splitlines()[-1] if ot.strip() else ""
        ran.append(f"pytest with the change: exit {rct}: {tail}")
        ok = rc0 == 0 and rc1 == 1 and rct == 0
    finally:
        sh(f"git -C /repo worktree remove --force {scratch}")
    rc, head = sh("git -C /repo rev-parse --short HEAD")
    meta = {
        "id": sid, "property": prop, "needs_to_manifest": needs, "base_commit": head.strip(),
        "confirmed": ok, "ran": ran, "demo_output_with_change": o1[-1500:],
    }
    with open(os.path.join(d, "meta.json"), "w") as f:
        json.dump(meta, f, indent=1)
    print(json.dumps({k: meta[k] for k in ("id", "property", "confirmed", "ran")}, indent=1))
    if ok:
        run([sid])
    return ok


def neutral(sid, wt, prop):
    """A behaviour-preserving refactor written by a sub-agent: the 308 tests pass with it, its differential script exits 0,
    and every claimed check must exit 0 on the patched tree."""
    d = os.path.join(SEEDED, sid)
    os.makedirs(d, exist_ok=True)
    rc, diff = sh("git diff -- src", cwd=wt)
    assert diff.strip(), "empty diff"
    with open(os.path.join(d, "patch.diff"), "w") as f:
        f.write(diff)
    demo_src = os.path.join(wt, f"demo_{prop}.py")
    if os.path.exists(demo_src):
        shutil.copy(demo_src, os.path.join(d, "demo.py"))
    scratch = f"/tmp/seedchk_{sid}"
    sh(f"git -C /repo worktree remove --force {scratch}")
    rc, out = sh(f"git -C /repo worktree add -q --detach {scratch} HEAD")
    assert rc == 0, out
    ran = []
    try:
        env = {"PYTHONPATH": f"{scratch}/src"}
        rc, out = sh(f"git apply {d}/patch.diff", cwd=scratch)
        assert rc == 0, "patch does not apply to HEAD: " + out
        rct, ot = sh(f"{PY} -m pytest -q -p no:cacheprovider", cwd=scratch, env=env)
        tail = ot.strip().splitlines()[-1] if ot.strip() else ""
        ran.append(f"pytest with the change: exit {rct}: {tail}")
        rc1 = 0
        if os.path.exists(os.path.join(d, "demo.py")):
            txt = open(os.path.join(d, "demo.py")).read().replace(wt, scratch)
            open(os.path.join(scratch, f"demo_{prop}.py"), "w").write(txt)
            rc1, o1 = sh(f"{PY} demo_{prop}.py", cwd=scratch, env=env, timeout=1200)
            ran.append(f"differential script (original vs edited): exit {rc1}: {o1.strip().splitlines()[-1] if o1.strip() else ''}")
        ok = rct == 0 and rc1 == 0
    finally:
        sh(f"git -C /repo worktree remove --force {scratch}")
    rc, head = sh("git -C /repo rev-parse --short HEAD")
    meta = {"id": sid, "kind": "neutral", "property": prop, "needs_to_manifest": "nothing: behaviour-preserving refactor", "base_commit": head.strip(),
            "confirmed": ok, "ran": ran}
    with open(os.path.join(d, "meta.json"), "w") as f:
        json.dump(meta, f, indent=1)
    print(json.dumps({k: meta[k] for k in ("id", "property", "confirmed", "ran")}, indent=1))
    if ok:
        run([sid])
    return ok


def run(ids):
    ids = ids or sorted(x for x in os.listdir(SEEDED) if os.path.exists(os.path.join(SEEDED, x, "patch.diff")))
    rc, st = sh("git -C /repo status --porcelain -- src")
    assert not st.strip(), "/repo has uncommitted changes: " + st
    props = claimed()
    summary = {}
    for sid in ids:
        d = os.path.join(SEEDED, sid)
        meta = json.load(open(os.path.join(d, "meta.json")))
        rc, out = sh(f"git -C /repo apply {d}/patch.diff")
        if rc != 0:
            sh("git -C /repo reset -q; git -C /repo checkout -- .")
            rc, out = sh(f"git -C /repo apply --3way {d}/patch.diff")
            if rc != 0 or "<<<<<<<" in sh("git -C /repo diff")[1]:
                rc = 1
        if rc != 0:
            sh("git -C /repo reset -q; git -C /repo checkout -- .")
            summary[sid] = "PATCH-DOES-NOT-APPLY"
            print(sid, summary[sid], out[-300:])
            continue
        det = {}
        try:
            from concurrent.futures import ThreadPoolExecutor
            with ThreadPoolExecutor(max_workers=14) as ex:
                outs = list(ex.map(lambda p: (p,) + sh(f"python3 mdstatic/check.py {p} --tier quick", cwd=VERIF), props))
            for p, rcc, o in outs:
                if rcc != 0:
                    lines = [ln for ln in o.splitlines() if ln.startswith(("VIOLATION", "  rule=", "ANALYSIS-ERROR"))]
                    det[p] = {"exit": rcc, "lines": lines[:6]}
        finally:
            sh("git -C /repo reset -q; git -C /repo checkout -- .")
        own = meta["property"]
        if meta.get("kind") == "neutral":
            meta["alarms"] = {p: v for p, v in det.items()}
            meta["silent"] = not det
            with open(os.path.join(d, "meta.json"), "w") as f:
                json.dump(meta, f, indent=1)
            summary[sid] = "neutral: " + ("silent (all checks exit 0)" if not det else "FALSE-ALARM " + ",".join(f"{p}(exit {v['exit']})" for p, v in det.items()))
            print(sid, summary[sid])
            continue
        meta["detected_by"] = {p: v for p, v in det.items()}
        meta["detected_by_own_property_check"] = own in det and det[own]["exit"] == 1
        meta["detected_by_any_check"] = any(v["exit"] == 1 for v in det.values())
        with open(os.path.join(d, "meta.json"), "w") as f:
            json.dump(meta, f, indent=1)
        summary[sid] = ("own:" + ("YES" if meta["detected_by_own_property_check"] else "no") + " any:" +
                        (",".join(p for p, v in det.items() if v["exit"] == 1) or "none") +
                        ("" if own in props else f" ({own} not claimed yet)") +
                        ("".join(f" ERR:{p}" for p, v in det.items() if v["exit"] == 2)))
        print(sid, summary[sid])
    # evidence files were rewritten by the runs against patched trees: regenerate from the clean tree
    from concurrent.futures import ThreadPoolExecutor
    with ThreadPoolExecutor(max_workers=14) as ex:
        list(ex.map(lambda p: sh(f"python3 mdstatic/check.py {p} --tier quick", cwd=VERIF), props))
    return summary


if __name__ == "__main__":
    if sys.argv[1] == "harvest":
        ok = harvest(*sys.argv[2:6])
        sys.exit(0 if ok else 1)
    elif sys.argv[1] == "neutral":
        ok = neutral(*sys.argv[2:5])
        sys.exit(0 if ok else 1)
    elif sys.argv[1] == "run":
        run(sys.argv[2:])
