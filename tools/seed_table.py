#!/usr/bin/env python3
"""Print the DESIGN.md section-11 rows for seeds (from seeded/<id>/meta.json as last written by `seed.py run`)."""
import glob
import json
import os
import re
import sys

VERIF = os.path.dirname(os.path.dirname(os.path.abspath(__file__)))
lo = int(sys.argv[1]) if len(sys.argv) > 1 else 1
hi = int(sys.argv[2]) if len(sys.argv) > 2 else 999
prefix = sys.argv[3] if len(sys.argv) > 3 else "s"
for d in sorted(glob.glob(os.path.join(VERIF, "seeded", prefix + "*"))):
    sid = os.path.basename(d)
    n = int(sid[1:3]) if sid[1:3].isdigit() else -1
    if not (lo <= n <= hi):
        continue
    m = json.load(open(os.path.join(d, "meta.json")))
    own = m["property"]
    det = m.get("detected_by", {})
    rule = ""
    if own in det and det[own]["exit"] == 1:
        for ln in det[own]["lines"]:
            mm = re.match(r"\s*rule=(\S+)", ln)
            if mm:
                rule = mm.group(1)
                break
    others = sorted(p for p, v in det.items() if p != own and v["exit"] == 1)
    caught = (f"{own} {rule}" if rule else "**not by its own check**") + (f" (+ {' '.join(others)})" if others else "")
    print(f"| {sid.split('-')[0]} | {own} | {m.get('needs_to_manifest', '')} | {caught} |")
