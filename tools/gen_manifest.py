#!/usr/bin/env python3
"""Generate /verif/MANIFEST.json from the table below (kept in one place so it stays valid)."""
import json
import os

VERIF = os.path.dirname(os.path.dirname(os.path.abspath(__file__)))

# property -> (technique, level text, level note, design ref)
CHECKS = {
    "C01": (
        "exception-escape analysis (raising-construct census, handler class coverage, abstract-interpreter bounds for indices/arity/divisors/struct offsets/byte ranges, regex language of conversion arguments, reviewed exemptions with re-checked conditions, propagation over the call graph) + termination audit (ranking templates for every while/for/recursion, stack-drain certificate from the span bounds)",
        "Decides that no exception class can propagate out of scan / scan_node / flatten / iteration / string_summary / make_label / tree_to_json given the declared summaries of library functions, and that every loop and recursion cycle has a ranking argument. Also decides that every branching recursion (one recursive call per element at every level: xortool.all_keys) is entered only under a dominating bound on the product of the collection sizes (R4; D29 found and repaired), and whether the recursion depth of the read-only views is bounded by the depth budget (it is not: three recorded known findings, RecursionError on ~1000 nested contexts). Partial: third-party code beyond the declared table, xortool's numeric core, MemoryError and regex running time are assumed, not decided.",
        "Trusted: EXTERNAL_RAISES table, pefile raising only PEFormatError, xortool arithmetic, reviewed exemptions (each listed with its re-checked condition in the evidence). Three recorded known findings (recursive views vs unbounded context nesting).",
        "DESIGN.md 2.3, 2.5, 3/C01",
    ),
    "C02": (
        "regular-language abstraction of conversion arguments (group language pushed through split / strip / slice / case map / constant replace as automaton constructions, refined by dominating startswith tests) contained in the grammar of int(text, base) / unhexlify; affine frame analysis of scan_node's decoded arm; linear form of the recursion depth; provenance terms of layer hits",
        "Structural clauses only - the round-trip equality itself (successive plaintexts of an arbitrary encoder stack at any offset) is a relation between runtime values and is NOT decided. Decided, each a necessary condition: (R1) no text a layer decoder's own pattern admits can make its int()/unhexlify conversion raise, so no admitted layer is silently dropped; (R2) decoded hits are re-scanned, on the hit itself, at exactly depth-1, and no hit is lost or attached twice; (R3) a layer hit covers group 0 of the match its value comes from; (R4) layer hits carry a constant label or type. Exactness of each decoder's value, re-basing and flatten are decided under C04-C08, C13-C16, C19 and are not repeated here.",
        "Trusted: Python's integer-literal grammar per base, binascii.unhexlify's domain, the regex group-language construction. Legitimate out-of-domain rejections (invalid base64 padding, byte values above 255, unencodable code points) are not treated as drops.",
        "DESIGN.md 3/C02, 12",
    ),
    "C03": (
        "abstract interpretation of every decoder over a linear-form/term domain with Fourier-Motzkin entailment (span bounds on every path), span contracts for many-path helpers, affine frame analysis of scan_node (return-the-root, re-basing in bounds), attach-site pairing census, constructor binding of the root",
        "Decides: the root is Node('', data, '', 0, len(data)); scan_node returns the root; every children-list store in the package is paired with the child's parent pointer; iteration is pre-order; for every Node a shipped decoder returns on every path 0 <= start <= end <= len(data), and for every child a decoder attaches itself 0 <= start <= end <= len(parent value); Node.original slices the parent's value. 'Every node appears exactly once' across activations follows from freshness of hits (C09-R3) and is not re-decided here.",
        "Trusted: regex match/group span axioms, length facts of bytes methods, urlsplit layout, ntpath.normpath/splitext, pefile field signedness (listed in the evidence). Two recorded known findings in find_powershell_strings (pinned by the unedited test-suite).",
        "DESIGN.md 2.4, 3/C03",
    ),
    "C04": (
        "affine abstract interpretation (frame analysis) of scan_node's hit loop with symbolic spans; truth-table equivalence of the decoded/context test; effect summaries of Node.shift / shift_nodes / Node.original",
        "For any registry: at every attach site the kept hit's span is (s - A(NODE), e - A(NODE)) with A(NODE) the sum of the starts of the open contexts; pops subtract exactly the popped context's start; only length-preserving hits become contexts. This is the whole re-basing mechanism the statement is about; the decoders' own (start,end) are C03/C13-C16.",
        "Trusted: Python statement semantics, Fourier-Motzkin arithmetic in mdstatic.lin. Assumes hits lie inside the scanned value (the empty-stack pop is charged to C01/C03).",
        "DESIGN.md 2.6, 3/C04",
    ),
    "C05": (
        "affine frame analysis: sort key as linear forms, shadow test and pop test normalised to one coordinate frame with strictness, DEND typed as an absolute end",
        "Decides the order key (start asc, end desc, nothing else), that the shadow test compares the hit's ABS end with the ABS end of the last decoded hit using <=, that a context is popped iff the hit ends strictly beyond it, and that DEND is updated only in the decoded arm, to the ABS end. Laminarity of siblings follows per attach site from these facts.",
        "Trusted: sorted() is stable and ascending; linear arithmetic. Not decided: value-level equality of trees.",
        "DESIGN.md 2.6, 3/C05",
    ),
    "C06": (
        "affine frame analysis V1-V10 + children-arm dominance; guard truth tables for the self-match and decoded tests",
        "Each clause of the interval-nesting reference procedure is matched by a verification condition decided on the source for any registry; necessary conditions checked soundly one by one, not a mechanised proof that their conjunction implies tree equality with the reference procedure.",
        "Trusted: Python statement semantics; premise that decoders return non-empty in-bounds hits.",
        "DESIGN.md 2.6, 3/C06",
    ),
    "C10": (
        "reaching-condition dominance of validators at every network.* construction site (truth tables), who-may-construct census for ip nodes, validator bodies compared with the statement, table scan of the TLD set, regex alphabets, exhaustive set denotation of the percent-normalisation guard",
        "Decides: every domain / e-mail / url / ip node construction is dominated by its validator applied to the text that becomes the value; validators are the documented predicates; TLD table entries are upper-case LDH; pattern alphabets; exactly the RFC 3986 unreserved escapes are decoded and the rest upper-cased, labelled exactly when the text got shorter; the ip label guard. Canonical form of IPv4Address.compressed and urlsplit validation are trusted library facts.",
        "Trusted: ipaddress, urllib.parse.urlsplit, socket.inet_aton.",
        "DESIGN.md 3/C10",
    ),
    "C11": (
        "language containment of the documented indicator grammars in the shipped patterns (regex->DFA with exact \\b and edge assertions, full TLD table as a trie), look-around / alphabet checks against the neutral delimiter set, provenance terms (value = match text, span = match span), truth-table comparison of every rejecting filter with the reference list, sibling-table agreement of file-name labels, loop-shape check of the CreateObject scanner",
        "Decides necessary conditions for detection: every documented indicator text is in the language of its pattern; neutral delimiters can neither veto nor be absorbed by a match; regex-only indicators report exactly the match; nothing but the validators and the documented heuristics can reject a match; labels agree with EXT_MAP; the parenthesis scanner returns the balancing position. Which candidate leftmost-greedy search selects, pefile parsing and path shapes are not decided.",
        "Trusted: the regex module finds a match when the text is in the language and no cut (possessive/atomic) construct is present; pefile.",
        "DESIGN.md 3/C11",
    ),
    "C12": (
        "abstract interpretation over a layout model of urlsplit (presence partitions, separator symbols, sum axiom) and the split-sum / split-offset lemmas, Fourier-Motzkin entailment of span == component position on every presence path; provenance terms; guard truth tables; exhaustive evaluation of the '..' pop guard over the shapes of the segment stack",
        "Decides: children are computed over the text that becomes the URL node's value; on every presence path each part's span equals the position and length of its component (authority parts shifted by the authority's start; user name / password / host placed as rsplit('@') / split(':') imply); values are the decode of the same component; MixedCase / url.dotpath / windows.dotpath guards; the root of an absolute path is never cancelled; Windows host and file-name children sit on their segments. Dot-segment semantics beyond root preservation and ntpath.normpath are trusted/not decided.",
        "Trusted: urlsplit, unquote_to_bytes, ntpath. parse_url is analysed under the precondition find_urls establishes (scheme and authority present).",
        "DESIGN.md 3/C12",
    ),
    "C13": (
        "provenance terms from abstract interpretation (conversion applied to a group of the match whose whole span is the node span), regex-automaton facts (group alphabets, minimum lengths, language containment/equality), guard truth table for find_base64's rejection rules, structural match of apply_xor_key/dexor",
        "Decides the structural half of exactness: which stdlib conversion is applied to exactly which delimited text and reported over exactly which span with which label; the acceptance thresholds (22 chars, multiple of 4, > 6 distinct, not pure hex/letters, slash rule; 10 same-case hex pairs; > 500 array elements) and that the documented call forms are matched as one unit; xor applies b ^ key to every byte of the parent's value with the stated key. Bit-exactness of binascii and the key xortool guesses are not decided.",
        "Trusted: binascii, bytes(generator). The byte-range of xor keys (0..999 from the regex) is a totality matter decided under C01.",
        "DESIGN.md 3/C13",
    ),
    "C14": (
        "regex-automaton facts (thresholds, finite-language enumeration of the decimal alternative, containment of the hex alternative, UTF-16 pair structure), tokenisation lemma for replace/split, provenance terms from abstract interpretation, handler census for chr()",
        "Decides: the reference group is decimal 0-255 or two hex digits and runs need five references; replace+split enumerates exactly the matched references and each is converted with the right base; chr/unescape/UTF-16 values are the stdlib conversion of exactly the delimited group, over exactly the match span, with the documented labels; unencodable code points are skipped; UTF-16 matches are (Latin-1, NUL) pairs with a seven-character threshold. That int/chr/unquote/codecs compute what their documentation says is trusted.",
        "Trusted: int, chr, unquote_to_bytes, utf-16/utf-8 codecs.",
        "DESIGN.md 3/C14",
    ),
    "C15": (
        "provenance terms from abstract interpretation (which slices of which groups are combined), group-language containment justifying every quote-stripping slice, regex skeleton membership for the documented call shapes and operand order, language equality for the concat chain / separator",
        "Decides: replace dialects evaluate x[1:-1].replace(a[1:-1], b[1:-1]) with operands in the dialect's syntactic order; reversal is the reverse of the unquoted literal; concatenation removes exactly quote-spacer-quote with the chain's own spacer; stripped groups really are quoted literals; spans are the whole expression; types end in 'string'. Behaviour on literals containing quote characters is excluded by the statement; bytes.replace is trusted.",
        "Trusted: bytes.replace, slicing, re.sub.",
        "DESIGN.md 3/C15",
    ),
    "C16": (
        "abstract interpretation relating node spans to the raw text handed to the caret stripper (Fourier-Motzkin), DFA membership of every encoded-command switch spelling in L(ENC_RE), path table of strip_carets' loop body compared case by case with the cmd.exe rules, statement-order and loop-shape checks of the encoded-argument handling and the parenthesis scan",
        "Decides: span length == length of the de-escaped raw text on every path of both shell decoders (needs the balance scan to stop); caret label iff changed; all -e..-encodedcommand / -ec spellings in - and / style with quotes, carets and value-less switches are recognised and near misses are not; base64 then UTF-16, switch replaced by -Command; the caret state machine's seven cases and the trailing byte follow the statement's rules. Conformance of those rules to a real cmd.exe and the look-back delimiting heuristics are not decided.",
        "Trusted: binascii, utf-16 codec, bytes slicing. One recorded known finding (no-context branch of find_powershell_strings, pinned by the test-suite).",
        "DESIGN.md 3/C16",
    ),
    "C17": (
        "guard truth tables with integer theory (boundary test, MixedCase per-byte test), find-advance loop template, constructor-argument provenance through Node.__init__'s signature",
        "Decides the whole mechanism of keyword.find_all / find_keywords / is_mixed_case: the boundary formula equals the statement's, both search operands are lower-cased, the search starts at 0 and advances by len(keyword) on every path, empty keywords are rejected, type/value/span roles and the MixedCase formula are the documented ones.",
        "Trusted: bytes.find/lower/isalnum/isupper/islower (ASCII semantics, matching the statement).",
        "DESIGN.md 3/C17",
    ),
    "C18": (
        "agreement tables (marker writer/reader, find_* census vs @decoder, import table), filter truth table, call-shape match of the keyword walk, def-use of configuration parameters",
        "Decides marker agreement, that every module-level decoder is registered exactly once and visible to the module walk, that the include/exclude filter equals the statement's formula, the shape of the keyword-file walk (recursive, per-file partial typed by file name, blank lines dropped, empty files skipped) and that directory/include/exclude flow only where the statement says.",
        "Trusted: pkgutil.iter_modules, inspect.getmembers, os.walk, functools.partial. Order of enumeration is C09's concern.",
        "DESIGN.md 3/C18",
    ),
    "C19": (
        "abstract interpretation of the substitution loop (path table of emitted segments and offset updates) compared case by case with the tiling rule",
        "For Node.flatten and query.squash_replace: in every case of (overlap-skip, changed, string-typed) exactly one path runs and emits exactly value[OFFSET:child.start] + the child's flattened value (quoted for string types) and sets OFFSET to child.end, or emits nothing; the tail is emitted once; the result is the concatenation. This is the tiling invariant; byte equality with a reference over all trees is a consequence argued on paper.",
        "Trusted: bytes slicing, list.append, b''.join.",
        "DESIGN.md 3/C19",
    ),
    "C20": (
        "agreement tables (__slots__ vs node_to_dict keys vs as_node reads vs __eq__ fields, inverse transforms), stdlib signature lookup for every json.* keyword, CLI dataflow by reaching definitions and call-shape matching",
        "Decides the field-by-field agreement between the record, its encoder, its decoder and structural equality; that json.dumps/json.loads are called with keywords they accept; that json_to_tree rebuilds the tree top-down with parent links; that the CLI scans the raw bytes and prints exactly tree_to_json(tree) / one string_summary line per node in pre-order / squash_replace(data, tree.children).",
        "Trusted: json, bytes.hex/fromhex, argparse. inspect.signature is applied to stdlib callables only.",
        "DESIGN.md 3/C20",
    ),
    "C08": (
        "affine frame analysis (fresh per-activation state, decoded test truth table, recursion on the hit), attribute-load census of the node parameter with the pop loop excluded by the span-bound certificate of the abstract interpreter, effect analysis of the decoder path",
        "Decides: decoded hits are recursed into with nothing but the hit and the remaining depth; loop state is allocated per activation; of its node scan_node reads only value/type/children (start only in the pop loop, unreachable for the root because all shipped hits are in bounds); decoders get NODE.value only and keep no state. Equality of the child lists as values is the paper consequence with C09.",
        "Trusted: Python call semantics. Depends on the C03-R5 span certificate.",
        "DESIGN.md 3/C08",
    ),
    "C09": (
        "interprocedural order-taint analysis (unordered / file-system-ordered values vs order-observing uses, sorted() as sanitiser), write-effect analysis with call-site freshness, entropy-source census, stdlib source inspection of the registry enumerators",
        "Decides that no set / hash-ordered / file-system-ordered value reaches result order unsorted on the registry-build and scan paths, that the scan path writes no state shared between activations (so repeated, re-used and concurrent scans cannot influence each other through the library), that no entropy source is consulted, and that ties of the stable sort are registry order then decoder-return order.",
        "Trusted: sorted()/sort() determinism and stability, dict insertion order, thread-safety and determinism of regex and pefile internals, that pkgutil.iter_modules / inspect.getmembers sort (re-checked in the stdlib source of the repository's interpreter).",
        "DESIGN.md 2.8, 3/C09",
    ),
    "C07": (
        "reaching-condition dominance (truth table over the depth guard) + linear form of recursive depth arguments + def-use census of the depth parameter",
        "Static analysis of scan/scan_node: every decoder call, recursive call and tree mutation is dominated by DEPTH >= 1; every recursive call passes DEPTH - c, c >= 1; the depth parameter flows nowhere else. These three facts are the whole truncation mechanism; the prefix relation between the trees for k and k+1 is a paper consequence of them plus C08, not mechanically proved.",
        "Trusted: Python's semantics of if/return/for, the ast-based callee resolver. Not decided: that decoders themselves terminate (C01).",
        "DESIGN.md 3/C07",
    ),
}

NOT_APPLICABLE = {
}

# clauses added in later build rounds (appended to the level text of the property)
FRESH = (" Also decided: no node-building function reachable from the property's decoders carries a caching decorator (the spans stated by the property are those of THIS call; "
         "the engine shifts and re-parents returned nodes in place) - a memoised helper whose results contain no node is accepted; the functional spelling "
         "ALIAS = lru_cache(...)(f) used by a reachable function is counted as the decorator.")
TRUTH = " Also decided: Node defines no __len__ / value-dependent __bool__, so the parent tests in Node.original mean 'there is a parent' for every span (zero-width parents included)."
ADDENDA = {
    "C18": " The include / exclude filter is compared with the statement under 'membership implies a non-empty container'; set-converted copies of the arguments are the arguments.",
    "C01": (" R5: for every constant pattern handed to the regex engine, no alternation nested in an unbounded repeat has two alternatives with intersecting languages (2^k parses "
            "between the same iteration boundaries); ambiguity of iteration boundaries is listed in the evidence but NOT judged (the matcher's repeat guards keep it linear on today's tree). "
            "Memoised scan-path functions take hashable arguments only. R6: no node-building function reachable from a decoder is cached (decorator or ALIAS = lru_cache(...)(f)): "
            "the drain loop's ranking argument needs hit.end <= len(data) for the hits of THIS call, and a cached node is shifted in place at every reuse."),
    "C03": TRUTH, "C04": TRUTH, "C05": TRUTH, "C06": TRUTH, "C08": TRUTH + " Delegated to C07: the depth handed to the rescan of a decoded hit is DEPTH - 1 as a linear form (no dependence on the open contexts).",
    "C09": " Set algebra on dict views (keys() - keys()) and set methods yield unordered collections; a keyed sort does not sanitise iteration order.",
    "C10": (" The percent-normalisation callback is interpreted (mdstatic/pureeval.py, nothing executed from the repository) for all 484 two-hex-digit escapes and compared with the "
            "documented table." + FRESH),
    "C11": " Delegated to C10's rules (necessary for the canonical value and for a candidate being reported at all): percent normalisation table, is_domain / is_ip / is_url formulas, parse_ip canonical value. Delegated to C09's effect rule for the functions its decoders reach: no write to state that outlives the call "
            "(a module-level verdict cache makes detection depend on earlier scans)." + FRESH,
    "C12": (" Delegated to C10's rules: both IP parsers produce the compressed canonical form from packed bytes and label exactly when the text differs. The dotpath labels are "
            "compared as formulas (any spelling, either arm order) under len(kept) <= len(segments) / len(normpath(x)) <= len(x); the kept-segment stack changes only inside the segment loop." + FRESH),
    "C13": FRESH, "C14": " The provenance term of an .encode() call is the plain UTF-8 term only for a strict UTF-8 codec; any other codec or error handler (surrogatepass, replace, latin-1) is part of the term and fails the value rule." + FRESH, "C15": FRESH, "C16": FRESH,
    "C17": (" The boundary guard is compared with the statement under stated facts (start is a find() result inside the loop; a slice beginning at the end of the data is "
            "empty and not alphanumeric), the per-byte MixedCase test under 'no character is both upper and lower case'." + FRESH),
    "C20": " Delegated to C03's pairing rule: every child attached anywhere in the package points back at its owner (make_label / string_summary walk parent links).",
}

PENDING_REASON = "static check designed (DESIGN.md section 3) but not built yet in this revision; not claimed until it runs"

ALL = [f"C{n:02d}" for n in range(1, 21)]


def main():
    checks = []
    for pid in ALL:
        if pid not in CHECKS:
            continue
        tech, text, note, ref = CHECKS[pid]
        checks.append({
            "property_id": pid,
            "quick_cmd": f"python3 mdstatic/check.py {pid} --tier quick",
            "thorough_cmd": f"python3 mdstatic/check.py {pid} --tier thorough",
            "evidence_file": f"/verif/evidence/{pid}.json",
            "replay_cmd_template": "cat {path}",
            "engine": "mdstatic",
            "level_claimed": {"category": "other", "text": text + ADDENDA.get(pid, ""), "design_ref": ref},
            "level_note": note,
            "technique": "static analysis: " + tech,
        })
    na = []
    for pid in ALL:
        if pid in CHECKS:
            continue
        na.append({"property_id": pid, "reason": NOT_APPLICABLE.get(pid, PENDING_REASON)})
    man = {
        "version": 1,
        "setup_cmd": "python3 -c \"import ast, re._parser, fractions; print('mdstatic: stdlib only, nothing to build')\"",
        "hooks": {
            "guard": "MULTIDECODER_VERIF",
            "enable": "no hooks: the checks are static (nothing from /repo is imported or executed), so there is nothing to enable",
            "baseline_off_cmd": "cd /repo && /venv/bin/python -m pytest -ra -q -p no:cacheprovider --timeout=900 --continue-on-collection-errors",
            "source_commits": [],
            "add_only": True,
        },
        "engines": [
            {"name": "mdstatic", "path": "/verif/mdstatic", "serves_properties": sorted(CHECKS),
             "kind_free_text": "repository-specific static analyser (python ast + re._parser): program model and call graph with a syntactic normaliser (private helpers inlined, aliases / hoisted temporaries propagated, loop spellings unified - mdstatic/normalise.py, listed per run in the evidence), regex->DFA language engine, guard normal forms with truth tables, linear-form bounds with Fourier-Motzkin entailment, affine frame analysis of scan_node, effect/taint analysis, agreement tables"},
            {"name": "selftest", "path": "/verif/selftest", "serves_properties": sorted(CHECKS),
             "kind_free_text": "thorough tier: catalogue of breaking / neutral source edits applied to in-memory copies; every breaking edit must be reported at the named rule, every neutral edit must stay silent"},
        ],
        "checks": checks,
        "not_applicable": na,
        "notes": "All checks are static analyses of /repo/src/multidecoder as it is on disk when the check starts. Exit 2 + ANALYSIS-ERROR means the analysis could not run (vanished anchor, unsupported construct): never a silent pass. Known findings: /verif/known_findings.json.",
    }
    with open(os.path.join(VERIF, "MANIFEST.json"), "w") as f:
        json.dump(man, f, indent=1)
    print("claimed:", sorted(CHECKS), "not_applicable:", [x["property_id"] for x in na])


if __name__ == "__main__":
    main()
