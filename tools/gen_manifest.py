#!/usr/bin/env python3
"""Generate /verif/MANIFEST.json from the table below (kept in one place so it stays valid)."""
import json
import os

VERIF = os.path.dirname(os.path.dirname(os.path.abspath(__file__)))

# property -> (technique, level text, level note, design ref)
CHECKS = {
    "C07": (
        "reaching-condition dominance (truth table over the depth guard) + linear form of recursive depth arguments + def-use census of the depth parameter",
        "Static analysis of scan/scan_node: every decoder call, recursive call and tree mutation is dominated by DEPTH >= 1; every recursive call passes DEPTH - c, c >= 1; the depth parameter flows nowhere else. These three facts are the whole truncation mechanism; the prefix relation between the trees for k and k+1 is a paper consequence of them plus C08, not mechanically proved.",
        "Trusted: Python's semantics of if/return/for, the ast-based callee resolver. Not decided: that decoders themselves terminate (C01).",
        "DESIGN.md 3/C07",
    ),
}

NOT_APPLICABLE = {
    "C02": "Value-level round-trip equality between composed encoders and decoders; no static abstract domain in reach relates decoded bytes to input bytes. Its structural clauses are decided under C03/C07/C08/C13-C15/C19 (DESIGN.md 3/C02).",
}

PENDING_REASON = "static check designed (DESIGN.md section 3) but not built yet in this revision; not claimed until it runs"

ALL = [f"C{n:02d}" for n in range(1, 21)]


def main():
    checks = []
    for pid in ALL:
        if pid not in CHECKS:
            continue
        tech, text, note, ref = CHECKS[pid]
        checks.append({
            "property_id": pid,
            "quick_cmd": f"python3 mdstatic/check.py {pid} --tier quick",
            "thorough_cmd": f"python3 mdstatic/check.py {pid} --tier thorough",
            "evidence_file": f"/verif/evidence/{pid}.json",
            "replay_cmd_template": "cat {path}",
            "engine": "mdstatic",
            "level_claimed": {"category": "other", "text": text, "design_ref": ref},
            "level_note": note,
            "technique": "static analysis: " + tech,
        })
    na = []
    for pid in ALL:
        if pid in CHECKS:
            continue
        na.append({"property_id": pid, "reason": NOT_APPLICABLE.get(pid, PENDING_REASON)})
    man = {
        "version": 1,
        "setup_cmd": "python3 -c \"import ast, re._parser, fractions; print('mdstatic: stdlib only, nothing to build')\"",
        "hooks": {
            "guard": "MULTIDECODER_VERIF",
            "enable": "no hooks: the checks are static (nothing from /repo is imported or executed), so there is nothing to enable",
            "baseline_off_cmd": "cd /repo && /venv/bin/python -m pytest -ra -q -p no:cacheprovider --timeout=900 --continue-on-collection-errors",
            "source_commits": [],
            "add_only": True,
        },
        "engines": [
            {"name": "mdstatic", "path": "/verif/mdstatic", "serves_properties": sorted(CHECKS),
             "kind_free_text": "repository-specific static analyser (python ast + re._parser): program model and call graph, regex->DFA language engine, guard normal forms with truth tables, linear-form bounds with Fourier-Motzkin entailment, affine frame analysis of scan_node, effect/taint analysis, agreement tables"},
            {"name": "selftest", "path": "/verif/selftest", "serves_properties": sorted(CHECKS),
             "kind_free_text": "thorough tier: catalogue of breaking / neutral source edits applied to in-memory copies; every breaking edit must be reported at the named rule, every neutral edit must stay silent"},
        ],
        "checks": checks,
        "not_applicable": na,
        "notes": "All checks are static analyses of /repo/src/multidecoder as it is on disk when the check starts. Exit 2 + ANALYSIS-ERROR means the analysis could not run (vanished anchor, unsupported construct): never a silent pass. Known findings: /verif/known_findings.json.",
    }
    with open(os.path.join(VERIF, "MANIFEST.json"), "w") as f:
        json.dump(man, f, indent=1)
    print("claimed:", sorted(CHECKS), "not_applicable:", [x["property_id"] for x in na])


if __name__ == "__main__":
    main()
