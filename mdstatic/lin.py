"""Linear forms over opaque symbols with integer/rational coefficients, and a small exact
entailment procedure (Fourier-Motzkin elimination over the rationals) used as the decision
procedure of the relational numeric domain. No external solver."""
from __future__ import annotations

import ast
from fractions import Fraction


class Lin:
    __slots__ = ("c", "t", "_h")

    def __init__(self, c=0, t=None):
        self.c = c if isinstance(c, Fraction) else Fraction(c)
        self.t = {k: (v if isinstance(v, Fraction) else Fraction(v)) for k, v in (t or {}).items() if v}
        self._h = None

    @staticmethod
    def sym(n):
        return Lin(0, {n: 1})

    def __add__(self, o):
        o = lin(o)
        t = dict(self.t)
        for k, v in o.t.items():
            t[k] = t.get(k, 0) + v
        return Lin(self.c + o.c, t)

    __radd__ = __add__

    def __neg__(self):
        return Lin(-self.c, {k: -v for k, v in self.t.items()})

    def __sub__(self, o):
        return self + (-lin(o))

    def __rsub__(self, o):
        return lin(o) - self

    def scale(self, k):
        k = Fraction(k)
        return Lin(self.c * k, {a: b * k for a, b in self.t.items()})

    def __eq__(self, o):
        if not isinstance(o, (Lin, int, Fraction)):
            return NotImplemented
        o = lin(o)
        return self.c == o.c and self.t == o.t

    def __hash__(self):
        if self._h is None:
            self._h = hash((self.c, tuple(sorted(self.t.items()))))
        return self._h

    def is_const(self):
        return not self.t

    def syms(self):
        return set(self.t)

    def subst(self, name, val):
        if name not in self.t:
            return self
        k = self.t[name]
        rest = Lin(self.c, {a: b for a, b in self.t.items() if a != name})
        return rest + lin(val).scale(k)

    def __repr__(self):
        parts = []
        for k, v in sorted(self.t.items()):
            if v == 1:
                parts.append(f"+ {k}")
            elif v == -1:
                parts.append(f"- {k}")
            elif v > 0:
                parts.append(f"+ {v}*{k}")
            else:
                parts.append(f"- {-v}*{k}")
        if self.c or not parts:
            parts.append(f"+ {self.c}" if self.c >= 0 else f"- {-self.c}")
        s = " ".join(parts)
        return s[2:] if s.startswith("+ ") else s


def lin(x) -> Lin:
    return x if isinstance(x, Lin) else Lin(x)


def solve_eqs(eqs):
    """Gaussian elimination of a list of equalities (each Lin == 0). Returns (substitutions [(sym, Lin)], consistent)."""
    subs = []
    for e in eqs:
        for sym, val in subs:
            if sym in e.t:
                e = e.subst(sym, val)
        if e.is_const():
            if e.c != 0:
                return subs, False
            continue
        sym = min(e.t, key=lambda k: (abs(e.t[k]) != 1, k))
        k = e.t[sym]
        rest = Lin(e.c, {a: b for a, b in e.t.items() if a != sym})
        subs.append((sym, rest.scale(Fraction(-1) / k)))
    return subs, True


def apply_subs(subs, r: Lin) -> Lin:
    for sym, val in subs:
        if sym in r.t:
            r = r.subst(sym, val)
    return r


def reduce_equalities(rows, eqs=()):
    """substitute the explicit equalities away; rows that become constant are checked and dropped"""
    if not eqs:
        return list(dict.fromkeys(rows))
    subs, ok = solve_eqs(eqs)
    if not ok:
        return [Lin(-1)]
    out = []
    for r in rows:
        r2 = apply_subs(subs, r)
        if r2.is_const():
            if r2.c < 0:
                return [Lin(-1)]
            continue
        out.append(r2)
    return list(dict.fromkeys(out))


def component(facts, seeds):
    """facts connected (through shared symbols) to the symbol set `seeds`"""
    rel = set(seeds)
    changed = True
    facts = [f for f in facts if isinstance(f, Lin)]
    while changed:
        changed = False
        for r in facts:
            s = r.syms()
            if s & rel and not s <= rel:
                rel |= s
                changed = True
    return [r for r in facts if (r.syms() & rel) or r.is_const()]


def entails_nonneg(facts: list[Lin], goal: Lin, integer=True, max_rows=4000, eqs=()) -> bool:
    """Do the facts (each f >= 0) entail goal >= 0?  Decided by refuting facts & (goal <= -1)
    (integers: goal < 0 <=> goal <= -1) with Fourier-Motzkin elimination over the rationals.
    Sound: a rational refutation is an integer refutation. Returns False when it cannot refute."""
    goal = lin(goal)
    if eqs:
        subs, ok = solve_eqs(eqs)
        if not ok:
            return True
        goal = apply_subs(subs, goal)
        facts = [apply_subs(subs, f) for f in facts if isinstance(f, Lin)]
        facts = [f for f in facts if not (f.is_const() and f.c >= 0)]
    if goal.is_const():
        return goal.c >= 0 or any(isinstance(f, Lin) and f.is_const() and f.c < 0 for f in facts)
    neg = (-goal) - (1 if integer else 0)   # -goal - 1 >= 0
    rows = [f for f in facts if isinstance(f, Lin)] + [neg]
    # strict version when not integer is not needed here
    syms = set()
    for r in rows:
        syms |= r.syms()
    # only keep facts connected to the goal's symbols (transitively)
    rel = set(goal.syms())
    changed = True
    while changed:
        changed = False
        for r in rows:
            s = r.syms()
            if s & rel and not s <= rel:
                rel |= s
                changed = True
    rows = [r for r in rows if r.syms() & rel or r.is_const()]
    rows = list(dict.fromkeys(rows))
    order = sorted(rel, key=lambda s: sum(1 for r in rows if s in r.t))
    for s in order:
        pos = [r for r in rows if r.t.get(s, 0) > 0]
        negs = [r for r in rows if r.t.get(s, 0) < 0]
        rest = [r for r in rows if s not in r.t]
        for r in rest:
            if r.is_const() and r.c < 0:
                return True
        new = list(rest)
        for p in pos:
            for q in negs:
                a = p.t[s]
                b = -q.t[s]
                comb = p.scale(b) + q.scale(a)   # eliminates s
                if comb.is_const():
                    if comb.c < 0:
                        return True
                    continue
                new.append(comb)
        rows = list(dict.fromkeys(new))
        if len(rows) > max_rows:
            return False
    return any(r.is_const() and r.c < 0 for r in rows)


def inconsistent(facts: list[Lin], max_rows=4000, eqs=()) -> bool:
    """Do the facts (each f >= 0) have no rational solution? (Fourier-Motzkin)"""
    rows = list(dict.fromkeys(f for f in facts if isinstance(f, Lin)))
    if any(r.is_const() and r.c < 0 for r in rows):
        return True
    rows = reduce_equalities(rows, eqs)
    if any(r.is_const() and r.c < 0 for r in rows):
        return True
    syms = set()
    for r in rows:
        syms |= r.syms()
    order = sorted(syms, key=lambda s: sum(1 for r in rows if s in r.t))
    for s in order:
        pos = [r for r in rows if r.t.get(s, 0) > 0]
        negs = [r for r in rows if r.t.get(s, 0) < 0]
        new = [r for r in rows if s not in r.t]
        for p in pos:
            for q in negs:
                comb = p.scale(-q.t[s]) + q.scale(p.t[s])
                if comb.is_const():
                    if comb.c < 0:
                        return True
                    continue
                new.append(comb)
        rows = list(dict.fromkeys(new))
        if len(rows) > max_rows:
            return False
    return any(r.is_const() and r.c < 0 for r in rows)


def entails_eq(facts, a, b, eqs=()) -> bool:
    d = lin(a) - lin(b)
    if d.is_const():
        return d.c == 0
    return entails_nonneg(facts, d, eqs=eqs) and entails_nonneg(facts, -d, eqs=eqs)


# ------------------------------------------------------------------ AST -> Lin
def lin_of_ast(e: ast.expr, atom) -> Lin | None:
    """Linear form of an arithmetic expression. `atom(expr)` maps a non-arithmetic sub-expression to a
    Lin (typically a symbol) or None."""
    if isinstance(e, ast.Constant) and isinstance(e.value, int) and not isinstance(e.value, bool):
        return Lin(e.value)
    if isinstance(e, ast.UnaryOp) and isinstance(e.op, ast.USub):
        x = lin_of_ast(e.operand, atom)
        return None if x is None else -x
    if isinstance(e, ast.UnaryOp) and isinstance(e.op, ast.UAdd):
        return lin_of_ast(e.operand, atom)
    if isinstance(e, ast.BinOp) and isinstance(e.op, (ast.Add, ast.Sub)):
        a, b = lin_of_ast(e.left, atom), lin_of_ast(e.right, atom)
        if a is None or b is None:
            return None
        return a + b if isinstance(e.op, ast.Add) else a - b
    if isinstance(e, ast.BinOp) and isinstance(e.op, ast.Mult):
        a, b = lin_of_ast(e.left, atom), lin_of_ast(e.right, atom)
        if a is not None and b is not None:
            if a.is_const():
                return b.scale(a.c)
            if b.is_const():
                return a.scale(b.c)
        return atom(e)
    if isinstance(e, ast.NamedExpr):
        return lin_of_ast(e.value, atom)
    return atom(e)
