"""E7 - guard normal forms: boolean formulas over canonical atoms, path (reaching) conditions of
structured code, truth-table comparison with a small integer theory for interval atoms."""
from __future__ import annotations

import ast
import itertools

from .lin import Lin, lin_of_ast

T = ("T",)
F = ("F",)


def f_not(f):
    if f == T:
        return F
    if f == F:
        return T
    if f[0] == "not":
        return f[1]
    return ("not", f)


def f_and(*fs):
    out = []
    for f in fs:
        if f == F:
            return F
        if f == T:
            continue
        if f[0] == "and":
            out.extend(f[1:])
        else:
            out.append(f)
    if not out:
        return T
    if len(out) == 1:
        return out[0]
    return ("and", *out)


def f_or(*fs):
    out = []
    for f in fs:
        if f == T:
            return T
        if f == F:
            continue
        if f[0] == "or":
            out.extend(f[1:])
        else:
            out.append(f)
    if not out:
        return F
    if len(out) == 1:
        return out[0]
    return ("or", *out)


class Atomizer:
    """Turns test expressions into formulas over canonical atoms.

    rename: dict local-name -> role-name applied before keys are computed (so that two functions using
    different variable names can be compared).
    int_terms: predicate(expr_src) -> bool saying an expression is integer-valued; integer comparisons
    are normalised into ('lin', term_key, k) meaning term <= k.
    subst: dict name -> ast.expr, single-assignment temporaries to inline."""

    def __init__(self, rename=None, subst=None, is_int=None, truthy_int=None, rewrite=None):
        self.rewrite = rewrite or []   # [(old text, new text)] applied to atom keys (for attribute roles)
        self.rename = rename or {}
        self.subst = subst or {}
        self.is_int = is_int or (lambda e: False)
        self.truthy_int = truthy_int or (lambda e: False)

    # -- expression canonical text ------------------------------------------------
    def inline(self, e):
        subst = self.subst
        rename = self.rename
        pre = getattr(self, "pre", None)
        if pre is not None:
            e = pre(e)

        class Tr(ast.NodeTransformer):
            def visit_Name(self, n):
                if isinstance(n.ctx, ast.Load) and n.id in subst:
                    return Tr().visit(_copy(subst[n.id]))
                if n.id in rename:
                    return ast.copy_location(ast.Name(id=rename[n.id], ctx=n.ctx), n)
                return n
        return Tr().visit(_copy(e))

    def key(self, e) -> str:
        k = ast.unparse(self.inline(e))
        for a, b in self.rewrite:
            k = k.replace(a, b)
        return k

    def lin(self, e):
        e = self.inline(e)

        def sym(x):
            k = ast.unparse(x)
            for a, b in self.rewrite:
                k = k.replace(a, b)
            return Lin.sym(k)
        return lin_of_ast(e, sym)

    # -- formulas ---------------------------------------------------------------------
    def formula(self, e):
        if isinstance(e, ast.BoolOp):
            parts = [self.formula(v) for v in e.values]
            return f_and(*parts) if isinstance(e.op, ast.And) else f_or(*parts)
        if isinstance(e, ast.UnaryOp) and isinstance(e.op, ast.Not):
            return f_not(self.formula(e.operand))
        if isinstance(e, ast.Constant):
            return T if e.value else F
        if isinstance(e, ast.Name) and e.id in self.subst:
            return self.formula(self.subst[e.id])
        if isinstance(e, ast.Call) and isinstance(e.func, ast.Name) and e.func.id == "bool" and len(e.args) == 1:
            return self.formula(e.args[0])
        if isinstance(e, ast.Compare):
            parts = []
            left = e.left
            for op, right in zip(e.ops, e.comparators):
                parts.append(self.compare(left, op, right))
                left = right
            return f_and(*parts)
        if isinstance(e, ast.IfExp):
            c = self.formula(e.test)
            return f_or(f_and(c, self.formula(e.body)), f_and(f_not(c), self.formula(e.orelse)))
        if self.truthy_int(e):
            # truthiness of an int-valued expression: x != 0
            return f_not(self.int_eq(self.lin(e), Lin(0)))
        return ("atom", "truthy:" + self.key(e))

    def int_le(self, a: Lin, b: Lin):
        """a <= b over integers as a canonical atom."""
        d = a - b   # d <= 0
        return self._lin_atom(d)

    def _lin_atom(self, d: Lin):
        """d <= 0 -> canonical: term <= k or not(term <= k')."""
        if d.is_const():
            return T if d.c <= 0 else F
        # canonical orientation: first symbol (sorted) has positive coefficient
        first = sorted(d.t)[0]
        if d.t[first] > 0:
            term = Lin(0, d.t)
            k = -d.c           # term <= k
            return ("lin", repr(term), int(k) if k.denominator == 1 else float(k))
        term = Lin(0, {a: -b for a, b in d.t.items()})
        # -term + c <= 0  <=>  term >= c  <=> not(term <= c-1)
        k = d.c - 1
        return f_not(("lin", repr(term), int(k) if k.denominator == 1 else float(k)))

    def int_eq(self, a: Lin, b: Lin):
        return f_and(self.int_le(a, b), self.int_le(b, a))

    def compare(self, left, op, right):
        both_int = self.is_int(self.inline(left)) or self.is_int(self.inline(right)) or (
            _is_int_const(left) or _is_int_const(right))
        la = self.lin(left) if both_int else None
        lb = self.lin(right) if both_int else None
        if la is not None and lb is not None and isinstance(op, (ast.Lt, ast.LtE, ast.Gt, ast.GtE, ast.Eq, ast.NotEq)):
            if isinstance(op, ast.LtE):
                return self.int_le(la, lb)
            if isinstance(op, ast.Lt):
                return self.int_le(la + 1, lb)
            if isinstance(op, ast.GtE):
                return self.int_le(lb, la)
            if isinstance(op, ast.Gt):
                return self.int_le(lb + 1, la)
            if isinstance(op, ast.Eq):
                return self.int_eq(la, lb)
            if isinstance(op, ast.NotEq):
                return f_not(self.int_eq(la, lb))
        a, b = self.key(left), self.key(right)
        if isinstance(op, ast.Eq):
            x, y = sorted((a, b))
            return ("atom", f"{x} == {y}")
        if isinstance(op, ast.NotEq):
            x, y = sorted((a, b))
            return f_not(("atom", f"{x} == {y}"))
        if isinstance(op, ast.LtE):
            return ("atom", f"{a} <= {b}")
        if isinstance(op, ast.GtE):
            return ("atom", f"{b} <= {a}")
        if isinstance(op, ast.Lt):
            return f_not(("atom", f"{b} <= {a}"))
        if isinstance(op, ast.Gt):
            return f_not(("atom", f"{a} <= {b}"))
        if isinstance(op, (ast.In, ast.NotIn)):
            # membership in a short literal tuple / list / set is the disjunction of the equalities
            cont = self.inline(right)
            if isinstance(cont, (ast.Tuple, ast.List, ast.Set)) and 1 <= len(cont.elts) <= 6 and not any(isinstance(x, ast.Starred) for x in cont.elts):
                f = f_or(*[self.compare(left, ast.Eq(), x) for x in cont.elts])
                return f if isinstance(op, ast.In) else f_not(f)
        if isinstance(op, ast.In):
            return ("atom", f"{a} in {b}")
        if isinstance(op, ast.NotIn):
            return f_not(("atom", f"{a} in {b}"))
        if isinstance(op, ast.Is):
            return ("atom", f"{a} is {b}")
        if isinstance(op, ast.IsNot):
            return f_not(("atom", f"{a} is {b}"))
        return ("atom", f"?{a} {type(op).__name__} {b}")


def _is_int_const(e):
    if isinstance(e, ast.UnaryOp) and isinstance(e.op, ast.USub):
        e = e.operand
    return isinstance(e, ast.Constant) and isinstance(e.value, int) and not isinstance(e.value, bool)


def _copy(e):
    """Structural copy of an AST that does not follow the _parent back-pointers."""
    if isinstance(e, ast.AST):
        new = type(e)()
        for f in e._fields:
            if hasattr(e, f):
                setattr(new, f, _copy(getattr(e, f)))
        for a in ("lineno", "col_offset", "end_lineno", "end_col_offset"):
            if hasattr(e, a):
                setattr(new, a, getattr(e, a))
        return new
    if isinstance(e, list):
        return [_copy(x) for x in e]
    return e


# ------------------------------------------------------------------ evaluation
def atoms_of(f, acc=None):
    acc = acc if acc is not None else set()
    if f[0] in ("atom", "lin"):
        acc.add(f)
    elif f[0] in ("not", "and", "or"):
        for x in f[1:]:
            atoms_of(x, acc)
    return acc


def evaluate(f, env):
    k = f[0]
    if k == "T":
        return True
    if k == "F":
        return False
    if k == "atom":
        return env[f]
    if k == "lin":
        return env["term:" + f[1]] <= f[2]
    if k == "not":
        return not evaluate(f[1], env)
    if k == "and":
        return all(evaluate(x, env) for x in f[1:])
    if k == "or":
        return any(evaluate(x, env) for x in f[1:])
    raise ValueError(f)


def models(*fs, max_models=200000):
    """All theory-consistent assignments to the atoms of the given formulas: boolean atoms x
    representative integer values for each linear term (every constant it is compared with, +-1)."""
    atoms = set()
    for f in fs:
        atoms_of(f, atoms)
    bools = sorted(a for a in atoms if a[0] == "atom")
    terms = {}
    for a in atoms:
        if a[0] == "lin":
            terms.setdefault(a[1], set()).add(a[2])
    term_vals = {}
    for t, ks in terms.items():
        vals = set()
        for k in ks:
            vals |= {k - 1, k, k + 1}
        term_vals[t] = sorted(vals)
    names = sorted(term_vals)
    n = (2 ** len(bools)) * max(1, _prod(len(term_vals[t]) for t in names))
    if n > max_models:
        raise OverflowError(f"too many models: {n}")
    for bv in itertools.product((False, True), repeat=len(bools)):
        env = dict(zip(bools, bv))
        for tv in itertools.product(*[term_vals[t] for t in names]):
            e = dict(env)
            for t, v in zip(names, tv):
                e["term:" + t] = v
            yield e


def _prod(xs):
    r = 1
    for x in xs:
        r *= x
    return r


def equivalent(f, g, assuming=T):
    """f <=> g under `assuming`; returns (bool, counter-model or None)."""
    for env in models(f, g, assuming):
        if evaluate(assuming, env) and evaluate(f, env) != evaluate(g, env):
            return False, env
    return True, None


def implies(f, g, assuming=T):
    for env in models(f, g, assuming):
        if evaluate(assuming, env) and evaluate(f, env) and not evaluate(g, env):
            return False, env
    return True, None


def satisfiable(f):
    for env in models(f):
        if evaluate(f, env):
            return True
    return False


def show(f) -> str:
    k = f[0]
    if k == "T":
        return "true"
    if k == "F":
        return "false"
    if k == "atom":
        return f[1]
    if k == "lin":
        return f"{f[1]} <= {f[2]}"
    if k == "not":
        return f"not ({show(f[1])})"
    return "(" + (" and " if k == "and" else " or ").join(show(x) for x in f[1:]) + ")"


def show_model(env):
    return ", ".join(f"{(k[1] if isinstance(k, tuple) else k)}={v}" for k, v in sorted(env.items(), key=str))


# ------------------------------------------------------------------ reaching conditions
def contains(root, target) -> bool:
    if root is target:
        return True
    for n in ast.walk(root):
        if n is target:
            return True
    return False


def falls_through(stmts, az: Atomizer):
    """Formula under which the statement list completes normally (no return/raise/continue/break)."""
    cur = T
    for s in stmts:
        cur = f_and(cur, _ft(s, az))
        if cur == F:
            break
    return cur


def _ft(s, az):
    if isinstance(s, (ast.Return, ast.Raise, ast.Continue, ast.Break)):
        return F
    if isinstance(s, ast.If):
        c = az.formula(s.test)
        return f_or(f_and(c, falls_through(s.body, az)), f_and(f_not(c), falls_through(s.orelse, az)))
    if isinstance(s, ast.With):
        return falls_through(s.body, az)
    return T


def reach(stmts, target, az: Atomizer, pre=T):
    """Formula (over the tests evaluated on the way) under which control reaches `target` from the
    entry of `stmts`, within one execution of the block (one loop iteration). None if not inside."""
    cur = pre
    for s in stmts:
        if s is target:
            return cur
        if contains(s, target):
            if isinstance(s, ast.If):
                if contains(s.test, target):
                    return cur
                c = az.formula(s.test)
                if any(contains(b, target) for b in s.body):
                    return reach(s.body, target, az, f_and(cur, c))
                return reach(s.orelse, target, az, f_and(cur, f_not(c)))
            if isinstance(s, (ast.For, ast.AsyncFor)):
                if contains(s.iter, target) or contains(s.target, target):
                    return cur
                if any(contains(b, target) for b in s.body):
                    return reach(s.body, target, az, cur)
                return reach(s.orelse, target, az, cur)
            if isinstance(s, ast.While):
                if contains(s.test, target):
                    return cur
                if any(contains(b, target) for b in s.body):
                    return reach(s.body, target, az, f_and(cur, az.formula(s.test)))
                return reach(s.orelse, target, az, cur)
            if isinstance(s, ast.With):
                if any(contains(b, target) for b in s.body):
                    return reach(s.body, target, az, cur)
                return cur
            if isinstance(s, ast.Try):
                for blk in (s.body, s.orelse, s.finalbody):
                    if any(contains(b, target) for b in blk):
                        return reach(blk, target, az, cur)
                for h in s.handlers:
                    if any(contains(b, target) for b in h.body):
                        return reach(h.body, target, az, cur)
                return cur
            return cur
        cur = f_and(cur, _ft(s, az))
    return None
