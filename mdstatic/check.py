#!/usr/bin/env python3
"""Driver: python3 /verif/mdstatic/check.py <Cxx> [--tier quick|thorough]

Exit 0: every obligation discharged (or only listed known findings remain).
Exit 1: `VIOLATION property=<id> replay=<path>` for each unlisted undischarged obligation.
Exit 2: `ANALYSIS-ERROR ...` the analysis itself could not run (never a silent pass).
"""
from __future__ import annotations

import importlib
import os
import sys
import traceback

sys.path.insert(0, os.path.dirname(os.path.dirname(os.path.abspath(__file__))))

from mdstatic import core  # noqa: E402
from mdstatic.model import AnalysisError, Program  # noqa: E402
from mdstatic.rx import RxError  # noqa: E402


def run_property(prop: str, tier: str, prog=None, write=True):
    """Run the rules of one property. Returns (run, rules module)."""
    prog = prog or Program()
    mod = importlib.import_module(f"mdstatic.rules.{prop}")
    run = core.Run(prop, tier, prog)
    core.run_rules(mod, run)
    if getattr(prog, "normalise_log", None):
        run.note("inlined_helpers", prog.normalise_log)
    return run, mod


def main(argv):
    if len(argv) < 2:
        print(__doc__)
        return 2
    prop = argv[1]
    tier = os.environ.get("VERIF_TIER", "quick")
    if "--tier" in argv:
        tier = argv[argv.index("--tier") + 1]
    if tier not in ("quick", "thorough"):
        tier = "quick"
    try:
        run, mod = run_property(prop, tier)
        st_fail = []
        if tier == "thorough":
            from selftest import runner
            st = runner.run_for_property(prop)
            run.extra["selftest"] = st["summary"]
            st_fail = st["failures"]
        status = core.finish(run, mod.EXPLANATION, getattr(mod, "TRUSTED", []))
        if status == 0 and st_fail:
            # a self-test failure means the checker is broken, not the repository
            for f in st_fail:
                print(f"ANALYSIS-ERROR property={prop} checker self-test failed: {f}")
            return 2
        return status
    except (AnalysisError, RxError) as e:
        print(f"ANALYSIS-ERROR property={prop} {e}")
        return 2
    except Exception:   # noqa: BLE001
        print(f"ANALYSIS-ERROR property={prop} internal error")
        traceback.print_exc()
        return 2


if __name__ == "__main__":
    sys.exit(main(sys.argv))
