"""Provenance helpers over hit records (sites.Hit): which match and group a value came from, whether the span is the
span of that match, which conversions were applied."""
from __future__ import annotations

import re

from .absint import BytesV, ConstV, IntV, StrV
from .lin import Lin


def span_of(h, interp):
    """('match', mid, k) when (start, end) == (m.start(k), m.end(k)) on this path, else a description"""
    ls, le = interp.as_lin(h.fields["start"]), interp.as_lin(h.fields["end"])
    if ls is None or le is None:
        return ("non-int", repr(h.fields["start"]), repr(h.fields["end"]))
    if len(ls.t) == 1 and ls.c == 0 and len(le.t) == 1 and le.c == 0:
        (a, ca), = ls.t.items()
        (b, cb), = le.t.items()
        ma = re.fullmatch(r"(m\d+)\.start\((\d+)\)", a)
        mb = re.fullmatch(r"(m\d+)\.end\((\d+)\)", b)
        if ma and mb and ca == 1 and cb == 1 and ma.group(1) == mb.group(1) and ma.group(2) == mb.group(2):
            return ("match", ma.group(1), int(ma.group(2)))
    return ("expr", str(ls), str(le))


def value_term(h):
    v = h.fields["value"]
    if isinstance(v, BytesV):
        return v.term
    if isinstance(v, ConstV):
        return ("const", v.value)
    return ("unknown", repr(v))


def const_field(h, name):
    v = h.fields[name]
    if isinstance(v, ConstV):
        return v.value
    return None


def find_groups(term, acc=None):
    """all ('group', mid, k) sub-terms"""
    acc = acc if acc is not None else []
    if isinstance(term, tuple):
        if term and term[0] == "group" and len(term) == 3:
            acc.append(term)
        else:
            for x in term:
                find_groups(x, acc)
    return acc


def strip_ops(term, allowed):
    """peel outer operations whose tag is in `allowed` (first operand is the data); returns (inner term, [ops])"""
    ops = []
    while isinstance(term, tuple) and term and term[0] in allowed:
        ops.append(term)
        if term[0] == "re.sub":
            term = term[3]
        else:
            term = term[1]
    return term, ops


def canon_mid(text):
    return re.sub(r"\bm\d+\b", "m", re.sub(r"#\d+", "#", text))
