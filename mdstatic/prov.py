"""Provenance helpers over hit records (sites.Hit): which match and group a value came from, whether the span is the
span of that match, which conversions were applied."""
from __future__ import annotations

import re

from .absint import BytesV, ConstV, IntV, StrV
from .lin import Lin


def span_of(h, interp):
    """('match', mid, k) when (start, end) == (m.start(k), m.end(k)) on this path, else a description"""
    ls, le = interp.as_lin(h.fields["start"]), interp.as_lin(h.fields["end"])
    if ls is None or le is None:
        return ("non-int", repr(h.fields["start"]), repr(h.fields["end"]))
    if len(ls.t) == 1 and ls.c == 0 and len(le.t) == 1 and le.c == 0:
        (a, ca), = ls.t.items()
        (b, cb), = le.t.items()
        ma = re.fullmatch(r"(m\d+)\.start\((\d+)\)", a)
        mb = re.fullmatch(r"(m\d+)\.end\((\d+)\)", b)
        if ma and mb and ca == 1 and cb == 1 and ma.group(1) == mb.group(1) and ma.group(2) == mb.group(2):
            return ("match", ma.group(1), int(ma.group(2)))
    return ("expr", str(ls), str(le))


def value_term(h):
    v = h.fields["value"]
    if isinstance(v, BytesV):
        return v.term
    if isinstance(v, ConstV):
        return ("const", v.value)
    return ("unknown", repr(v))


def const_field(h, name):
    v = h.fields[name]
    if isinstance(v, ConstV):
        return v.value
    return None


def find_groups(term, acc=None):
    """all ('group', mid, k) sub-terms"""
    acc = acc if acc is not None else []
    if isinstance(term, tuple):
        if term and term[0] == "group" and len(term) == 3:
            acc.append(term)
        else:
            for x in term:
                find_groups(x, acc)
    return acc


def strip_ops(term, allowed):
    """peel outer operations whose tag is in `allowed` (first operand is the data); returns (inner term, [ops])"""
    ops = []
    while isinstance(term, tuple) and term and term[0] in allowed:
        ops.append(term)
        if term[0] == "re.sub":
            term = term[3]
        else:
            term = term[1]
    return term, ops


def canon_mid(text):
    return re.sub(r"\bm\d+\b", "m", re.sub(r"#\d+", "#", text))


def extent_of_term(term, interp):
    """(lo, hi) linear forms of the slice of the scanned data that a text term denotes: a match group, or a constant-free
    prefix / suffix slice of one.  None when the term is not a contiguous piece of the data."""
    if not isinstance(term, tuple) or not term:
        return None
    if term[0] == "group" and len(term) == 3:
        return Lin.sym(f"{term[1]}.start({term[2]})"), Lin.sym(f"{term[1]}.end({term[2]})")
    if term[0] == "slice" and len(term) == 4:
        inner = extent_of_term(term[1], interp)
        if inner is None:
            return None
        lo, hi = inner

        def lin(x):
            if x is None or isinstance(x, Lin):
                return x
            if isinstance(x, int):
                return Lin.const(x)
            return interp.as_lin(x)
        a, b = lin(term[2]), lin(term[3])
        if (term[2] is not None and a is None) or (term[3] is not None and b is None):
            return None
        return (lo if a is None else lo + a), (hi if b is None else lo + b)
    return None
