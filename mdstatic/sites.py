"""Hit records: run the abstract interpreter (E4) on every decoder entry point and collect, per return path, the
Node objects it returns with their abstract fields, the facts of the path that produced them and their children."""
from __future__ import annotations

import ast
from dataclasses import dataclass, field

from .absint import AV, BytesV, ConstV, IntV, Interp, Ref, State, UnknownV
from .lin import Lin
from .model import AnalysisError, FuncInfo, Program, need, own_nodes

SUMMARY_THRESHOLD = 24     # a helper with more return partitions than this is used through its (checked) span contract


@dataclass
class Hit:
    entry: FuncInfo
    site: ast.Call
    site_func: str
    site_ord: int
    fields: dict
    state: State
    children: list = field(default_factory=list)
    parent: "Hit | None" = None
    contract_of: str | None = None
    trace: tuple = ()

    def key(self):
        return f"{self.site_func}#Node{self.site_ord}"


class Analysis:
    def __init__(self, prog: Program):
        self.prog = prog
        self.site_index = {}     # id(ast.Call) -> (func fq, ordinal)
        for fi in prog.all_funcs():
            k = 0
            nodes = own_nodes(fi.node) if not isinstance(fi.node, ast.Lambda) else ast.walk(fi.node)
            for n in nodes:
                if isinstance(n, ast.Call) and prog.is_node_ctor(fi.module, fi, n):
                    k += 1
                    self.site_index[id(n)] = (fi.fq, k)
        self.n_sites = len(self.site_index)
        self.summaries: dict[FuncInfo, str] = {}
        self.opaque_bytes: set = set()
        self.results = {}        # FuncInfo -> (hits, interp, n_states)
        self._load_or_choose_summaries()

    def _digest(self):
        import hashlib
        import os
        h = hashlib.sha256()
        for m in sorted(self.prog.modules.values(), key=lambda m: m.name):
            h.update(m.name.encode())
            h.update(m.src.encode())
        here = os.path.dirname(os.path.abspath(__file__))
        for f in ("absint.py", "sites.py", "lin.py", "rx.py", "model.py"):
            with open(os.path.join(here, f), "rb") as fh:
                h.update(fh.read())
        return h.hexdigest()

    def _load_or_choose_summaries(self):
        """the choice of which helpers are summarised is a deterministic function of the sources: cached by digest"""
        import json
        import os
        cdir = os.path.join(os.path.dirname(os.path.dirname(os.path.abspath(__file__))), ".cache")
        path = os.path.join(cdir, "summaries.json")
        dg = self._digest()
        try:
            with open(path) as f:
                c = json.load(f)
            if c.get("digest") == dg:
                self.summaries = {self.prog.fn(k): v for k, v in c["summaries"].items()}
                self.opaque_bytes = {self.prog.fn(k) for k in c["opaque"]}
                return
        except Exception:   # noqa: BLE001
            pass
        self._choose_summaries()
        try:
            os.makedirs(cdir, exist_ok=True)
            tmp = path + f".{os.getpid()}"
            with open(tmp, "w") as f:
                json.dump({"digest": dg, "summaries": {k.fq: v for k, v in self.summaries.items()}, "opaque": sorted(k.fq for k in self.opaque_bytes)}, f)
            os.replace(tmp, path)
        except OSError:
            pass

    def bytes_param(self, fi: FuncInfo):
        a = fi.node.args
        for x in a.posonlyargs + a.args:
            ann = x.annotation
            if ann is not None and ast.unparse(ann) in ("bytes", "'bytes'"):
                return x.arg
        return fi.params[0] if fi.params else None

    def returns_nodes(self, fi: FuncInfo):
        if isinstance(fi.node, ast.Lambda) or fi.node.returns is None:
            return False
        r = ast.unparse(fi.node.returns).replace("'", "")
        return r in ("list[Node]", "List[Node]", "Node")

    def _choose_summaries(self):
        """helpers (not entry decoders) returning node lists whose own analysis has many return partitions"""
        prog = self.prog
        decs = set(prog.decorated_decoders())
        cands = [fi for fi in prog.all_funcs() if self.returns_nodes(fi) and fi not in decs and fi.module.short.startswith("decoders.")
                 and ast.unparse(fi.node.returns).replace("'", "") != "Node"]
        # analyse callees before callers: iterate until stable
        for _ in range(3):
            changed = False
            for fi in cands:
                if fi in self.summaries:
                    continue
                try:
                    hits, interp, n = self.run(fi, use_cache=False, budget=6000)
                except AnalysisError:
                    n = SUMMARY_THRESHOLD + 1
                if n > SUMMARY_THRESHOLD:
                    self.summaries[fi] = self.bytes_param(fi)
                    changed = True
            if not changed:
                break
        # helpers annotated `-> bytes` with many return partitions: their result is used as an unconstrained byte string
        for fi in prog.all_funcs():
            if isinstance(fi.node, ast.Lambda) or fi.node.returns is None or not fi.module.short.startswith("decoders."):
                continue
            if ast.unparse(fi.node.returns).replace("'", "") == "bytes" and fi not in decs:
                try:
                    _h, _i, n = self.run(fi, use_cache=False, budget=3000)
                    cost = _i.steps
                except AnalysisError:
                    cost = 10 ** 6
                if cost > 50:
                    self.opaque_bytes.add(fi)
        self.results.clear()

    def run(self, fi: FuncInfo, use_cache=True, budget=None):
        if use_cache and fi in self.results:
            return self.results[fi]
        interp = Interp(self.prog)
        interp.summaries = {k: v for k, v in self.summaries.items() if k is not fi}
        interp.opaque_bytes = {k for k in self.opaque_bytes if k is not fi}
        if budget:
            interp.budget = budget
        st = State()
        args = []
        a = fi.node.args
        for x in a.posonlyargs + a.args:
            ann = ast.unparse(x.annotation).replace("'", "") if x.annotation is not None else ""
            if ann == "bytes" or (not ann and x.arg in ("data", "pe_data", "cmd", "powershell")):
                L = Lin.sym(f"len({x.arg})")
                st.add(L)
                args.append(BytesV(("param", x.arg), L))
            elif ann == "int":
                args.append(IntV(Lin.sym(f"arg:{x.arg}")))
            elif ann == "str":
                args.append(UnknownV("str param"))
            elif ann in ("Iterable[bytes]", "list[bytes]"):
                el_len = Lin.sym(f"len({x.arg}[i])")
                st.add(el_len)
                lst = interp.alloc(st, "list", items=[], elem=BytesV(("param-elem", x.arg), el_len), summary=True)
                args.append(lst)
            elif ann == "Node":
                vlen = Lin.sym(f"len({x.arg}.value)")
                st.add(vlen)
                ch = interp.alloc(st, "list", items=[], summary=True)
                nd = interp.alloc(st, "node", fields=dict(type=UnknownV("t"), value=BytesV(("param-node-value", x.arg), vlen), obfuscation=UnknownV("o"),
                                                          start=IntV(Lin.sym(f"{x.arg}.start")), end=IntV(Lin.sym(f"{x.arg}.end")),
                                                          parent=ConstV(None), children=ch), site=None, param=x.arg)
                args.append(nd)
            else:
                args.append(UnknownV("param " + x.arg))
        outs = interp.run_function(fi, args, st)
        hits = []
        for s in outs:
            if s.dead != "return":
                continue
            self._collect(fi, s.retval, s, interp, hits, None, set())
        res = (hits, interp, len(outs))
        if use_cache:
            self.results[fi] = res
        return res

    def _collect(self, entry, v, s: State, interp, out, parent, seen):
        if isinstance(v, Ref) and v.oid in s.heap:
            o = s.heap[v.oid]
            if o["kind"] == "list":
                ist = o.get("item_states") or {}
                for idx, it in enumerate(o["items"]):
                    if isinstance(it, Ref):
                        bs = ist.get(idx) or interp.birth.get(it.oid, s)
                        if it.oid not in bs.heap:
                            bs = s
                        self._collect(entry, it, bs, interp, out, parent, seen)
                if o.get("elem") is not None and isinstance(o["elem"], Ref):
                    self._collect(entry, o["elem"], s, interp, out, parent, seen)
            elif o["kind"] == "node":
                if (v.oid, id(s)) in seen:
                    return
                seen.add((v.oid, id(s)))
                site = o.get("site")
                if site is None:
                    return    # a parameter node handed back (e.g. apply_xor_key returns its argument)
                sf, so = self.site_index.get(id(site), ("<contract>" if o.get("contract_of") else "?", 0))
                h = Hit(entry, site, sf if not o.get("contract_of") else o["contract_of"] + "<contract>", so, dict(o["fields"]), s, parent=parent,
                        contract_of=o.get("contract_of"), trace=tuple(s.trace))
                (parent.children if parent is not None else out).append(h)
                ch = o["fields"].get("children")
                if isinstance(ch, Ref) and ch.oid in s.heap:
                    cist = s.heap[ch.oid].get("item_states") or {}
                    for cidx, c in enumerate(s.heap[ch.oid]["items"]):
                        if isinstance(c, Ref):
                            cs = cist.get(cidx) or (s if c.oid in s.heap else interp.birth.get(c.oid, s))
                            self._collect(entry, c, cs, interp, h.children, h, seen)
                    if s.heap[ch.oid].get("elem") is not None and isinstance(s.heap[ch.oid]["elem"], Ref):
                        self._collect(entry, s.heap[ch.oid]["elem"], s, interp, h.children, h, seen)


_cache = {}


def analysis(prog) -> Analysis:
    if id(prog) not in _cache:
        _cache[id(prog)] = Analysis(prog)
    return _cache[id(prog)]
