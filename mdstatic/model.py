"""E1 - program model of /repo/src/multidecoder: modules, imports, constants, functions,
callee resolution, call graph, normalised Node(...) construction sites.

Nothing from the repository is imported or executed: every fact is read from the AST.
"""
from __future__ import annotations

import ast
import os
import struct
from dataclasses import dataclass, field

REPO = os.environ.get("MDSTATIC_REPO", "/repo")
SRC_ROOT = os.path.join(REPO, "src")
PKG = "multidecoder"


class AnalysisError(Exception):
    """The analysis cannot run (vanished anchor, unsupported construct). Exit status 2."""


class NotConst(Exception):
    pass


def need(cond, msg):
    if not cond:
        raise AnalysisError(msg)
    return cond


# Names under which the third-party `regex` module / stdlib re are known; both are
# treated as the same family of matching functions.
RE_MODULES = {"regex", "re"}


@dataclass
class FuncInfo:
    module: "Module"
    qualname: str            # e.g. "find_atob", "Multidecoder.scan_node", "find_powershell_bytes.decode_byte"
    node: ast.AST            # FunctionDef | Lambda
    parent: "FuncInfo | None" = None   # enclosing function
    cls: str | None = None             # enclosing class name
    decorators: list = field(default_factory=list)

    @property
    def fq(self) -> str:
        return f"{self.module.short}.{self.qualname}"

    @property
    def params(self) -> list[str]:
        a = self.node.args
        return [x.arg for x in a.posonlyargs + a.args] + ([a.vararg.arg] if a.vararg else []) + [
            x.arg for x in a.kwonlyargs
        ] + ([a.kwarg.arg] if a.kwarg else [])

    @property
    def body(self) -> list[ast.stmt]:
        if isinstance(self.node, ast.Lambda):
            return [ast.Return(value=self.node.body, lineno=self.node.lineno, col_offset=0)]
        return self.node.body

    @property
    def lineno(self) -> int:
        return self.node.lineno

    def __hash__(self):
        return hash((self.module.name, self.qualname, self.node.lineno))

    def __eq__(self, o):
        return self is o

    def __repr__(self):
        return f"<fn {self.fq}>"


class Module:
    def __init__(self, name: str, path: str, src: str):
        self.name = name                      # multidecoder.decoders.base64
        self.short = name[len(PKG) + 1:] if name.startswith(PKG + ".") else name
        self.path = path
        self.rel = os.path.relpath(path, REPO)
        self.src = src
        self.tree = ast.parse(src, path)
        self.imports: dict[str, tuple[str, str | None]] = {}   # local -> (module, symbol|None)
        self.assigns: dict[str, ast.expr] = {}                  # module-level single assignments
        self.assign_nodes: dict[str, ast.stmt] = {}
        self.multi_assigned: set[str] = set()
        self.funcs: dict[str, FuncInfo] = {}
        self.classes: dict[str, ast.ClassDef] = {}
        self.lambdas: list[FuncInfo] = []
        for n in ast.walk(self.tree):
            for c in ast.iter_child_nodes(n):
                c._parent = n   # type: ignore[attr-defined]
        self._index()

    def _index(self):
        def add_imports(body):
            for st in body:
                if isinstance(st, ast.Import):
                    for a in st.names:
                        if a.asname:
                            self.imports[a.asname] = (a.name, None)
                        else:
                            top = a.name.split(".")[0]
                            self.imports[top] = (top, None)
                elif isinstance(st, ast.ImportFrom):
                    mod = st.module or ""
                    if st.level:
                        base = self.name.split(".")[: -st.level]
                        mod = ".".join(base + ([mod] if mod else []))
                    for a in st.names:
                        self.imports[a.asname or a.name] = (mod, a.name)
                elif isinstance(st, ast.If):   # if TYPE_CHECKING:
                    add_imports(st.body)
                    add_imports(st.orelse)
                elif isinstance(st, ast.Try):
                    add_imports(st.body)
        add_imports(self.tree.body)
        for st in self.tree.body:
            if isinstance(st, ast.Assign) and len(st.targets) == 1 and isinstance(st.targets[0], ast.Name):
                n = st.targets[0].id
                if n in self.assigns:
                    self.multi_assigned.add(n)
                self.assigns[n] = st.value
                self.assign_nodes[n] = st
            elif isinstance(st, ast.AnnAssign) and isinstance(st.target, ast.Name) and st.value is not None:
                n = st.target.id
                if n in self.assigns:
                    self.multi_assigned.add(n)
                self.assigns[n] = st.value
                self.assign_nodes[n] = st

        def walk_funcs(body, prefix, parent, cls):
            for st in body:
                if isinstance(st, (ast.FunctionDef, ast.AsyncFunctionDef)):
                    q = prefix + st.name
                    fi = FuncInfo(self, q, st, parent, cls, list(st.decorator_list))
                    self.funcs[q] = fi
                    walk_funcs(st.body, q + ".", fi, None)
                elif isinstance(st, ast.ClassDef):
                    self.classes[prefix + st.name] = st
                    walk_funcs(st.body, prefix + st.name + ".", parent, st.name)
                elif isinstance(st, (ast.If, ast.For, ast.While, ast.With, ast.Try)):
                    for fld in ("body", "orelse", "finalbody"):
                        walk_funcs(getattr(st, fld, []) or [], prefix, parent, cls)
                    for h in getattr(st, "handlers", []) or []:
                        walk_funcs(h.body, prefix, parent, cls)
        walk_funcs(self.tree.body, "", None, None)
        # lambdas: owned by the innermost enclosing function (or module)
        for n in ast.walk(self.tree):
            if isinstance(n, ast.Lambda):
                owner = self.enclosing_function(n)
                q = (owner.qualname + "." if owner else "") + f"<lambda@{self._lambda_ordinal(owner, n)}>"
                fi = FuncInfo(self, q, n, owner, None, [])
                self.funcs[q] = fi
                self.lambdas.append(fi)

    def reindex(self):
        """rebuild the tables after the tree was rewritten in place (normalise.py)"""
        self.imports, self.assigns, self.assign_nodes, self.multi_assigned = {}, {}, {}, set()
        self.funcs, self.classes, self.lambdas = {}, {}, []
        ast.fix_missing_locations(self.tree)
        for n in ast.walk(self.tree):
            for c in ast.iter_child_nodes(n):
                c._parent = n   # type: ignore[attr-defined]
        self._index()

    def _lambda_ordinal(self, owner, lam):
        root = owner.node if owner else self.tree
        k = 0
        for n in ast.walk(root):
            if isinstance(n, ast.Lambda):
                if n is lam:
                    return k
                k += 1
        return k

    def enclosing_function(self, node) -> FuncInfo | None:
        p = getattr(node, "_parent", None)
        while p is not None:
            if isinstance(p, (ast.FunctionDef, ast.AsyncFunctionDef, ast.Lambda)):
                for fi in self.funcs.values():
                    if fi.node is p:
                        return fi
            p = getattr(p, "_parent", None)
        return None

    def func_of_node(self, node) -> FuncInfo | None:
        for fi in self.funcs.values():
            if fi.node is node:
                return fi
        return None


@dataclass
class Callee:
    kind: str                 # 'repo' | 'ext' | 'method' | 'param' | 'local' | 'class' | 'unknown'
    func: FuncInfo | None = None
    ext: str | None = None    # dotted external name, e.g. 'binascii.a2b_base64', 'regex.finditer'
    attr: str | None = None   # method name for 'method'
    recv: ast.expr | None = None
    cls: str | None = None    # repo class for 'class' (constructor)

    def __repr__(self):
        return f"Callee({self.kind}, {self.func.fq if self.func else self.ext or self.attr or self.cls})"


BUILTINS = {
    "len", "int", "bytes", "chr", "ord", "str", "bool", "set", "list", "tuple", "dict", "sorted", "max", "min",
    "enumerate", "zip", "range", "all", "any", "isinstance", "hasattr", "getattr", "next", "iter", "print", "open",
    "repr", "round", "sum", "frozenset", "reversed", "abs", "map", "filter", "float", "id", "hash", "type", "vars",
    "bytearray", "memoryview", "divmod", "pow", "format", "callable", "super", "setattr", "input", "globals", "locals",
}


class Program:
    def __init__(self, src_root: str = SRC_ROOT, overrides: dict[str, str] | None = None):
        """overrides: {relative path under repo -> replacement source text} (used by the self-test only)."""
        self.modules: dict[str, Module] = {}
        self.files: list[str] = []
        self.keyword_files: list[str] = []
        overrides = overrides or {}
        pkg_root = os.path.join(src_root, PKG)
        need(os.path.isdir(pkg_root), f"anchor: package directory {pkg_root} not found")
        for d, dirs, files in os.walk(pkg_root):
            dirs.sort()
            for f in sorted(files):
                p = os.path.join(d, f)
                if f.endswith(".py"):
                    rel = os.path.relpath(p, src_root)
                    name = rel[:-3].replace(os.sep, ".")
                    if name.endswith(".__init__"):
                        name = name[: -len(".__init__")]
                    relrepo = os.path.relpath(p, REPO)
                    if relrepo in overrides:
                        src = overrides[relrepo]
                    else:
                        with open(p, encoding="utf-8") as fh:
                            src = fh.read()
                    try:
                        self.modules[name] = Module(name, p, src)
                    except SyntaxError as e:
                        raise AnalysisError(f"syntax error in {p}: {e}")
                    self.files.append(relrepo)
                elif os.path.relpath(d, pkg_root).split(os.sep)[0] == "keywords":
                    self.keyword_files.append(os.path.relpath(p, pkg_root))
        self._const_cache: dict[tuple[str, str], object] = {}
        self._in_progress: set[tuple[str, str]] = set()
        self.normalise_log: list[str] = []
        if not os.environ.get("MDSTATIC_NO_NORMALISE"):
            from .normalise import normalise_program
            self.normalise_log = normalise_program(self)
            self._const_cache.clear()

    # ---------------------------------------------------------------- lookup
    def mod(self, short: str) -> Module:
        name = short if short.startswith(PKG) else f"{PKG}.{short}"
        need(name in self.modules, f"anchor: module {name} not found")
        return self.modules[name]

    def fn(self, fq: str) -> FuncInfo:
        """fq: '<module short>.<qualname>' e.g. 'decoders.shell.strip_carets', 'multidecoder.Multidecoder.scan_node'."""
        parts = fq.split(".")
        for i in range(len(parts) - 1, 0, -1):
            m = f"{PKG}." + ".".join(parts[:i])
            if m in self.modules:
                q = ".".join(parts[i:])
                need(q in self.modules[m].funcs, f"anchor: function {q} not found in {m}")
                return self.modules[m].funcs[q]
        raise AnalysisError(f"anchor: cannot locate {fq}")

    def has_fn(self, fq: str) -> bool:
        try:
            self.fn(fq)
            return True
        except AnalysisError:
            return False

    def all_funcs(self):
        for m in self.modules.values():
            yield from m.funcs.values()

    # ------------------------------------------------------ constant folding
    def const(self, module: Module, name: str):
        key = (module.name, name)
        if key in self._const_cache:
            v = self._const_cache[key]
            if isinstance(v, NotConst):
                raise v
            return v
        if key in self._in_progress:
            raise NotConst(f"cyclic constant {name}")
        self._in_progress.add(key)
        try:
            try:
                if name in module.assigns and name not in module.multi_assigned:
                    v = self.fold(module, module.assigns[name])
                elif name in module.imports:
                    mod, sym = module.imports[name]
                    if sym is not None and mod in self.modules:
                        v = self.const(self.modules[mod], sym)
                    else:
                        raise NotConst(f"{name}: external import")
                else:
                    raise NotConst(f"{name}: not a module-level constant")
            except NotConst as e:
                self._const_cache[key] = e
                raise
            self._const_cache[key] = v
            return v
        finally:
            self._in_progress.discard(key)

    def fold(self, module: Module, e: ast.expr, env: dict | None = None):
        """Evaluate a constant expression (bytes/str/int/tuple/dict/set of those)."""
        env = env or {}
        if isinstance(e, ast.Constant):
            return e.value
        if isinstance(e, ast.Name):
            if e.id in env:
                return env[e.id]
            return self.const(module, e.id)
        if isinstance(e, ast.BinOp):
            a, b = self.fold(module, e.left, env), self.fold(module, e.right, env)
            try:
                if isinstance(e.op, ast.Add):
                    return a + b
                if isinstance(e.op, ast.Sub):
                    return a - b
                if isinstance(e.op, ast.Mult):
                    return a * b
                if isinstance(e.op, ast.FloorDiv):
                    return a // b
                if isinstance(e.op, ast.Div):
                    return a / b
                if isinstance(e.op, ast.Mod) and isinstance(a, (int, bytes, str)):
                    return a % b
                if isinstance(e.op, ast.Pow):
                    return a ** b
            except Exception as x:   # noqa: BLE001
                raise NotConst(str(x))
            raise NotConst("binop")
        if isinstance(e, ast.UnaryOp) and isinstance(e.op, ast.USub):
            return -self.fold(module, e.operand, env)
        if isinstance(e, ast.Subscript):
            base = self.fold(module, e.value, env)
            sl = e.slice
            try:
                if isinstance(sl, ast.Slice):
                    lo = self.fold(module, sl.lower, env) if sl.lower else None
                    hi = self.fold(module, sl.upper, env) if sl.upper else None
                    st = self.fold(module, sl.step, env) if sl.step else None
                    return base[lo:hi:st]
                return base[self.fold(module, sl, env)]
            except NotConst:
                raise
            except Exception as x:   # noqa: BLE001
                raise NotConst(str(x))
        if isinstance(e, ast.Tuple):
            return tuple(self.fold(module, x, env) for x in e.elts)
        if isinstance(e, ast.List):
            return [self.fold(module, x, env) for x in e.elts]
        if isinstance(e, ast.Set):
            return frozenset(self.fold(module, x, env) for x in e.elts)
        if isinstance(e, ast.Dict):
            return {self.fold(module, k, env): self.fold(module, v, env) for k, v in zip(e.keys, e.values)}
        if isinstance(e, ast.Call):
            c = self.dotted(module, e.func)
            args = [self.fold(module, a, env) for a in e.args]
            if c == "struct.calcsize" and len(args) == 1:
                return struct.calcsize(args[0])
            if c == "ord" and len(args) == 1 and isinstance(args[0], (str, bytes)) and len(args[0]) == 1:
                return ord(args[0])
            if c == "len" and len(args) == 1:
                return len(args[0])
            if c in ("frozenset", "set") and len(args) == 1:
                return frozenset(args[0])
            if isinstance(e.func, ast.Attribute) and e.func.attr in ("encode", "upper", "lower") and not args:
                recv = self.fold(module, e.func.value, env)
                if isinstance(recv, (str, bytes)):
                    return getattr(recv, e.func.attr)()
            raise NotConst("call " + (c or ast.unparse(e.func)))
        if isinstance(e, ast.Attribute):
            d = self.dotted(module, e)
            if d == "string.printable":
                import string
                return string.printable
            # module attribute constant: mod.NAME
            if isinstance(e.value, ast.Name) and e.value.id in module.imports:
                mod, sym = module.imports[e.value.id]
                full = mod if sym is None else f"{mod}.{sym}"
                if full in self.modules:
                    return self.const(self.modules[full], e.attr)
            raise NotConst("attribute " + ast.unparse(e))
        raise NotConst(type(e).__name__)

    def try_fold(self, module, e, env=None):
        try:
            return self.fold(module, e, env)
        except NotConst:
            return None

    # ------------------------------------------------------------- resolution
    def dotted(self, module: Module, e: ast.expr) -> str | None:
        """Resolve a Name/Attribute chain to a dotted external/global name, following the import table."""
        parts = []
        while isinstance(e, ast.Attribute):
            parts.append(e.attr)
            e = e.value
        if not isinstance(e, ast.Name):
            return None
        head = e.id
        if head in module.imports:
            mod, sym = module.imports[head]
            base = mod if sym is None else f"{mod}.{sym}"
        else:
            base = head
        if base.split(".")[0] == "re":
            base = "regex" + base[2:]
        return ".".join([base] + parts[::-1])

    def resolve_func_name(self, module: Module, name: str, ctx: FuncInfo | None) -> Callee:
        # nested function of an enclosing function?
        f = ctx
        while f is not None:
            q = f.qualname + "." + name
            if q in module.funcs:
                return Callee("repo", func=module.funcs[q])
            f = f.parent
        if name in module.funcs:
            return Callee("repo", func=module.funcs[name])
        if name in module.classes:
            return Callee("class", cls=f"{module.name}.{name}")
        if name in module.imports:
            mod, sym = module.imports[name]
            if sym is not None and mod in self.modules:
                m2 = self.modules[mod]
                if sym in m2.funcs:
                    return Callee("repo", func=m2.funcs[sym])
                if sym in m2.classes:
                    return Callee("class", cls=f"{m2.name}.{sym}")
                if sym in m2.imports or sym in m2.assigns:
                    return self.resolve_func_name(m2, sym, None) if sym in m2.imports else Callee("unknown")
            full = mod if sym is None else f"{mod}.{sym}"
            if full.split(".")[0] == "re":
                full = "regex" + full[2:]
            return Callee("ext", ext=full)
        if name in BUILTINS:
            return Callee("ext", ext=name)
        return Callee("unknown")

    def callee(self, module: Module, ctx: FuncInfo | None, call: ast.Call, local_defs: dict | None = None) -> Callee:
        f = call.func
        if isinstance(f, ast.Name):
            # parameter or local variable being called?
            c = ctx
            while c is not None:
                if f.id in c.params:
                    return Callee("param", attr=f.id)
                c = c.parent
            if local_defs and f.id in local_defs:
                return Callee("local", attr=f.id)
            r = self.resolve_func_name(module, f.id, ctx)
            if r.kind == "unknown" and ctx is not None and _assigned_in(ctx.node, f.id):
                return Callee("local", attr=f.id)
            return r
        if isinstance(f, ast.Attribute):
            # self.method
            if isinstance(f.value, ast.Name) and f.value.id == "self" and ctx is not None:
                c = ctx
                while c is not None and c.cls is None:
                    c = c.parent
                if c is not None and c.cls:
                    q = f"{c.cls}.{f.attr}"
                    if q in module.funcs:
                        return Callee("repo", func=module.funcs[q])
            d = self.dotted(module, f)
            if d is not None:
                head = d.split(".")[0]
                root = f
                while isinstance(root, ast.Attribute):
                    root = root.value
                if isinstance(root, ast.Name) and root.id in module.imports and not _is_local(ctx, root.id):
                    # module.attr -> maybe a repo function / class
                    mod, sym = module.imports[root.id]
                    full = mod if sym is None else f"{mod}.{sym}"
                    chain = d[len(full.replace("re", "regex", 1) if full.split(".")[0] == "re" else full):].lstrip(".")
                    if full in self.modules and chain:
                        m2 = self.modules[full]
                        if chain in m2.funcs:
                            return Callee("repo", func=m2.funcs[chain])
                        if chain in m2.classes:
                            return Callee("class", cls=f"{m2.name}.{chain}")
                    # Class.method of an imported repo class, e.g. json.JSONEncoder.default is ext
                    return Callee("ext", ext=d)
                _ = head
            return Callee("method", attr=f.attr, recv=f.value)
        if isinstance(f, ast.Lambda):
            fi = module.func_of_node(f)
            return Callee("repo", func=fi)
        return Callee("unknown")

    # --------------------------------------------------------------- registry
    def decorated_decoders(self) -> list[FuncInfo]:
        out = []
        for m in self.modules.values():
            for fi in m.funcs.values():
                for d in fi.decorators:
                    r = self.resolve_func_name(m, d.id, None) if isinstance(d, ast.Name) else None
                    if r and r.kind == "repo" and r.func.fq == "registry.decoder":
                        out.append(fi)
        return out

    # ----------------------------------------------------------- Node(...) sites
    def node_class_params(self) -> list[str]:
        m = self.mod("node")
        need("Node.__init__" in m.funcs, "anchor: Node.__init__ not found")
        return m.funcs["Node.__init__"].params[1:]

    def node_defaults(self) -> dict[str, ast.expr]:
        fi = self.mod("node").funcs["Node.__init__"]
        a = fi.node.args
        names = [x.arg for x in a.args]
        out = {}
        for n, d in zip(names[len(names) - len(a.defaults):], a.defaults):
            out[n] = d
        return out

    def is_node_ctor(self, module: Module, ctx, call: ast.Call) -> bool:
        c = self.callee(module, ctx, call)
        return c.kind == "class" and c.cls == f"{PKG}.node.Node"


def _assigned_in(fn_node, name):
    for n in ast.walk(fn_node):
        if isinstance(n, ast.Name) and n.id == name and isinstance(n.ctx, ast.Store):
            return True
    return False


def _is_local(ctx: FuncInfo | None, name: str) -> bool:
    c = ctx
    while c is not None:
        if name in c.params or _assigned_in(c.node, name):
            return True
        c = c.parent
    return False


@dataclass
class NodeSite:
    module: Module
    func: FuncInfo | None
    call: ast.Call
    args: dict[str, object]    # param -> ast.expr | ('star', expr, index) | ('default', expr)

    @property
    def where(self):
        return f"{self.module.rel}:{self.call.lineno}"


def bind_node_call(prog: Program, module: Module, ctx, call: ast.Call, star_arity) -> NodeSite:
    """Bind the arguments of a Node(...) call to Node.__init__'s parameters.

    star_arity(expr) -> int gives the number of values a starred argument contributes.
    A starred argument element is represented as ('star', expr, index)."""
    params = prog.node_class_params()
    bound: dict[str, object] = {}
    i = 0
    for a in call.args:
        if isinstance(a, ast.Starred):
            n = star_arity(a.value)
            if n is None and isinstance(a.value, ast.Name) and ctx is not None and not isinstance(ctx.node, ast.Lambda):
                # *pair where `pair = f(...)` is a single-assignment temporary: judge the defining expression
                defs = [x.value for x in own_nodes(ctx.node) if isinstance(x, ast.Assign) and len(x.targets) == 1 and
                        isinstance(x.targets[0], ast.Name) and x.targets[0].id == a.value.id]
                if len(defs) == 1:
                    n = star_arity(defs[0])
            need(n is not None, f"{module.rel}:{call.lineno}: arity of starred argument {ast.unparse(a.value)} unknown")
            for k in range(n):
                need(i < len(params), f"{module.rel}:{call.lineno}: too many positional arguments to Node")
                bound[params[i]] = ("star", a.value, k)
                i += 1
        else:
            need(i < len(params), f"{module.rel}:{call.lineno}: too many positional arguments to Node")
            bound[params[i]] = a
            i += 1
    for kw in call.keywords:
        need(kw.arg is not None, f"{module.rel}:{call.lineno}: **kwargs in Node call")
        need(kw.arg in params, f"{module.rel}:{call.lineno}: unknown Node parameter {kw.arg}")
        bound[kw.arg] = kw.value
    for p, d in prog.node_defaults().items():
        if p not in bound:
            bound[p] = ("default", d)
    return NodeSite(module, ctx, call, bound)


def iter_calls(root):
    for n in ast.walk(root):
        if isinstance(n, ast.Call):
            yield n


def own_nodes(fn_node):
    """Pre-order (source order) walk of a function's AST without descending into nested
    function/lambda/class definitions (the nested definition node itself is yielded)."""
    def rec(n):
        for c in ast.iter_child_nodes(n):
            yield c
            if isinstance(c, (ast.FunctionDef, ast.AsyncFunctionDef, ast.Lambda, ast.ClassDef)):
                continue
            yield from rec(c)
    yield from rec(fn_node)


def call_graph(prog: Program, registry_targets=None):
    """Edges between repo functions. registry_targets: functions reachable through
    `for search in self.decoders: search(...)` (resolved by the registry model)."""
    edges: dict[FuncInfo, set[FuncInfo]] = {}
    for fi in prog.all_funcs():
        out = set()
        for n in own_nodes(fi.node) if not isinstance(fi.node, ast.Lambda) else ast.walk(fi.node.body):
            if isinstance(n, ast.Call):
                c = prog.callee(fi.module, fi, n)
                if c.kind == "repo" and c.func is not None:
                    out.add(c.func)
                # functions passed as arguments (lambdas, callbacks)
                for a in list(n.args) + [k.value for k in n.keywords]:
                    if isinstance(a, ast.Lambda):
                        lf = fi.module.func_of_node(a)
                        if lf:
                            out.add(lf)
                    elif isinstance(a, ast.Name):
                        r = prog.resolve_func_name(fi.module, a.id, fi)
                        if r.kind == "repo" and not _is_param(fi, a.id):
                            out.add(r.func)
                        elif not _is_param(fi, a.id):
                            # a class of this module handed to a library (json.dumps(..., cls=NodeEncoder)): the library may call
                            # any of its methods
                            for q, mf in fi.module.funcs.items():
                                if q.startswith(a.id + ".") and q.count(".") == 1:
                                    out.add(mf)
            elif isinstance(n, (ast.FunctionDef, ast.Lambda)):
                # nested definitions are reachable from their owner (conservative)
                nf = fi.module.func_of_node(n)
                if nf:
                    out.add(nf)
        edges[fi] = out
    if registry_targets:
        sn = prog.fn("multidecoder.Multidecoder.scan_node")
        edges[sn] |= set(registry_targets)
    return edges


def _is_param(fi, name):
    c = fi
    while c is not None:
        if name in c.params:
            return True
        c = c.parent
    return False


def reachable(edges, roots):
    seen = set()
    st = list(roots)
    while st:
        f = st.pop()
        if f in seen:
            continue
        seen.add(f)
        st.extend(edges.get(f, ()))
    return seen
