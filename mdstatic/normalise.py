"""E13 - helper inlining and control-flow normalisation (applied once, when the program model is built).

A maintainer who extracts `_sorted_hits()`, `_is_self_match()` or a named sort key from a function does not change what
the function does, but moves the constructs the rules look at into another body.  Before any analysis the model therefore
rewrites, in place and with the call site's line numbers:

  T1  a call of a PRIVATE repo helper (name starts with "_", same module, not decorated, not recursive) whose body is one
      `return <expr>` is replaced by that expression with the parameters substituted;
  T2  `x = _helper(...)`, `for v in _helper(...)`, `return _helper(...)` or a bare `_helper(...)` statement whose helper is
      straight-line code ending in its only `return` is replaced by the helper's statements (locals renamed apart);
  T3  `key=_helper` (a function reference used as a sort key) becomes the equivalent lambda;
  T4  `while True: if not C: break; ...` becomes `while C: ...`;
  T5  `a = b` where neither `a` nor `b` is assigned anywhere else in the function (b a parameter or such a local) is
      propagated and dropped (`root = node ... return root`).

Only underscore-prefixed helpers are touched: the public functions of the package are anchors of the rules (and keep their
own obligations), an extracted private helper is an implementation detail of its caller.  The helpers stay defined; what was
inlined is reported in the evidence (`inlined_helpers`)."""
from __future__ import annotations

import ast
import copy

SIMPLE = (ast.Name, ast.Constant)


def _clone(n):
    """deep copy of a syntax tree WITHOUT the model's `_parent` back-links (deepcopy would follow them up to the module)"""
    if isinstance(n, ast.AST):
        new = n.__class__()
        for f in n._fields:
            if hasattr(n, f):
                setattr(new, f, _clone(getattr(n, f)))
        for a in ("lineno", "col_offset", "end_lineno", "end_col_offset"):
            if hasattr(n, a):
                setattr(new, a, getattr(n, a))
        return new
    if isinstance(n, list):
        return [_clone(x) for x in n]
    return n


def _is_simple(e):
    if isinstance(e, SIMPLE):
        return True
    if isinstance(e, ast.Attribute):
        return _is_simple(e.value)
    if isinstance(e, ast.UnaryOp) and isinstance(e.op, ast.USub):
        return _is_simple(e.operand)
    if isinstance(e, ast.BinOp) and isinstance(e.op, (ast.Add, ast.Sub)):
        return _is_simple(e.left) and _is_simple(e.right)      # re-evaluating integer arithmetic over names is harmless
    if isinstance(e, ast.Call) and isinstance(e.func, ast.Attribute) and e.func.attr in ("group", "start", "end", "span", "lower", "upper") and not e.keywords and \
            _is_simple(e.func.value) and all(isinstance(a, ast.Constant) for a in e.args):
        return True                                            # pure accessors of match objects / bytes
    if isinstance(e, ast.Call) and isinstance(e.func, ast.Name) and e.func.id in ("chr", "ord", "len") and len(e.args) == 1 and not e.keywords and _is_simple(e.args[0]):
        return True
    return False


def _body(fn):
    b = list(fn.body)
    if b and isinstance(b[0], ast.Expr) and isinstance(b[0].value, ast.Constant) and isinstance(b[0].value.value, str):
        b = b[1:]
    return b


def _relocate(node, at):
    for n in ast.walk(node):
        if hasattr(n, "lineno") or isinstance(n, (ast.expr, ast.stmt)):
            n.lineno = getattr(at, "lineno", 1)
            n.end_lineno = getattr(at, "end_lineno", n.lineno)
            n.col_offset = getattr(at, "col_offset", 0)
            n.end_col_offset = getattr(at, "end_col_offset", 0)
    return node


class _Subst(ast.NodeTransformer):
    def __init__(self, env, rename=None):
        self.env, self.rename = env, rename or {}

    def visit_Name(self, n):
        if n.id in self.env and isinstance(n.ctx, ast.Load):
            return _clone(self.env[n.id])
        if n.id in self.rename:
            return ast.copy_location(ast.Name(id=self.rename[n.id], ctx=n.ctx), n)
        return n

    def visit_arg(self, n):
        return n

    def visit_Lambda(self, n):
        shadow = {a.arg for a in n.args.posonlyargs + n.args.args + n.args.kwonlyargs}
        inner = _Subst({k: v for k, v in self.env.items() if k not in shadow}, {k: v for k, v in self.rename.items() if k not in shadow})
        n.body = inner.visit(n.body)
        return n


def _assigned_names(fn):
    out = set()
    for n in ast.walk(fn):
        if isinstance(n, ast.Name) and isinstance(n.ctx, (ast.Store, ast.Del)):
            out.add(n.id)
        elif isinstance(n, ast.ExceptHandler) and n.name:
            out.add(n.name)
    # comprehension targets are scoped to the comprehension
    comp = set()
    for n in ast.walk(fn):
        if isinstance(n, ast.comprehension):
            for t in ast.walk(n.target):
                if isinstance(t, ast.Name):
                    comp.add(t.id)
    return out, comp


def _params(fn):
    a = fn.args
    if a.vararg or a.kwarg or a.kwonlyargs:
        return None
    return [x.arg for x in a.posonlyargs + a.args]


def _bind(fn, call, is_method):
    """param -> argument expression, or None"""
    names = _params(fn)
    if names is None:
        return None
    env = {}
    if is_method:
        if not names:
            return None
        env[names[0]] = call.func.value
        names = names[1:]
    if any(isinstance(a, ast.Starred) for a in call.args) or any(k.arg is None for k in call.keywords) or len(call.args) > len(names):
        return None
    for n_, a in zip(names, call.args):
        env[n_] = a
    for k in call.keywords:
        if k.arg not in names or k.arg in env:
            return None
        env[k.arg] = k.value
    defaults = fn.args.defaults
    all_names = [x.arg for x in fn.args.posonlyargs + fn.args.args]
    for i, n_ in enumerate(all_names):
        if n_ not in env:
            j = i - (len(all_names) - len(defaults))
            if j < 0:
                return None
            env[n_] = defaults[j]
    return env


def _uses(e, name):
    return sum(1 for n in ast.walk(e) if isinstance(n, ast.Name) and n.id == name and isinstance(n.ctx, ast.Load))


class Normaliser:
    def __init__(self, prog):
        self.prog = prog
        self.log = []
        self.k = 0

    # ------------------------------------------------------------------ helper classification
    def helper_of(self, module, ctx, call):
        """(FuncInfo, is_method) of a private, same-module, undecorated, non-recursive helper called here; else None"""
        f = call.func
        try:
            c = self.prog.callee(module, ctx, call)
        except Exception:   # noqa: BLE001
            return None
        g = c.func if c.kind == "repo" else None
        if g is None or isinstance(g.node, ast.Lambda) or g.module is not module or g is ctx or g.decorators:
            return None
        if not g.node.name.startswith("_") or g.node.name.startswith("__"):
            return None
        if isinstance(g.node, ast.AsyncFunctionDef):
            return None
        for n in ast.walk(g.node):
            if isinstance(n, (ast.Yield, ast.YieldFrom, ast.Global, ast.Nonlocal, ast.Await)):
                return None
            if isinstance(n, ast.Call) and isinstance(n.func, ast.Name) and n.func.id == g.node.name:
                return None
            if isinstance(n, ast.Call) and isinstance(n.func, ast.Attribute) and n.func.attr == g.node.name and isinstance(n.func.value, ast.Name) and n.func.value.id == "self":
                return None
            if isinstance(n, (ast.FunctionDef, ast.ClassDef)) and n is not g.node:
                return None
        is_method = isinstance(f, ast.Attribute) and g.cls is not None
        if is_method and not (isinstance(f.value, ast.Name) and f.value.id == "self"):
            return None
        if g.parent is not None:      # a closure reads its owner's locals: only its owner may inline it
            if g.parent is not ctx:
                return None
        return g, is_method

    def expr_helper(self, g):
        """the helper as one expression: `return e`, or guard clauses `if c: return e` ... `return e_n` (a conditional expression)"""
        b = _body(g.node)
        if not b or not isinstance(b[-1], ast.Return) or b[-1].value is None:
            return None
        # leading single-assignment temporaries are folded into what follows (each used as a value only)
        env, k = {}, 0
        params = set(_params(g.node) or [])
        while k < len(b) - 1 and isinstance(b[k], ast.Assign) and len(b[k].targets) == 1 and isinstance(b[k].targets[0], ast.Name) and \
                b[k].targets[0].id not in params and b[k].targets[0].id not in env:
            env[b[k].targets[0].id] = _Subst(dict(env)).visit(_clone(b[k].value))
            k += 1
        if env:
            stored = [n.id for st in b[k:] for n in ast.walk(st) if isinstance(n, ast.Name) and isinstance(n.ctx, ast.Store)]
            if any(x in env for x in stored):
                return None
            b = [_Subst(dict(env)).visit(_clone(st)) for st in b[k:]]
        e = b[-1].value
        for st in reversed(b[:-1]):
            if isinstance(st, ast.If) and not st.orelse and len(st.body) == 1 and isinstance(st.body[0], ast.Return) and st.body[0].value is not None:
                e = ast.IfExp(test=st.test, body=st.body[0].value, orelse=e)
            else:
                return None
        return e

    def try_helper(self, g):
        """`try: return E` / `except X: return D` (D a literal): (E, handlers as (type, D)) or None"""
        b = _body(g.node)
        if len(b) != 1 or not isinstance(b[0], ast.Try) or b[0].orelse or b[0].finalbody:
            return None
        t = b[0]
        if len(t.body) != 1 or not isinstance(t.body[0], ast.Return) or t.body[0].value is None:
            return None
        hs = []
        for h in t.handlers:
            if h.name or len(h.body) != 1 or not isinstance(h.body[0], ast.Return) or not isinstance(h.body[0].value, ast.Constant):
                return None
            hs.append((h.type, h.body[0].value))
        return t.body[0].value, hs

    def stmt_helper(self, g, procedure=False):
        """straight-line helper ending in its only `return <value>`; with procedure=True also a helper without any return"""
        b = _body(g.node)
        if procedure and b and not any(isinstance(n, ast.Return) for st in b for n in ast.walk(st)):
            return b + [ast.Return(value=ast.Constant(value=None))]
        if len(b) < 2 or not isinstance(b[-1], ast.Return) or b[-1].value is None:
            return None
        if any(isinstance(n, ast.Return) for st in b[:-1] for n in ast.walk(st)):
            return None
        return b

    # ------------------------------------------------------------------ T1 / T3 on expressions
    def inline_expr_calls(self, module, fi):
        changed = False
        outer = self

        class T(ast.NodeTransformer):
            def visit_FunctionDef(self, n):
                if n is fi.node:
                    self.generic_visit(n)
                return n

            def visit_ClassDef(self, n):
                return n

            def visit_Call(self, n):
                nonlocal changed
                self.generic_visit(n)
                # T3: key=_helper
                for kw in n.keywords:
                    if kw.arg == "key" and isinstance(kw.value, ast.Name):
                        r = outer.prog.resolve_func_name(module, kw.value.id, fi)
                        g = r.func if r and r.kind == "repo" else None
                        if g is not None and not isinstance(g.node, ast.Lambda) and g.module is module and g.node.name.startswith("_") and not g.decorators:
                            e = outer.expr_helper(g)
                            ps = _params(g.node)
                            if e is not None and ps is not None and len(ps) == 1 and not g.node.args.defaults:
                                lam = ast.Lambda(args=ast.arguments(posonlyargs=[], args=[ast.arg(arg=ps[0])], kwonlyargs=[], kw_defaults=[], defaults=[]),
                                                 body=_clone(e))
                                kw.value = _relocate(lam, n)
                                outer.log.append(f"{fi.fq}: key={g.node.name} -> lambda")
                                changed = True
                # map(_helper, xs) -> (<helper body> for v in xs)
                if isinstance(n.func, ast.Name) and n.func.id == "map" and len(n.args) == 2 and not n.keywords and isinstance(n.args[0], ast.Name):
                    r = outer.prog.resolve_func_name(module, n.args[0].id, fi)
                    g = r.func if r and r.kind == "repo" else None
                    if g is not None and not isinstance(g.node, ast.Lambda) and g.module is module and g.node.name.startswith("_") and not g.decorators:
                        e = outer.expr_helper(g)
                        ps = _params(g.node)
                        if e is not None and ps is not None and len(ps) == 1 and not g.node.args.defaults:
                            outer.k += 1
                            v = f"item__{outer.k}"
                            elt = _Subst({ps[0]: ast.Name(id=v, ctx=ast.Load())}).visit(_clone(e))
                            gen = ast.GeneratorExp(elt=elt, generators=[ast.comprehension(target=ast.Name(id=v, ctx=ast.Store()), iter=n.args[1], ifs=[], is_async=0)])
                            outer.log.append(f"{fi.fq}: map({g.node.name}, ...) -> generator expression")
                            changed = True
                            return _relocate(gen, n)
                h = outer.helper_of(module, fi, n)
                if h is None:
                    return n
                g, is_method = h
                e = outer.expr_helper(g)
                if e is None:
                    return n
                env = _bind(g.node, n, is_method)
                if env is None:
                    return n
                for p, a in env.items():
                    if not _is_simple(a) and _uses(e, p) > 1:
                        return n
                new = _Subst(env).visit(_clone(e))
                outer.log.append(f"{fi.fq}: {g.qualname}(...) -> expression")
                changed = True
                return _relocate(new, n)
        T().visit(fi.node)
        return changed

    # ------------------------------------------------------------------ T2 on statements
    def inline_stmt_calls(self, module, fi):
        changed = False

        def expand(call, make_tail, at, procedure=False):
            h = self.helper_of(module, fi, call)
            if h is None:
                return None
            g, is_method = h
            th = self.try_helper(g)
            if th is not None and not procedure:
                env_t = _bind(g.node, call, is_method)
                probe = make_tail(ast.Constant(value=None))
                if env_t is not None and len(probe) == 1 and isinstance(probe[0], ast.Assign) and all(_is_simple(a) for a in env_t.values()):
                    e_, hs_ = th
                    tgt = probe[0].targets
                    new_try = ast.Try(body=[ast.Assign(targets=_clone(tgt), value=_Subst(env_t).visit(_clone(e_)))],
                                      handlers=[ast.ExceptHandler(type=_clone(ty), name=None, body=[ast.Assign(targets=_clone(tgt), value=_clone(d))]) for ty, d in hs_],
                                      orelse=[], finalbody=[])
                    _relocate(new_try, at)
                    ast.fix_missing_locations(new_try)
                    self.log.append(f"{fi.fq}: {g.qualname}(...) -> try/except with the sentinel assigned in the handler")
                    return [new_try]
            b = self.stmt_helper(g, procedure)
            if b is None:
                return None
            env = _bind(g.node, call, is_method)
            if env is None:
                return None
            self.k += 1
            sfx = f"__{g.node.name.strip('_')}{self.k}"
            assigned, comp = _assigned_names(g.node)
            rename = {x: x + sfx for x in assigned if x not in comp}
            pre, sub = [], {}
            for p, a in env.items():
                if _is_simple(a) and p not in assigned:
                    sub[p] = a
                else:
                    rename[p] = p + sfx
                    pre.append(ast.Assign(targets=[ast.Name(id=p + sfx, ctx=ast.Store())], value=_clone(a)))
            st = _Subst(sub, rename)
            out = pre + [st.visit(_clone(s)) for s in b[:-1]]
            out += make_tail(st.visit(_clone(b[-1].value)))
            for s in out:
                _relocate(s, at)
                ast.fix_missing_locations(s)
            self.log.append(f"{fi.fq}: {g.qualname}(...) -> {len(out)} statements")
            return out

        def rewrite(stmts):
            nonlocal changed
            out = []
            for s in stmts:
                for fld in ("body", "orelse", "finalbody"):
                    if hasattr(s, fld) and not isinstance(s, (ast.FunctionDef, ast.AsyncFunctionDef, ast.ClassDef, ast.Lambda, ast.IfExp)):
                        setattr(s, fld, rewrite(getattr(s, fld)))
                if isinstance(s, ast.Try):
                    for h_ in s.handlers:
                        h_.body = rewrite(h_.body)
                new = None
                if isinstance(s, ast.Assign) and isinstance(s.value, ast.Call):
                    new = expand(s.value, lambda e, s=s: [ast.Assign(targets=s.targets, value=e)], s)
                elif isinstance(s, ast.AnnAssign) and isinstance(s.value, ast.Call):
                    new = expand(s.value, lambda e, s=s: [ast.AnnAssign(target=s.target, annotation=s.annotation, value=e, simple=s.simple)], s)
                elif isinstance(s, ast.Return) and isinstance(s.value, ast.Call):
                    new = expand(s.value, lambda e: [ast.Return(value=e)], s)
                elif isinstance(s, ast.Expr) and isinstance(s.value, ast.Call):
                    new = expand(s.value, lambda e: [] if isinstance(e, ast.Constant) else [ast.Expr(value=e)], s, procedure=True)
                elif isinstance(s, ast.For) and isinstance(s.iter, ast.Call):
                    self.k += 1
                    tmp = f"items__{self.k}"
                    pre = expand(s.iter, lambda e, tmp=tmp: [ast.Assign(targets=[ast.Name(id=tmp, ctx=ast.Store())], value=e)], s)
                    if pre is not None:
                        s.iter = _relocate(ast.Name(id=tmp, ctx=ast.Load()), s)
                        new = pre + [s]
                if new is not None:
                    changed = True
                    out.extend(new)
                else:
                    out.append(s)
            return out
        fi.node.body = rewrite(fi.node.body)
        return changed

    # ------------------------------------------------------------------ T4
    def while_true(self, fi):
        changed = False
        for n in ast.walk(fi.node):
            if isinstance(n, ast.While) and isinstance(n.test, ast.Constant) and n.test.value is True and not n.orelse and n.body:
                first = n.body[0]
                if isinstance(first, ast.If) and not first.orelse and len(first.body) == 1 and isinstance(first.body[0], ast.Break) and len(n.body) > 1:
                    # no other break may rely on the else-less shape; `continue` re-evaluates the test in both spellings
                    t = first.test
                    n.test = t.operand if isinstance(t, ast.UnaryOp) and isinstance(t.op, ast.Not) else ast.copy_location(ast.UnaryOp(op=ast.Not(), operand=t), t)
                    n.body = n.body[1:]
                    self.log.append(f"{fi.fq}: while True/if-break -> while <condition>")
                    changed = True
        return changed

    # ------------------------------------------------------------------ T5
    def aliases(self, fi):
        changed = False
        fn = fi.node
        params = {a.arg for a in fn.args.posonlyargs + fn.args.args + fn.args.kwonlyargs}
        counts = {}
        for n in ast.walk(fn):
            if isinstance(n, ast.Name) and isinstance(n.ctx, (ast.Store, ast.Del)):
                counts[n.id] = counts.get(n.id, 0) + 1
            elif isinstance(n, (ast.FunctionDef, ast.Lambda, ast.ClassDef)) and n is not fn:
                # a nested scope that assigns the same name is a different variable; keep it simple: do not touch such names
                for m in ast.walk(n):
                    if isinstance(m, ast.Name) and isinstance(m.ctx, ast.Store):
                        counts[m.id] = counts.get(m.id, 0) + 2
        for i, s in enumerate(list(fn.body)):
            if isinstance(s, ast.Assign) and len(s.targets) == 1 and isinstance(s.targets[0], ast.Name) and isinstance(s.value, ast.Name):
                a, b = s.targets[0].id, s.value.id
                if a != b and counts.get(a, 0) == 1 and a not in params and ((b in params and counts.get(b, 0) == 0) or (b not in params and counts.get(b, 0) == 1)):
                    fn.body.remove(s)
                    _Subst({a: ast.Name(id=b, ctx=ast.Load())}).visit(fn)
                    self.log.append(f"{fi.fq}: alias {a} = {b} propagated")
                    changed = True
        return changed


    # ------------------------------------------------------------------ T9: `x = E; while <test over x>: ...; x = E` - x is E whenever the test runs
    def rematerialise(self, fi):
        changed = False
        for blk_owner in ast.walk(fi.node):
            for fld in ("body", "orelse"):
                blk = getattr(blk_owner, fld, None)
                if not isinstance(blk, list):
                    continue
                for i in range(len(blk) - 1):
                    a, w = blk[i], blk[i + 1]
                    if isinstance(a, ast.Assign) and len(a.targets) == 1 and isinstance(a.targets[0], ast.Name) and isinstance(w, ast.While) and not w.orelse and w.body:
                        x = a.targets[0].id
                        last = w.body[-1]
                        if isinstance(last, ast.Assign) and len(last.targets) == 1 and isinstance(last.targets[0], ast.Name) and last.targets[0].id == x and \
                                ast.dump(last.value) == ast.dump(a.value) and not any(isinstance(n, (ast.Continue, ast.Break)) for n in ast.walk(w)):
                            stores = [n for n in ast.walk(fi.node) if isinstance(n, ast.Name) and n.id == x and isinstance(n.ctx, ast.Store)]
                            loads = [n for n in ast.walk(fi.node) if isinstance(n, ast.Name) and n.id == x and isinstance(n.ctx, ast.Load)]
                            in_test = [n for n in ast.walk(w.test) if isinstance(n, ast.Name) and n.id == x]
                            if len(stores) == 2 and len(loads) == len(in_test) and loads and not any(isinstance(n, ast.Call) for n in ast.walk(a.value) if not (
                                    isinstance(n, ast.Call) and isinstance(n.func, ast.Name) and n.func.id == "len")):
                                w.test = _Subst({x: a.value}).visit(w.test)
                                w.body = w.body[:-1]
                                del blk[i]
                                self.log.append(f"{fi.fq}: cached loop bound {x} = {ast.unparse(a.value)} rematerialised in the loop test")
                                return True
        return changed

    # ------------------------------------------------------------------ T10: `r = P` before P (a parameter) is first re-assigned: r is P until then
    def early_alias(self, fi):
        fn = fi.node
        if isinstance(fn, ast.Lambda):
            return False
        params = [a.arg for a in fn.args.posonlyargs + fn.args.args]
        stores = {}
        for n in ast.walk(fn):
            if isinstance(n, ast.Name) and isinstance(n.ctx, (ast.Store, ast.Del)):
                stores[n.id] = stores.get(n.id, 0) + 1
        for i, s in enumerate(fn.body):
            if isinstance(s, ast.Assign) and len(s.targets) == 1 and isinstance(s.targets[0], ast.Name) and isinstance(s.value, ast.Name):
                r, p = s.targets[0].id, s.value.id
                if p in params and p != "self" and stores.get(p, 0) >= 1 and stores.get(r, 0) == 1 and r not in params:
                    did = False
                    for st in fn.body[i + 1:]:
                        if any(isinstance(n, ast.Name) and n.id == p and isinstance(n.ctx, ast.Store) for n in ast.walk(st)):
                            break
                        if any(isinstance(n, ast.Name) and n.id == r and isinstance(n.ctx, ast.Load) for n in ast.walk(st)):
                            _Subst({r: ast.Name(id=p, ctx=ast.Load())}).visit(st)
                            did = True
                    if did:
                        self.log.append(f"{fi.fq}: {r} = {p} read as {p} until {p} is first re-assigned")
                        return True
        return False

    # ------------------------------------------------------------------ T13: block-local reads `a = x.f` / `a, b = x.f, x.g` (a assigned once): a is x.f until x is touched
    def field_temps(self, fi):
        fn = fi.node
        if isinstance(fn, ast.Lambda):
            return False
        stores = {}
        for n in ast.walk(fn):
            if isinstance(n, ast.Name) and isinstance(n.ctx, (ast.Store, ast.Del)):
                stores[n.id] = stores.get(n.id, 0) + 1

        def is_read(e):
            return isinstance(e, ast.Attribute) and isinstance(e.value, ast.Name)

        def touches(st, x, attrs):
            for n in ast.walk(st):
                if isinstance(n, ast.Name) and n.id == x and isinstance(n.ctx, ast.Store):
                    return True
                if isinstance(n, ast.Attribute) and isinstance(n.ctx, ast.Store) and isinstance(n.value, ast.Name) and n.value.id == x:
                    return True
                if isinstance(n, ast.Call):
                    if isinstance(n.func, ast.Attribute) and isinstance(n.func.value, ast.Name) and n.func.value.id == x:
                        return True
                    if any(isinstance(a, ast.Name) and a.id == x for a in list(n.args) + [k.value for k in n.keywords]):
                        return True
            return False
        for owner in ast.walk(fn):
            for fld in ("body", "orelse"):
                blk = getattr(owner, fld, None)
                if not isinstance(blk, list) or owner is fn and False:
                    continue
                for i, s in enumerate(blk):
                    if not (isinstance(s, ast.Assign) and len(s.targets) == 1):
                        continue
                    t, v = s.targets[0], s.value
                    pairs = None
                    if isinstance(t, ast.Name) and is_read(v):
                        pairs = [(t.id, v)]
                    elif isinstance(t, ast.Tuple) and isinstance(v, ast.Tuple) and len(t.elts) == len(v.elts) and all(isinstance(a, ast.Name) for a in t.elts) and all(is_read(b) for b in v.elts):
                        pairs = [(a.id, b) for a, b in zip(t.elts, v.elts)]
                    if not pairs or any(stores.get(a, 0) != 1 for a, _b in pairs):
                        continue
                    xs = {b.value.id for _a, b in pairs}
                    if len(xs) != 1:
                        continue
                    x = next(iter(xs))
                    names = {a for a, _b in pairs}
                    # every use must be in this block, after the assignment, before x is touched
                    later, ok = [], True
                    for st in blk[i + 1:]:
                        uses = any(isinstance(n, ast.Name) and n.id in names and isinstance(n.ctx, ast.Load) for n in ast.walk(st))
                        if touches(st, x, None):
                            # uses inside or after a statement that touches x would read a stale value
                            if uses or any(isinstance(n, ast.Name) and n.id in names for st2 in blk[blk.index(st) + 1:] for n in ast.walk(st2)):
                                ok = False
                            break
                        if uses:
                            later.append(st)
                    total_uses = sum(1 for n in ast.walk(fn) if isinstance(n, ast.Name) and n.id in names and isinstance(n.ctx, ast.Load))
                    found = sum(1 for st in later for n in ast.walk(st) if isinstance(n, ast.Name) and n.id in names and isinstance(n.ctx, ast.Load))
                    if not ok or not later or total_uses != found:
                        continue
                    env = {a: b for a, b in pairs}
                    for st in later:
                        _Subst(env).visit(st)
                    del blk[i]
                    self.log.append(f"{fi.fq}: field reads {sorted(names)} of {x} propagated")
                    return True
        return False

    # ------------------------------------------------------------------ T14: private module constants (one literal assignment) are read as their value
    def private_constants(self, module, fi):
        fn = fi.node
        if isinstance(fn, ast.Lambda):
            return False
        consts = {}
        for name, val in module.assigns.items():
            if name.startswith("_") and name not in module.multi_assigned and isinstance(val, ast.Constant) and isinstance(val.value, (str, bytes, int)) and not isinstance(val.value, bool):
                consts[name] = val
        if not consts:
            return False
        local = {n.id for n in ast.walk(fn) if isinstance(n, ast.Name) and isinstance(n.ctx, ast.Store)} | {a.arg for a in fn.args.posonlyargs + fn.args.args + fn.args.kwonlyargs}
        env = {k: v for k, v in consts.items() if k not in local}
        used = {n.id for n in ast.walk(fn) if isinstance(n, ast.Name) and isinstance(n.ctx, ast.Load) and n.id in env}
        if not used:
            return False
        for st in fn.body:
            _Subst({k: env[k] for k in used}).visit(st)
        self.log.append(f"{fi.fq}: private constants {sorted(used)} read as their values")
        return True

    # ------------------------------------------------------------------ T15: `x = e.split(sep)` + `x.pop()` / `del x[-1]`  ->  `x = e.split(sep)[:-1]` (split never returns an empty list)
    def split_drop_last(self, fi):
        for owner in ast.walk(fi.node):
            for fld in ("body", "orelse"):
                blk = getattr(owner, fld, None)
                if not isinstance(blk, list):
                    continue
                for i in range(len(blk) - 1):
                    a, b = blk[i], blk[i + 1]
                    if isinstance(a, ast.Assign) and len(a.targets) == 1 and isinstance(a.targets[0], ast.Name) and isinstance(a.value, ast.Call) and \
                            isinstance(a.value.func, ast.Attribute) and a.value.func.attr == "split" and len(a.value.args) == 1 and not a.value.keywords:
                        x = a.targets[0].id
                        drop = (isinstance(b, ast.Expr) and isinstance(b.value, ast.Call) and isinstance(b.value.func, ast.Attribute) and b.value.func.attr == "pop" and
                                not b.value.args and isinstance(b.value.func.value, ast.Name) and b.value.func.value.id == x) or \
                               (isinstance(b, ast.Delete) and len(b.targets) == 1 and isinstance(b.targets[0], ast.Subscript) and isinstance(b.targets[0].value, ast.Name) and
                                b.targets[0].value.id == x and ast.unparse(b.targets[0].slice) == "-1")
                        if drop:
                            a.value = ast.copy_location(ast.Subscript(value=a.value, slice=ast.Slice(lower=None, upper=ast.UnaryOp(op=ast.USub(), operand=ast.Constant(value=1)), step=None),
                                                                      ctx=ast.Load()), a.value)
                            ast.fix_missing_locations(a)
                            del blk[i + 1]
                            self.log.append(f"{fi.fq}: split followed by dropping the last element -> split(...)[:-1]")
                            return True
        return False

    # ------------------------------------------------------------------ T16: `while True: x = E; if c(x): break|return r; BODY`  ->  `x = E; while not c(x): BODY; x = E`
    def rotate_loop(self, fi):
        def strip_continues(stmts):
            """`if c: continue` + rest -> `if not c: rest` (recursively); None when a continue/break remains elsewhere"""
            out = []
            for i, s in enumerate(stmts):
                if isinstance(s, ast.If) and not s.orelse and len(s.body) == 1 and isinstance(s.body[0], ast.Continue):
                    rest = strip_continues(stmts[i + 1:])
                    if rest is None:
                        return None
                    if rest:
                        out.append(ast.copy_location(ast.If(test=ast.copy_location(ast.UnaryOp(op=ast.Not(), operand=s.test), s.test), body=rest, orelse=[]), s))
                    return out
                if any(isinstance(n, (ast.Continue, ast.Break)) for n in ast.walk(s) if not isinstance(n, (ast.For, ast.While)) or n is s) and \
                        any(isinstance(n, (ast.Continue, ast.Break)) for n in ast.walk(s)):
                    return None
                out.append(s)
            return out
        for owner in ast.walk(fi.node):
            for fld in ("body", "orelse"):
                blk = getattr(owner, fld, None)
                if not isinstance(blk, list):
                    continue
                for i, w in enumerate(blk):
                    if not (isinstance(w, ast.While) and isinstance(w.test, ast.Constant) and w.test.value is True and not w.orelse and len(w.body) >= 3):
                        continue
                    a, g = w.body[0], w.body[1]
                    if not (isinstance(a, ast.Assign) and len(a.targets) == 1 and isinstance(a.targets[0], ast.Name) and isinstance(g, ast.If) and not g.orelse and
                            len(g.body) == 1 and isinstance(g.body[0], (ast.Break, ast.Return))):
                        continue
                    x = a.targets[0].id
                    if not any(isinstance(n, ast.Name) and n.id == x for n in ast.walk(g.test)):
                        continue
                    rest = strip_continues(w.body[2:])
                    if rest is None or not rest:
                        continue
                    exit_ = g.body[0]
                    if isinstance(exit_, ast.Return) and i + 1 < len(blk):
                        continue        # statements after the loop would be skipped by the return
                    w.test = ast.copy_location(ast.UnaryOp(op=ast.Not(), operand=g.test), g.test)
                    again = _relocate(_clone(a), w.body[-1])
                    # names whose reaching definition before the loop is a literal (position = 0) are read as that literal in the first evaluation
                    lits = {}
                    for prev in blk[:i]:
                        for n_ in ast.walk(prev):
                            if isinstance(n_, ast.Name) and isinstance(n_.ctx, ast.Store):
                                lits.pop(n_.id, None)
                        if isinstance(prev, ast.Assign) and len(prev.targets) == 1 and isinstance(prev.targets[0], ast.Name) and isinstance(prev.value, ast.Constant):
                            lits[prev.targets[0].id] = prev.value
                    if lits:
                        a.value = _Subst(lits).visit(a.value)
                    w.body = rest + [again]
                    new = [a, w] + ([exit_] if isinstance(exit_, ast.Return) else [])
                    blk[i:i + 1] = new
                    for n_ in new:
                        ast.fix_missing_locations(n_)
                    self.log.append(f"{fi.fq}: `while True: {x} = ...; if ...: {'return' if isinstance(exit_, ast.Return) else 'break'}` rotated into a pre-tested loop")
                    return True
        return False

    # ------------------------------------------------------------------ T17: small canonical forms: (e - 1) + 1 -> e, x.find(y, 0) -> x.find(y), not (a < 3) -> a >= 3
    def canonical_forms(self, fi):
        changed = False
        neg = {ast.Lt: ast.GtE, ast.LtE: ast.Gt, ast.Gt: ast.LtE, ast.GtE: ast.Lt, ast.Eq: ast.NotEq, ast.NotEq: ast.Eq}

        class T(ast.NodeTransformer):
            def visit_BinOp(self, n):
                nonlocal changed
                self.generic_visit(n)
                if isinstance(n.op, (ast.Add, ast.Sub)) and isinstance(n.right, ast.Constant) and isinstance(n.right.value, int) and not isinstance(n.right.value, bool) and \
                        isinstance(n.left, ast.BinOp) and isinstance(n.left.op, (ast.Add, ast.Sub)) and isinstance(n.left.right, ast.Constant) and \
                        isinstance(n.left.right.value, int) and not isinstance(n.left.right.value, bool):
                    c = (n.left.right.value if isinstance(n.left.op, ast.Add) else -n.left.right.value) + (n.right.value if isinstance(n.op, ast.Add) else -n.right.value)
                    changed = True
                    if c == 0:
                        return n.left.left
                    return ast.copy_location(ast.BinOp(left=n.left.left, op=ast.Add() if c > 0 else ast.Sub(), right=ast.Constant(value=abs(c))), n)
                return n

            def visit_Call(self, n):
                nonlocal changed
                self.generic_visit(n)
                if isinstance(n.func, ast.Attribute) and n.func.attr == "find" and len(n.args) == 2 and not n.keywords and isinstance(n.args[1], ast.Constant) and n.args[1].value == 0 \
                        and not isinstance(n.args[1].value, bool):
                    n.args = n.args[:1]
                    changed = True
                return n

            def visit_UnaryOp(self, n):
                nonlocal changed
                self.generic_visit(n)
                if isinstance(n.op, ast.Not) and isinstance(n.operand, ast.Compare) and len(n.operand.ops) == 1 and type(n.operand.ops[0]) in neg and \
                        isinstance(n.operand.comparators[0], ast.Constant) and isinstance(n.operand.comparators[0].value, int) and not isinstance(n.operand.comparators[0].value, bool):
                    changed = True
                    return ast.copy_location(ast.Compare(left=n.operand.left, ops=[neg[type(n.operand.ops[0])]()], comparators=n.operand.comparators), n)
                return n
        T().visit(fi.node)
        if changed:
            self.log.append(f"{fi.fq}: canonical forms applied")
        return changed

    # ------------------------------------------------------------------ T12: `if not C: LONG; return a` + `SHORT; return b`  ->  `if C: SHORT; return b` + `LONG; return a`
    def flip_negated_arm(self, fi):
        fn = fi.node
        if isinstance(fn, ast.Lambda):
            return False
        body = fn.body
        for i, s in enumerate(body):
            if isinstance(s, ast.If) and not s.orelse and isinstance(s.test, ast.UnaryOp) and isinstance(s.test.op, ast.Not) and s.body and isinstance(s.body[-1], ast.Return) \
                    and i + 1 < len(body) and isinstance(body[-1], ast.Return) and len(s.body) > len(body) - i - 1:
                rest = body[i + 1:]
                long_arm = s.body
                s.test = s.test.operand
                s.body = rest
                fn.body = body[:i + 1] + long_arm
                self.log.append(f"{fi.fq}: `if not c: <long>; return` + `<short>; return` -> positive test first")
                return True
        return False

    # ------------------------------------------------------------------ T11: `t = P.attr` (assigned once): t is P.attr until P or P.attr is next assigned
    def attr_snapshot(self, fi):
        fn = fi.node
        if isinstance(fn, ast.Lambda):
            return False
        params = [a.arg for a in fn.args.posonlyargs + fn.args.args]
        stores = {}
        for n in ast.walk(fn):
            if isinstance(n, ast.Name) and isinstance(n.ctx, (ast.Store, ast.Del)):
                stores[n.id] = stores.get(n.id, 0) + 1
        for i, s in enumerate(fn.body):
            if isinstance(s, ast.Assign) and len(s.targets) == 1 and isinstance(s.targets[0], ast.Name) and isinstance(s.value, ast.Attribute) and \
                    isinstance(s.value.value, ast.Name) and s.value.value.id in params:
                t, p, a = s.targets[0].id, s.value.value.id, s.value.attr
                if stores.get(t, 0) != 1 or t in params:
                    continue
                did, complete = False, True
                for st in fn.body[i + 1:]:
                    touches = any((isinstance(n, ast.Name) and n.id == p and isinstance(n.ctx, ast.Store)) or
                                  (isinstance(n, ast.Attribute) and isinstance(n.ctx, ast.Store) and isinstance(n.value, ast.Name) and n.value.id == p and n.attr == a)
                                  for n in ast.walk(st))
                    uses = any(isinstance(n, ast.Name) and n.id == t and isinstance(n.ctx, ast.Load) for n in ast.walk(st))
                    if touches:
                        if uses or any(isinstance(n, ast.Name) and n.id == t for st2 in fn.body[fn.body.index(st):] for n in ast.walk(st2)):
                            complete = False
                        break
                    if uses:
                        _Subst({t: s.value}).visit(st)
                        did = True
                if did and complete:
                    del fn.body[i]
                if did:
                    self.log.append(f"{fi.fq}: snapshot {t} = {p}.{a} read as {p}.{a} while {p} is unchanged")
                    return True
        return False

    # ------------------------------------------------------------------ T8: `t = <arithmetic over never-assigned names>` at the top level, assigned once
    def pure_temps(self, fi):
        fn = fi.node
        if isinstance(fn, ast.Lambda):
            return False
        params = {a.arg for a in fn.args.posonlyargs + fn.args.args + fn.args.kwonlyargs}
        stores = {}
        for n in ast.walk(fn):
            if isinstance(n, ast.Name) and isinstance(n.ctx, (ast.Store, ast.Del)):
                stores[n.id] = stores.get(n.id, 0) + 1
        if any(isinstance(n, (ast.FunctionDef, ast.ClassDef)) and n is not fn for n in ast.walk(fn)):
            return False

        def pure(e):
            if isinstance(e, ast.Constant) and isinstance(e.value, int) and not isinstance(e.value, bool):
                return True
            if isinstance(e, ast.Name):
                return e.id in params and stores.get(e.id, 0) == 0
            if isinstance(e, ast.BinOp) and isinstance(e.op, (ast.Add, ast.Sub)):
                return pure(e.left) and pure(e.right)
            return False
        for i, s in enumerate(fn.body):
            if isinstance(s, ast.Assign) and len(s.targets) == 1 and isinstance(s.targets[0], ast.Name) and isinstance(s.value, ast.BinOp) and pure(s.value):
                x = s.targets[0].id
                if stores.get(x, 0) == 1 and x not in params:
                    for st in fn.body[i + 1:]:
                        _Subst({x: s.value}).visit(st)
                    del fn.body[i]
                    self.log.append(f"{fi.fq}: temporary {x} = {ast.unparse(s.value)} propagated")
                    return True
        return False

    # ------------------------------------------------------------------ T7: `if C: work; continue` + rest  ->  `if C: work else: rest`
    def continue_to_else(self, fi):
        changed = False
        for loop in ast.walk(fi.node):
            if not isinstance(loop, (ast.For, ast.While)):
                continue
            body = loop.body
            for i, s in enumerate(body):
                if isinstance(s, ast.If) and not s.orelse and len(s.body) >= 2 and isinstance(s.body[-1], ast.Continue) and i + 1 < len(body) and \
                        not any(isinstance(n, (ast.Continue, ast.Break)) for st in s.body[:-1] for n in ast.walk(st)):
                    s.body = s.body[:-1]
                    s.orelse = body[i + 1:]
                    del body[i + 1:]
                    self.log.append(f"{fi.fq}: `if ...: ...; continue` followed by statements -> if/else")
                    changed = True
                    break
        return changed

    # ------------------------------------------------------------------ T6: `x = P` (P a parameter that is never assigned, x re-assigned later):
    # the parameter's name becomes the moving variable, the untouched value gets the name P__root
    def moving_alias(self, fi):
        fn = fi.node
        if isinstance(fn, ast.Lambda):
            return False
        params = [a.arg for a in fn.args.posonlyargs + fn.args.args]
        stores = {}
        for n in ast.walk(fn):
            if isinstance(n, ast.Name) and isinstance(n.ctx, (ast.Store, ast.Del)):
                stores[n.id] = stores.get(n.id, 0) + 1
        if any(isinstance(n, (ast.FunctionDef, ast.ClassDef)) and n is not fn for n in ast.walk(fn)):
            return False
        for i, s in enumerate(fn.body):
            if isinstance(s, ast.Assign) and len(s.targets) == 1 and isinstance(s.targets[0], ast.Name) and isinstance(s.value, ast.Name):
                x, p = s.targets[0].id, s.value.id
                objlike = any(isinstance(n, ast.Attribute) and isinstance(n.value, ast.Name) and n.value.id == x for n in ast.walk(fn))
                if p in params and p != "self" and stores.get(p, 0) == 0 and stores.get(x, 0) >= 2 and x not in params and objlike:
                    root = f"{p}__root"

                    def assigns_x(st):
                        return any(isinstance(n, ast.Name) and n.id == x and isinstance(n.ctx, ast.Store) for n in ast.walk(st))
                    # statements after the alias in which x still equals P: up to the first one that assigns x
                    j = i + 1
                    while j < len(fn.body) and not assigns_x(fn.body[j]):
                        j += 1
                    for st in fn.body[j:]:
                        _Subst({}, {p: root}).visit(st)
                    for st in fn.body[i + 1:]:
                        _Subst({}, {x: p}).visit(st)
                    fn.body[i] = ast.copy_location(ast.Assign(targets=[ast.Name(id=root, ctx=ast.Store())], value=ast.Name(id=p, ctx=ast.Load())), s)
                    ast.fix_missing_locations(fn.body[i])
                    self.log.append(f"{fi.fq}: moving variable {x} (initialised from parameter {p}) renamed to {p}; the untouched parameter is {root}")
                    return True
        return False


    # ------------------------------------------------------------------ T18: `ALIAS = cache(f)` / `ALIAS = lru_cache(...)(f)` with f annotated -> bool|bytes|int|str:
    # a cached scalar function is the function (no Node can be shared through it); node-returning wrappers are left for the fresh-hits rule
    def scalar_cache_alias(self, module, fi):
        from .effects import CACHE_DECORATORS
        fn = fi.node
        env = {}
        for name, v in module.assigns.items():
            if name in module.multi_assigned or not isinstance(v, ast.Call) or len(v.args) != 1 or v.keywords or not isinstance(v.args[0], ast.Name):
                continue
            dec = v.func.func if isinstance(v.func, ast.Call) else v.func
            if self.prog.dotted(module, dec) not in CACHE_DECORATORS:
                continue
            tgt = module.funcs.get(v.args[0].id)
            ret = getattr(getattr(tgt, "node", None), "returns", None)
            if ret is not None and ast.unparse(ret) in ("bool", "bytes", "int", "str"):
                env[name] = ast.Name(id=v.args[0].id, ctx=ast.Load())
        if not env:
            return False
        local = {n.id for n in ast.walk(fn) if isinstance(n, ast.Name) and isinstance(n.ctx, ast.Store)} | {a.arg for a in fn.args.posonlyargs + fn.args.args + fn.args.kwonlyargs}
        used = {n.id for n in ast.walk(fn) if isinstance(n, ast.Name) and isinstance(n.ctx, ast.Load) and n.id in env and n.id not in local}
        if not used:
            return False
        for st in fn.body:
            _Subst({k: env[k] for k in used}).visit(st)
        self.log.append(f"{fi.fq}: cached scalar functions {sorted(used)} read as the functions they wrap")
        return True


def normalise_program(prog, rounds=4):
    nz = Normaliser(prog)
    for _ in range(rounds):
        dirty = set()
        for m in list(prog.modules.values()):
            for fi in list(m.funcs.values()):
                if isinstance(fi.node, ast.Lambda):
                    continue
                c = False
                for step in (lambda: nz.inline_expr_calls(m, fi), lambda: nz.inline_stmt_calls(m, fi), lambda: nz.while_true(fi), lambda: nz.aliases(fi),
                             lambda: nz.moving_alias(fi), lambda: nz.continue_to_else(fi), lambda: nz.pure_temps(fi), lambda: nz.rematerialise(fi),
                             lambda: nz.early_alias(fi), lambda: nz.attr_snapshot(fi), lambda: nz.flip_negated_arm(fi), lambda: nz.field_temps(fi), lambda: nz.private_constants(m, fi), lambda: nz.scalar_cache_alias(m, fi), lambda: nz.split_drop_last(fi), lambda: nz.rotate_loop(fi), lambda: nz.canonical_forms(fi)):
                    try:
                        c = step() or c
                    except (AttributeError, TypeError, ValueError, KeyError, IndexError, RecursionError) as e:   # an unexpected tree shape: leave the function as it is
                        nz.log.append(f"{fi.fq}: a normalisation step was skipped ({type(e).__name__}: {e})")
                if c:
                    dirty.add(m)
            if m in dirty:
                m.reindex()
        if not dirty:
            break
    return nz.log
