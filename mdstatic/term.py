"""E5 - termination audit: every while loop, every for loop and every recursion cycle of the analysed functions must
match a ranking template, else it is reported."""
from __future__ import annotations

import ast

from . import guards as G
from .core import norm_src
from .lin import Lin, lin_of_ast
from .model import FuncInfo, Program, own_nodes
from .rules import common

FINITE_ITERABLE_CALLS = {"range", "enumerate", "zip", "sorted", "list", "tuple", "reversed", "set", "frozenset", "regex.finditer", "regex.findall", "dict.items", "iter"}


def min_increment(stmts, var, az):
    """least amount by which `var` grows along any path through the statements that reaches the end of the body or a
    `continue` (None = some path does not increase it / writes it non-additively)"""
    results = []

    def walk(block, inc):
        for i, st in enumerate(block):
            if isinstance(st, ast.AugAssign) and common.is_name(st.target, var):
                v = st.value
                if isinstance(st.op, ast.Add) and isinstance(v, ast.Constant) and isinstance(v.value, int) and v.value > 0:
                    inc += v.value
                else:
                    return [None]
            elif isinstance(st, ast.Assign) and any(common.is_name(t, var) for t in st.targets):
                lf = lin_of_ast(st.value, lambda x: Lin.sym(norm_src(x)))
                if lf is not None and set(lf.t) == {var} and lf.t[var] == 1 and lf.c >= 1:
                    inc += int(lf.c)
                else:
                    return [None]
            elif isinstance(st, ast.If):
                a = walk(st.body + block[i + 1:], inc)
                b = walk(st.orelse + block[i + 1:], inc)
                return a + b
            elif isinstance(st, ast.Continue):
                return [inc]
            elif isinstance(st, (ast.Break, ast.Return, ast.Raise)):
                return []          # leaves the loop: irrelevant for progress
            elif isinstance(st, (ast.For, ast.While, ast.Try, ast.With)):
                if any(isinstance(x, ast.Name) and x.id == var and isinstance(x.ctx, ast.Store) for x in ast.walk(st)):
                    return [None]
        return [inc]
    results = walk(list(stmts), 0)
    if any(r is None for r in results):
        return None
    return min(results) if results else 1


class Termination:
    def __init__(self, prog: Program, funcs, edges):
        self.prog = prog
        self.funcs = list(funcs)
        self.edges = edges
        self.results = []     # (key, ok, where, what, detail, template)

    def add(self, key, ok, fi, node, what, detail, template):
        self.results.append((key, bool(ok), f"{fi.module.rel}:{getattr(node, 'lineno', fi.lineno)}", what, "" if ok else detail, template))

    def run(self, stack_drain_certificate=None):
        for fi in self.funcs:
            if isinstance(fi.node, ast.Lambda):
                continue
            k = 0
            for n in own_nodes(fi.node):
                if isinstance(n, ast.While):
                    k += 1
                    self.while_loop(fi, n, k, stack_drain_certificate)
                elif isinstance(n, (ast.For, ast.comprehension)):
                    self.for_loop(fi, n)
        self.recursion()
        return self.results

    # ------------------------------------------------------------------ while
    def while_loop(self, fi, lp, k, cert):
        az = G.Atomizer(is_int=lambda e: True)
        conj = lp.test.values if isinstance(lp.test, ast.BoolOp) and isinstance(lp.test.op, ast.And) else [lp.test]
        key = f"{fi.fq}/while#{k}"
        what = f"`while {common.short_src(lp.test, 60)}` has a ranking argument"
        # T1 counter: c < bound, c strictly increased on every path, bound expression not written in the loop
        for t in conj:
            if isinstance(t, ast.Compare) and len(t.ops) == 1 and isinstance(t.ops[0], (ast.Lt, ast.LtE)) and isinstance(t.left, ast.Name):
                c = t.left.id
                bound_names = {x.id for x in ast.walk(t.comparators[0]) if isinstance(x, ast.Name)}
                written = {x.id for s in lp.body for x in ast.walk(s) if isinstance(x, ast.Name) and isinstance(x.ctx, ast.Store)}
                inc = min_increment(lp.body, c, az)
                if inc is not None and inc >= 1 and not (bound_names & written):
                    self.add(key, True, fi, lp, what, "", f"T1 counter `{c}` grows by >= {inc} on every path towards `{norm_src(t.comparators[0])}`")
                    return
                if bound_names & written:
                    continue
                if inc is None or inc < 1:
                    self.add(key, False, fi, lp, what, f"counter `{c}` is not increased on every path through the body (or is written non-additively)", "T1")
                    return
        # T2 find-advance: while p >= 0: ...; p = x.find(k, p + len(k)) last, len(k) >= 1 by an emptiness guard
        for t in conj:
            f = az.formula(t)
            if isinstance(t, ast.Compare) and isinstance(t.left, ast.Name):
                p = t.left.id
                # p only ever holds a find() result (>= -1), so `p != -1` / `p > -1` say the same as `p >= 0`
                stores_p = [x for x in own_nodes(fi.node) if isinstance(x, ast.Assign) and len(x.targets) == 1 and common.is_name(x.targets[0], p)]
                find_only = bool(stores_p) and all(isinstance(x.value, ast.Call) and isinstance(x.value.func, ast.Attribute) and x.value.func.attr in ("find", "rfind")
                                                   for x in stores_p)
                assuming = az.formula(common.spec_expr(f"{p} >= -1")) if find_only else G.T
                ok_cond = G.equivalent(f, az.formula(common.spec_expr(f"{p} >= 0")), assuming=assuming)[0]
                last = lp.body[-1] if lp.body else None
                if ok_cond and isinstance(last, ast.Assign) and common.is_name(last.targets[0], p) and isinstance(last.value, ast.Call) and \
                        isinstance(last.value.func, ast.Attribute) and last.value.func.attr == "find" and len(last.value.args) == 2:
                    kw = last.value.args[0]
                    env = common.block_env(fi.body, last) or {}
                    off = lin_of_ast(G.Atomizer(subst=env).inline(last.value.args[1]), lambda x: Lin.sym(norm_src(x)))
                    others = [x for s in lp.body[:-1] for x in ast.walk(s) if isinstance(x, ast.Name) and x.id == p and isinstance(x.ctx, ast.Store)]
                    conts = [x for s in lp.body for x in ast.walk(s) if isinstance(x, ast.Continue)]
                    adv = off is not None and off.t.get(p) == 1 and (off - Lin.sym(p)) == Lin.sym(f"len({norm_src(kw)})")
                    # emptiness guard before the loop: `if not k: return`
                    guard = False
                    for st in fi.node.body:
                        if st is lp:
                            break
                        if isinstance(st, ast.If) and isinstance(st.test, ast.UnaryOp) and isinstance(st.test.op, ast.Not) and norm_src(st.test.operand) == norm_src(kw) \
                                and st.body and isinstance(st.body[-1], ast.Return):
                            guard = True
                    if adv and guard and not others and not conts:
                        self.add(key, True, fi, lp, what, "", f"T2 find-advance: `{p}` moves by len({norm_src(kw)}) >= 1 per iteration (empty keyword rejected before the loop)")
                        return
                    if adv and not guard:
                        self.add(key, False, fi, lp, what, f"the search advances by len({norm_src(kw)}) which is 0 for an empty keyword: no emptiness guard dominates the loop", "T2")
                        return
        # T3 ancestor walk: while n: ...; n = n.parent
        if isinstance(lp.test, ast.Name):
            n_ = lp.test.id
            last = lp.body[-1] if lp.body else None
            if isinstance(last, ast.Assign) and common.is_name(last.targets[0], n_) and common.is_attr(last.value, n_, "parent") and \
                    not any(isinstance(x, ast.Continue) for s in lp.body for x in ast.walk(s)):
                self.add(key, True, fi, lp, what, "", "T3 ancestor walk along .parent (acyclic by the parent/child pairing of C03)")
                return
        # T4 stack drain (scan_node's context-pop loop)
        pops = [x for s in lp.body for x in ast.walk(s) if isinstance(x, ast.Call) and isinstance(x.func, ast.Attribute) and x.func.attr == "pop"]
        if pops:
            stack = norm_src(pops[0].func.value)
            in_cond = any(norm_src(t) == stack for t in conj)
            if in_cond:
                self.add(key, True, fi, lp, what, "", f"T4 stack drain: `{stack}` is tested by the loop and shrinks on every iteration")
                return
            if cert is not None:
                ok, why = cert()
                self.add(key, ok, fi, lp, what, why, "T4 stack drain with certificate: every hit the registry can return ends inside the scanned value, so the condition is false "
                         "once the stack is empty (offset = 0, NODE = root)")
                return
        self.add(key, False, fi, lp, what, "no ranking template (counter / find-advance / ancestor walk / stack drain) matches", "none")

    # ------------------------------------------------------------------ for
    def for_loop(self, fi, lp):
        it = lp.iter
        m = fi.module
        key = f"{fi.fq}/for:{common.short_src(it, 40)}"
        ok = True
        det = ""
        base = it
        while isinstance(base, ast.Call) and isinstance(base.func, ast.Name) and base.func.id in ("enumerate", "zip", "sorted", "list", "tuple", "reversed", "iter") and base.args:
            base = base.args[0]
        if isinstance(base, ast.Call):
            d = self.prog.dotted(m, base.func) if isinstance(base.func, (ast.Name, ast.Attribute)) else None
            c = self.prog.callee(m, fi, base)
            if d in ("itertools.count", "itertools.cycle", "itertools.repeat", "iter") and len(base.args) != 1:
                ok = False
                det = f"`{norm_src(base)}` may be infinite"
            _ = c
        # body must not grow the collection being iterated
        if isinstance(lp, ast.For) and isinstance(base, (ast.Name, ast.Attribute)):
            bs = norm_src(base)
            for s in lp.body:
                for x in ast.walk(s):
                    if isinstance(x, ast.Call) and isinstance(x.func, ast.Attribute) and x.func.attr in ("append", "extend", "insert") and norm_src(x.func.value) == bs:
                        ok = False
                        det = f"the loop body grows `{bs}` while iterating over it"
        if not ok or isinstance(lp, ast.For):
            self.add(key, ok, fi, lp, f"`for ... in {common.short_src(it, 50)}` iterates a finite collection that the body does not grow", det, "finite iterable")

    # ------------------------------------------------------------------ recursion
    def recursion(self):
        funcs = set(self.funcs)
        # SCCs by simple DFS reachability (small graph)
        reach = {}

        def r(f):
            if f in reach:
                return reach[f]
            seen = set()
            st = [f]
            while st:
                x = st.pop()
                for y in self.edges.get(x, ()):
                    if y in funcs and y not in seen:
                        seen.add(y)
                        st.append(y)
            reach[f] = seen
            return seen
        for fi in self.funcs:
            if fi in r(fi):
                self.rec_func(fi)
            elif fi.cls and not isinstance(fi.node, ast.Lambda) and self._method_self_calls(fi):
                # `child.flatten()` inside Node.flatten: the receiver is untyped, so the call graph has no edge; a method calling
                # its own name on an element of <x>.children is structural recursion all the same
                self.rec_func(fi)

    def _method_self_calls(self, fi):
        name = fi.qualname.rsplit(".", 1)[-1]
        out = []
        for n in own_nodes(fi.node):
            if isinstance(n, ast.Call) and isinstance(n.func, ast.Attribute) and n.func.attr == name and isinstance(n.func.value, ast.Name):
                for p in common.parents(n):
                    its = []
                    if isinstance(p, ast.For) and isinstance(p.target, ast.Name) and p.target.id == n.func.value.id:
                        its.append(p.iter)
                    if isinstance(p, (ast.ListComp, ast.GeneratorExp)):
                        its += [g.iter for g in p.generators if isinstance(g.target, ast.Name) and g.target.id == n.func.value.id]
                    if any(norm_src(i).endswith(".children") for i in its):
                        out.append(n)
        return out

    def rec_func(self, fi):
        if isinstance(fi.node, ast.Lambda):
            return
        m = fi.module
        calls = [n for n in own_nodes(fi.node) if isinstance(n, ast.Call) and self.prog.callee(m, fi, n).func is fi]
        if fi.cls:
            calls += [n for n in self._method_self_calls(fi) if n not in calls]
        key = f"{fi.fq}/recursion"
        what = f"every recursive call of {fi.qualname} is on a strictly smaller argument"
        if not calls:
            # mutual recursion through another function (Node.__iter__ -> generator): judged at the member that calls itself
            return
        ok_all = True
        tmpl = set()
        det = ""
        for c in calls:
            off = 1 if isinstance(c.func, ast.Attribute) and fi.cls else 0
            ok = False
            # T6 structural descent: an argument is an element of <param>.children / d["children"] (loop variable over it), or <x>.children itself
            for a in c.args + [k.value for k in c.keywords] + ([c.func.value] if isinstance(c.func, ast.Attribute) else []):
                if isinstance(a, ast.Name):
                    for p in common.parents(c):
                        its = []
                        if isinstance(p, ast.For) and isinstance(p.target, ast.Name) and p.target.id == a.id:
                            its.append(p.iter)
                        if isinstance(p, (ast.ListComp, ast.GeneratorExp)):
                            its += [g.iter for g in p.generators if isinstance(g.target, ast.Name) and g.target.id == a.id]
                        for itx in its:
                            s_ = norm_src(itx)
                            if s_.endswith(".children") or s_.endswith("['children']") or any(s_ == q for q in fi.params):
                                ok = True
                                tmpl.add("T6 structural descent over .children")
                if isinstance(a, ast.Attribute) and a.attr == "children":
                    ok = True
                    tmpl.add("T6 structural descent over .children")
            # T5 decreasing / increasing parameter with a base case
            if not ok:
                for i, a in enumerate(c.args):
                    pi = i + off
                    if pi < len(fi.params):
                        p = fi.params[pi]
                        lf = lin_of_ast(a, lambda x: Lin.sym(norm_src(x)))
                        if lf is not None and set(lf.t) == {p} and lf.t[p] == 1 and lf.c != 0:
                            # base case: a guard on p that returns before the call
                            az = G.Atomizer(is_int=lambda e: True)
                            pc = G.reach(fi.body, common.enclosing_stmt(c), az)
                            if lf.c <= -1:
                                need_ = az.formula(common.spec_expr(f"{p} >= 1"))
                                if pc is not None and G.implies(pc, need_)[0]:
                                    ok = True
                                    tmpl.add(f"T5 parameter `{p}` decreases by {-lf.c} and the call needs {p} >= 1")
                            else:
                                # increasing towards len(x): guard p >= len(x) returns
                                for st in fi.node.body:
                                    if isinstance(st, ast.If) and st.body and isinstance(st.body[-1], ast.Return):
                                        f_ = az.formula(st.test)
                                        for a_ in G.atoms_of(f_):
                                            if a_[0] == "lin" and p in a_[1] and "len(" in a_[1]:
                                                ok = True
                                                tmpl.add(f"T5 parameter `{p}` increases by {lf.c} up to a length bound with a base case")
            if not ok:
                ok_all = False
                det = f"`{common.short_src(c, 70)}`: no decreasing parameter with a base case, no descent over .children"
        self.add(key, ok_all, fi, fi.node, what, det, "; ".join(sorted(tmpl)) or "none")
