"""Obligations, findings, evidence files, known findings, exit codes."""
from __future__ import annotations

import ast
import json
import os
import re
import time

VERIF = os.path.dirname(os.path.dirname(os.path.abspath(__file__)))
EVIDENCE_DIR = os.path.join(VERIF, "evidence")
REPLAY_DIR = os.path.join(EVIDENCE_DIR, "replay")
KNOWN_FILE = os.path.join(VERIF, "known_findings.json")


def norm_src(node) -> str:
    """Source of an AST node, normalised (no line numbers, canonical spacing)."""
    try:
        return ast.unparse(node)
    except Exception:   # noqa: BLE001
        return repr(node)


class Run:
    """One check run of one property."""

    def __init__(self, prop: str, tier: str, prog, selftest: bool = False):
        self.prop = prop
        self.tier = tier
        self.prog = prog
        self.t0 = time.time()
        self.obligations: list[dict] = []
        self.rule_counts: dict[str, int] = {}
        self.floors: dict[str, int] = {}
        self.assumptions: list[str] = []
        self.exemptions: list[dict] = []
        self.analysed: dict[str, object] = {}
        self.selftest = selftest
        self.extra: dict[str, object] = {}

    # -- recording -----------------------------------------------------------
    def ob(self, rule: str, key: str, ok: bool, where: str, what: str, detail: str = "", mech: str = ""):
        """Record an obligation. key identifies the construct (function + construct kind + role),
        never a line number. where is 'file:line' for the reader only."""
        self.obligations.append(
            dict(rule=rule, key=f"{self.prop}/{rule}/{key}", ok=bool(ok), where=where, what=what, detail=detail,
                 mechanism=mech)
        )
        self.rule_counts[rule] = self.rule_counts.get(rule, 0) + 1
        return bool(ok)

    def floor(self, rule: str, n: int):
        """Minimum number of instances of `rule` confirmed by hand on the reference tree."""
        self.floors[rule] = n

    def assume(self, text: str):
        if text not in self.assumptions:
            self.assumptions.append(text)

    def exempt(self, key: str, reason: str, condition: str):
        self.exemptions.append(dict(key=key, reason=reason, rechecked_condition=condition))

    def note(self, k, v):
        self.analysed[k] = v

    # -- verdict ---------------------------------------------------------------
    def failures(self):
        return [o for o in self.obligations if not o["ok"]]

    def check_floors(self):
        from .model import AnalysisError
        if self.failures():
            return   # a violation is being reported; dependent instances may legitimately be missing
        for rule, n in self.floors.items():
            got = self.rule_counts.get(rule, 0)
            if any(o["rule"] == rule and not o["ok"] for o in self.obligations):
                continue   # the rule already reports a violation; dependent instances were not generated
            if got < n:
                raise AnalysisError(
                    f"rule {rule} matched {got} instance(s), fewer than the {n} confirmed on the reference tree: "
                    "the rule would pass vacuously"
                )


def load_known():
    if not os.path.exists(KNOWN_FILE):
        return {"known": [], "fixed": []}
    with open(KNOWN_FILE) as f:
        return json.load(f)


def finish(run: Run, level_explanation: str, trusted: list[str]) -> int:
    """Write evidence, print verdict lines, return exit status."""
    run.check_floors()
    known = load_known()
    known_keys = {k["key"]: k for k in known.get("known", []) if k.get("property") == run.prop}
    fails = run.failures()
    unlisted = [o for o in fails if o["key"] not in known_keys]
    listed = [o for o in fails if o["key"] in known_keys]
    os.makedirs(REPLAY_DIR, exist_ok=True)
    # remove stale replay files of this property
    for f in os.listdir(REPLAY_DIR):
        if f.startswith(run.prop + "-"):
            try:
                os.remove(os.path.join(REPLAY_DIR, f))
            except OSError:
                pass
    for o in listed:
        print(f"KNOWN-FINDING: property={run.prop} {o['key']} :: {known_keys[o['key']].get('what', o['what'])}")
    for i, o in enumerate(unlisted):
        path = os.path.join(REPLAY_DIR, f"{run.prop}-{i}.json")
        with open(path, "w") as f:
            json.dump(o, f, indent=1)
        print(f"VIOLATION property={run.prop} replay={path}")
        print(f"  rule={o['rule']} at {o['where']}: {o['what']}" + (f" -- {o['detail']}" if o["detail"] else ""))
    by_rule = {}
    for o in run.obligations:
        r = by_rule.setdefault(o["rule"], {"obligations": 0, "discharged": 0})
        r["obligations"] += 1
        r["discharged"] += 1 if o["ok"] else 0
    # samples: a few obligations per rule
    samples = []
    seen = {}
    for o in run.obligations:
        if seen.get(o["rule"], 0) < 2:
            seen[o["rule"]] = seen.get(o["rule"], 0) + 1
            samples.append({k: o[k] for k in ("rule", "key", "where", "what", "ok", "mechanism") if o.get(k) != ""})
    distinct = len({o["key"] for o in run.obligations})
    ev = {
        "property_id": run.prop,
        "tier": run.tier,
        "seed": int(os.environ.get("VERIF_SEED", "0") or 0),
        "level": "other",
        "coverage": {
            "explanation": level_explanation,
            "obligations": len(run.obligations),
            "discharged": len(run.obligations) - len(fails),
            "evaluations": len(run.obligations),
            "distinct_nontrivial": distinct,
            "rule": "one obligation per (rule, construct) instance found in the parsed sources; distinct = distinct "
                    "finding keys; an obligation is non-trivial when it names a concrete construct of /repo",
            "by_rule": by_rule,
            "floors": run.floors,
            "samples": samples,
            "analysed": run.analysed,
            "exemptions_used": run.exemptions,
            "known_findings_matched": [o["key"] for o in listed],
            "undischarged": [dict(key=o["key"], where=o["where"], what=o["what"], detail=o["detail"]) for o in fails],
            "trusted_base": trusted,
            "exhaustive": True,
            **run.extra,
        },
        "assumptions": run.assumptions,
        "wall_s": round(time.time() - run.t0, 3),
        "violations": len(unlisted),
    }
    os.makedirs(EVIDENCE_DIR, exist_ok=True)
    with open(os.path.join(EVIDENCE_DIR, f"{run.prop}.json"), "w") as f:
        json.dump(ev, f, indent=1, default=str)
    print(
        f"{run.prop} [{run.tier}] obligations={len(run.obligations)} discharged={len(run.obligations) - len(fails)} "
        f"known={len(listed)} violations={len(unlisted)} wall={ev['wall_s']}s"
    )
    return 1 if unlisted else 0


_ws = re.compile(r"\s+")


def short(s: str, n: int = 120) -> str:
    s = _ws.sub(" ", s)
    return s if len(s) <= n else s[: n - 3] + "..."


def run_rules(mod, run):
    """mod.check(run); an anchor that vanishes AFTER an obligation already failed does not turn the run into an analysis error:
    the failure stands and is reported (the construct that broke the obligation is usually what removed the anchor). With no
    failure recorded the AnalysisError propagates and the run is analysis-broken (exit 2)."""
    from .model import AnalysisError
    try:
        mod.check(run)
    except AnalysisError as e:
        if not run.failures():
            raise
        run.note("analysis_stopped_after_violation", str(e))
