"""E8 - determinism / effect analysis.

* order taint: abstract kinds U (unordered collection: set/frozenset), T (a sequence whose element order comes from
  an unordered or file-system source) propagated through assignments, arguments (including functools.partial),
  returns and module constants; every order-observing use of a U/T value is reported unless sanitised by sorted().
* write effects: stores and mutating calls whose target is shared between activations (module-level objects, self.*,
  class attributes, default arguments, caches).
* entropy sources: calls of random/time/uuid/os.environ/id/hash/... .
"""
from __future__ import annotations

import ast
import os

from .core import norm_src
from .model import FuncInfo, Program, own_nodes
from .rules import common

U, T = "U", "T"

FS_ENUMERATORS = {"os.listdir", "os.scandir", "glob.glob", "glob.iglob", "os.walk", "os.fwalk"}
ORDER_INSENSITIVE_REDUCERS = {"set", "frozenset", "sorted", "sum", "any", "all", "min", "max", "len", "bool", "collections.Counter", "Counter"}
ORDER_OBSERVING_CALLS = {"list", "tuple", "next", "iter", "enumerate", "zip", "reversed", "map", "filter", "dict", "bytes", "bytearray", "str"}
MUTATORS = {"append", "extend", "insert", "add", "update", "pop", "popitem", "remove", "discard", "clear", "sort", "reverse",
            "setdefault", "__setitem__", "__delitem__", "appendleft", "extendleft"}
ENTROPY_PREFIXES = ("random.", "time.", "datetime.", "uuid.", "secrets.", "threading.", "multiprocessing.", "os.environ", "os.getpid",
                    "os.urandom", "os.getenv", "tempfile.", "socket.gethostname", "platform.")
ENTROPY_BUILTINS = {"id", "hash", "input", "vars", "globals", "locals"}
CACHE_DECORATORS = {"functools.cache", "functools.lru_cache", "functools.cached_property", "cache", "lru_cache"}


def _total_order_sort(call) -> bool:
    """sorted(x) / x.sort() without a key (or with key=None): distinct elements never compare equal, so the result does not
    depend on the input order.  With a key, equal keys keep the input order (the sort is stable)."""
    for k in call.keywords:
        if k.arg == "key" and not (isinstance(k.value, ast.Constant) and k.value.value is None):
            return False
    return True


class Finding:
    def __init__(self, kind, fn, node, what, key):
        self.kind, self.fn, self.node, self.what, self.key = kind, fn, node, what, key


class OrderTaint:
    def __init__(self, prog: Program, funcs):
        self.prog = prog
        self.funcs = list(funcs)
        self.param_kind: dict[tuple[FuncInfo, str], str] = {}
        self.ret_kind: dict[FuncInfo, str] = {}
        self.findings: list[Finding] = []
        self.sources = []        # (fn, node, kind, text) every U/T source seen
        self.uses_ok = []        # order-insensitive uses seen (for evidence)
        self._fix()

    # -- abstract evaluation ------------------------------------------------------------------
    def kind_of_const(self, v):
        if isinstance(v, (set, frozenset)):
            return U
        return ""

    def var_kinds(self, fi: FuncInfo):
        """flow-insensitive: join over all assignments to each local."""
        env = {}
        for p in fi.params:
            k = self.param_kind.get((fi, p), "")
            if k:
                env[p] = k
        sorted_inplace = set()
        for n in own_nodes(fi.node):
            # sorting fixes the order only if distinct elements can never tie: no key function (a key such as str.casefold or
            # len maps distinct names to equal keys, and ties keep the - arbitrary - input order)
            if isinstance(n, ast.Call) and isinstance(n.func, ast.Attribute) and n.func.attr == "sort" and isinstance(n.func.value, ast.Name) and \
                    _total_order_sort(n):
                sorted_inplace.add(n.func.value.id)
            if isinstance(n, ast.Assign) and isinstance(n.targets[0], ast.Subscript) and isinstance(n.targets[0].value, ast.Name) and \
                    isinstance(n.targets[0].slice, ast.Slice) and isinstance(n.value, ast.Call) and common.is_name(n.value.func, "sorted") and \
                    _total_order_sort(n.value):
                sorted_inplace.add(n.targets[0].value.id)    # x[:] = sorted(x)
        changed = True
        it = 0
        while changed and it < 6:
            changed = False
            it += 1
            for n in own_nodes(fi.node):
                pairs = []
                if isinstance(n, ast.Assign):
                    for t in n.targets:
                        pairs.append((t, n.value))
                elif isinstance(n, ast.AnnAssign) and n.value is not None:
                    pairs.append((n.target, n.value))
                elif isinstance(n, ast.NamedExpr):
                    pairs.append((n.target, n.value))
                elif isinstance(n, (ast.For, ast.comprehension)):
                    # loop variable over os.walk: (dirpath, dirs, files)
                    itx = n.iter
                    if isinstance(itx, ast.Call) and self.prog.dotted(fi.module, itx.func) in ("os.walk", "os.fwalk") and isinstance(n.target, ast.Tuple):
                        for el in n.target.elts[1:3]:
                            if isinstance(el, ast.Name) and el.id not in sorted_inplace and env.get(el.id) != T:
                                env[el.id] = T
                                changed = True
                    if isinstance(n.target, ast.Tuple) and isinstance(itx, (ast.List, ast.Tuple)):
                        for row in itx.elts:
                            if isinstance(row, ast.Tuple) and len(row.elts) == len(n.target.elts):
                                for el, v in zip(n.target.elts, row.elts):
                                    if isinstance(el, ast.Name):
                                        k = self.kind(fi, v, env)
                                        if k and _join(env.get(el.id, ""), k) != env.get(el.id, ""):
                                            env[el.id] = _join(env.get(el.id, ""), k)
                                            changed = True
                    elif isinstance(n.target, ast.Name) and not isinstance(n, ast.comprehension):
                        pass
                    continue
                for t, v in pairs:
                    if isinstance(t, ast.Name):
                        k = self.kind(fi, v, env)
                        if t.id in sorted_inplace and k == T:
                            k = ""
                        old = env.get(t.id, "")
                        new = _join(old, k)
                        if new != old:
                            env[t.id] = new
                            changed = True
        fi_env = {k: v for k, v in env.items() if v}
        return fi_env, sorted_inplace

    def kind(self, fi: FuncInfo, e, env) -> str:
        prog = self.prog
        if isinstance(e, (ast.Set, ast.SetComp)):
            return U
        if isinstance(e, ast.Name):
            if e.id in env:
                return env[e.id]
            if not common.stores_to(fi.node, e.id) and e.id not in fi.params:
                try:
                    return self.kind_of_const(prog.const(fi.module, e.id))
                except Exception:   # noqa: BLE001
                    # module-level non-constant sets
                    v = fi.module.assigns.get(e.id)
                    if isinstance(v, (ast.Set, ast.SetComp)) or (isinstance(v, ast.Call) and common.is_name(v.func, "set")):
                        return U
            return ""
        if isinstance(e, ast.IfExp):
            return _join(self.kind(fi, e.body, env), self.kind(fi, e.orelse, env))
        if isinstance(e, ast.BoolOp):
            k = ""
            for v in e.values:
                k = _join(k, self.kind(fi, v, env))
            return k
        if isinstance(e, ast.BinOp) and isinstance(e.op, (ast.BitOr, ast.BitAnd, ast.Sub, ast.BitXor)):
            # set algebra on dict views (d.keys() - other.keys()) yields a plain set: hash order
            def is_view(x):
                return isinstance(x, ast.Call) and isinstance(x.func, ast.Attribute) and x.func.attr in ("keys", "items") and not x.args
            if is_view(e.left) or is_view(e.right):
                return U
            return _join(self.kind(fi, e.left, env), self.kind(fi, e.right, env)) and U
        if isinstance(e, ast.BinOp) and isinstance(e.op, ast.Add):
            a, b = self.kind(fi, e.left, env), self.kind(fi, e.right, env)
            return T if (a or b) else ""
        if isinstance(e, ast.Call):
            d = prog.dotted(fi.module, e.func) if isinstance(e.func, (ast.Name, ast.Attribute)) else None
            if d in ("set", "frozenset"):
                return U
            if isinstance(e.func, ast.Attribute) and e.func.attr in ("difference", "union", "intersection", "symmetric_difference") and \
                    (self.kind(fi, e.func.value, env) == U or (isinstance(e.func.value, ast.Call) and isinstance(e.func.value.func, ast.Attribute)
                                                                 and e.func.value.func.attr in ("keys", "items"))):
                return U
            if d == "sorted":
                if _total_order_sort(e):
                    return ""
                return T if (e.args and self.kind(fi, e.args[0], env)) else ""
            if d in FS_ENUMERATORS:
                return T
            if d in ("list", "tuple", "reversed", "enumerate", "iter") and e.args:
                return T if self.kind(fi, e.args[0], env) else ""
            if d == "dict" and e.args:
                return T if self.kind(fi, e.args[0], env) else ""
            if d == "functools.partial":
                return ""
            c = prog.callee(fi.module, fi, e)
            if c.kind == "repo" and c.func is not None:
                return self.ret_kind.get(c.func, "")
            if isinstance(e.func, ast.Attribute):
                base = self.kind(fi, e.func.value, env)
                if e.func.attr in ("copy", "union", "intersection", "difference", "symmetric_difference"):
                    return base
                if e.func.attr in ("keys", "values", "items") and base:
                    return T
            return ""
        if isinstance(e, (ast.ListComp, ast.GeneratorExp, ast.DictComp)):
            for g in e.generators:
                if self.kind(fi, g.iter, env):
                    return T
            return ""
        if isinstance(e, (ast.List, ast.Tuple)):
            for x in e.elts:
                if isinstance(x, ast.Starred) and self.kind(fi, x.value, env):
                    return T
            return ""
        if isinstance(e, ast.Starred):
            return self.kind(fi, e.value, env)
        return ""

    # -- interprocedural fixpoint -------------------------------------------------------------
    def _fix(self):
        prog = self.prog
        for _ in range(8):
            changed = False
            for fi in self.funcs:
                env, _s = self.var_kinds(fi)
                # returns
                rk = ""
                nodes = own_nodes(fi.node) if not isinstance(fi.node, ast.Lambda) else ast.walk(fi.node)
                for n in nodes:
                    if isinstance(n, ast.Return) and n.value is not None:
                        rk = _join(rk, self.kind(fi, n.value, env))
                if isinstance(fi.node, ast.Lambda):
                    rk = self.kind(fi, fi.node.body, env)
                if rk != self.ret_kind.get(fi, ""):
                    self.ret_kind[fi] = rk
                    changed = True
                # call sites -> parameter kinds
                nodes = own_nodes(fi.node) if not isinstance(fi.node, ast.Lambda) else ast.walk(fi.node)
                for n in nodes:
                    if not isinstance(n, ast.Call):
                        continue
                    tgt = None
                    args = list(n.args)
                    kws = list(n.keywords)
                    off = 0
                    d = prog.dotted(fi.module, n.func) if isinstance(n.func, (ast.Name, ast.Attribute)) else None
                    if d == "functools.partial" and n.args:
                        f0 = n.args[0]
                        r = prog.resolve_func_name(fi.module, f0.id, fi) if isinstance(f0, ast.Name) else None
                        if r and r.kind == "repo":
                            tgt = r.func
                            args = args[1:]
                    else:
                        c = prog.callee(fi.module, fi, n)
                        if c.kind == "repo" and c.func is not None:
                            tgt = c.func
                            if isinstance(n.func, ast.Attribute) and tgt.cls:
                                off = 1
                    if tgt is None:
                        continue
                    ps = tgt.params
                    for i, a in enumerate(args):
                        if isinstance(a, ast.Starred) or i + off >= len(ps):
                            continue
                        k = self.kind(fi, a, env)
                        if k and _join(self.param_kind.get((tgt, ps[i + off]), ""), k) != self.param_kind.get((tgt, ps[i + off]), ""):
                            self.param_kind[(tgt, ps[i + off])] = _join(self.param_kind.get((tgt, ps[i + off]), ""), k)
                            changed = True
                    for kw in kws:
                        if kw.arg in ps:
                            k = self.kind(fi, kw.value, env)
                            if k and _join(self.param_kind.get((tgt, kw.arg), ""), k) != self.param_kind.get((tgt, kw.arg), ""):
                                self.param_kind[(tgt, kw.arg)] = _join(self.param_kind.get((tgt, kw.arg), ""), k)
                                changed = True
            if not changed:
                break
        for fi in self.funcs:
            self._observe(fi)

    # -- order-observing uses -------------------------------------------------------------------
    def _observe(self, fi: FuncInfo):
        prog = self.prog
        env, sorted_inplace = self.var_kinds(fi)
        nodes = list(own_nodes(fi.node)) if not isinstance(fi.node, ast.Lambda) else list(ast.walk(fi.node))

        def describe(e):
            return common.short_src(e, 70)

        def flag(node, e, how, role):
            k = self.kind(fi, e, env)
            self.findings.append(Finding("order", fi, node, f"{how}: `{describe(e)}` is {'an unordered collection' if k == U else 'a sequence in hash / file-system order'}",
                                         f"{fi.fq}/order-observed/{role}"))
        for n in nodes:
            # sources (evidence)
            if isinstance(n, (ast.Set, ast.SetComp)) or (isinstance(n, ast.Call) and prog.dotted(fi.module, n.func) in ({"set", "frozenset"} | FS_ENUMERATORS)
                                                         if isinstance(n, ast.Call) and isinstance(n.func, (ast.Name, ast.Attribute)) else False):
                self.sources.append((fi, n))
            if isinstance(n, ast.For):
                k = self.kind(fi, n.iter, env)
                if isinstance(n.iter, ast.Call) and prog.dotted(fi.module, n.iter.func) in ("os.walk", "os.fwalk"):
                    # traversal order: the dirs list must be sorted in place inside the loop
                    dirs = n.target.elts[1] if isinstance(n.target, ast.Tuple) and len(n.target.elts) == 3 else None
                    ok = isinstance(dirs, ast.Name) and dirs.id in sorted_inplace
                    if not ok and _order_sensitive_body(n.body):
                        self.findings.append(Finding("order", fi, n, "directories are visited in file-system enumeration order: os.walk's "
                                                     "dirs list is not sorted in place before descending", f"{fi.fq}/order-observed/os.walk-dirs"))
                    continue
                if k and _order_sensitive_body(n.body):
                    flag(n, n.iter, "loop whose effects depend on iteration order", _role(n.iter))
                elif k:
                    self.uses_ok.append((fi, n))
            elif isinstance(n, (ast.ListComp, ast.GeneratorExp, ast.DictComp)):
                par = getattr(n, "_parent", None)
                consumed_insensitively = isinstance(par, ast.Call) and isinstance(par.func, (ast.Name, ast.Attribute)) and \
                    prog.dotted(fi.module, par.func) in ORDER_INSENSITIVE_REDUCERS and par.args and par.args[0] is n
                for g in n.generators:
                    if self.kind(fi, g.iter, env):
                        if consumed_insensitively:
                            self.uses_ok.append((fi, n))
                        else:
                            flag(n, g.iter, "comprehension builds an ordered result from it", _role(g.iter))
            elif isinstance(n, ast.Call) and isinstance(n.func, (ast.Name, ast.Attribute)):
                d = prog.dotted(fi.module, n.func)
                if d in ORDER_OBSERVING_CALLS and n.args and self.kind(fi, n.args[0], env) and not isinstance(n.args[0], (ast.ListComp, ast.GeneratorExp)):
                    par = getattr(n, "_parent", None)
                    if isinstance(par, ast.Call) and isinstance(par.func, (ast.Name, ast.Attribute)) and prog.dotted(fi.module, par.func) in ORDER_INSENSITIVE_REDUCERS:
                        self.uses_ok.append((fi, n))
                    else:
                        flag(n, n.args[0], f"{d}() materialises its iteration order", _role(n.args[0]))
                elif isinstance(n.func, ast.Attribute) and n.func.attr == "join" and n.args and self.kind(fi, n.args[0], env):
                    flag(n, n.args[0], "join() concatenates in iteration order", _role(n.args[0]))
                elif isinstance(n.func, ast.Attribute) and n.func.attr == "pop" and not n.args and self.kind(fi, n.func.value, env) == U:
                    flag(n, n.func.value, "set.pop() returns an arbitrary element", _role(n.func.value))
                elif isinstance(n.func, ast.Attribute) and n.func.attr in ("extend",) and n.args and self.kind(fi, n.args[0], env):
                    flag(n, n.args[0], "extend() appends in iteration order", _role(n.args[0]))
            elif isinstance(n, ast.Subscript) and isinstance(n.ctx, ast.Load) and self.kind(fi, n.value, env) == T and not isinstance(n.slice, ast.Slice):
                flag(n, n.value, "indexing picks an element by position", _role(n.value))
            elif isinstance(n, ast.Starred) and isinstance(n.ctx, ast.Load) and self.kind(fi, n.value, env):
                flag(n, n.value, "star-unpacking enumerates in iteration order", _role(n.value))
            elif isinstance(n, ast.Assign) and isinstance(n.targets[0], (ast.Tuple, ast.List)) and self.kind(fi, n.value, env):
                flag(n, n.value, "tuple-unpacking takes elements by position", _role(n.value))
            elif isinstance(n, (ast.Yield, ast.YieldFrom)) and n.value is not None and isinstance(n, ast.YieldFrom) and self.kind(fi, n.value, env):
                flag(n, n.value, "yield from enumerates in iteration order", _role(n.value))


def _role(e):
    if isinstance(e, ast.Name):
        return e.id
    if isinstance(e, ast.Call):
        return norm_src(e.func)
    return type(e).__name__


def _join(a, b):
    if U in (a, b):
        return U
    if T in (a, b):
        return T
    return ""


def _order_sensitive_body(body):
    for st in body:
        for n in ast.walk(st):
            if isinstance(n, (ast.Yield, ast.YieldFrom, ast.Return, ast.Break)):
                return True
            if isinstance(n, ast.Call) and isinstance(n.func, ast.Attribute) and n.func.attr in ("append", "extend", "insert", "write", "setdefault", "appendleft"):
                return True
            if isinstance(n, ast.Call) and isinstance(n.func, ast.Name) and n.func.id == "print":
                return True
            if isinstance(n, ast.AugAssign) and not isinstance(n.value, ast.Constant):
                return True
            if isinstance(n, ast.Assign) and any(isinstance(t, ast.Subscript) for t in n.targets):
                return True
    return False


# ====================================================================================== effects
class Effects:
    def __init__(self, prog: Program, funcs, tree_params=None):
        """tree_params: {(fq, param)} parameters that denote the tree under construction (writes allowed)."""
        self.prog = prog
        self.funcs = list(funcs)
        self.findings: list[Finding] = []
        self.param_writes: dict[FuncInfo, set[str]] = {}
        self.n_stores = 0
        self.tree_params = tree_params or set()
        for fi in self.funcs:
            self._scan(fi)

    def _root(self, e):
        while isinstance(e, (ast.Attribute, ast.Subscript)):
            e = e.value
        if isinstance(e, ast.Call) and isinstance(e.func, ast.Attribute):
            return self._root(e.func.value)
        return e

    def classify_root(self, fi: FuncInfo, root):
        """'local' | 'param:<name>' | 'self' | 'module' | 'enclosing' | 'unknown'"""
        if not isinstance(root, ast.Name):
            return "fresh" if isinstance(root, (ast.Call, ast.List, ast.Dict, ast.Set, ast.ListComp)) else "unknown"
        name = root.id
        if fi.params and name == fi.params[0] and fi.cls:
            return "self"
        if name in fi.params:
            return f"param:{name}"
        if common.stores_to(fi.node, name) or _comp_target(fi.node, name):
            return "local"
        c = fi.parent
        while c is not None:
            if name in c.params or common.stores_to(c.node, name):
                return "enclosing"
            c = c.parent
        if name in fi.module.assigns or name in fi.module.imports or name in fi.module.classes:
            return "module"
        return "unknown"

    def local_aliases_shared(self, fi: FuncInfo, name):
        """does local `name` ever alias a shared object (self.x, module-level object, default arg)?"""
        for n in own_nodes(fi.node):
            if isinstance(n, ast.Assign) and any(common.is_name(t, name) for t in n.targets):
                r = self._root(n.value)
                if isinstance(n.value, (ast.Attribute, ast.Name, ast.Subscript)):
                    k = self.classify_root(fi, r)
                    if k in ("self", "module"):
                        return k
        return None

    def _scan(self, fi: FuncInfo):
        prog = self.prog
        if isinstance(fi.node, ast.Lambda):
            nodes = list(ast.walk(fi.node.body))
        else:
            nodes = list(own_nodes(fi.node))
            for d in fi.decorators:
                dd = prog.dotted(fi.module, d.func if isinstance(d, ast.Call) else d)
                if dd in CACHE_DECORATORS and common.may_return_nodes(prog, fi):
                    self.findings.append(Finding("effect", fi, d, f"@{dd} memoises results across scans (returned nodes would be shared between trees)",
                                                 f"{fi.fq}/cache-decorator"))
            a = fi.node.args
            for d in list(a.defaults) + [x for x in a.kw_defaults if x is not None]:
                if isinstance(d, (ast.List, ast.Dict, ast.Set)) or (isinstance(d, ast.Call) and isinstance(d.func, ast.Name) and d.func.id in ("list", "dict", "set")):
                    # mutable default: only a problem when mutated; report the mutation below via param classification
                    pass
        for n in nodes:
            if isinstance(n, (ast.Global, ast.Nonlocal)):
                # nonlocal of an enclosing *function* is activation-local; global is shared
                if isinstance(n, ast.Global):
                    self.findings.append(Finding("effect", fi, n, f"`global {', '.join(n.names)}`: module state written during a scan", f"{fi.fq}/global/{n.names[0]}"))
                continue
            targets = []
            if isinstance(n, ast.Assign):
                targets = [(t, "store") for t in n.targets]
            elif isinstance(n, (ast.AugAssign, ast.AnnAssign)):
                targets = [(n.target, "store")]
            elif isinstance(n, ast.Delete):
                targets = [(t, "del") for t in n.targets]
            elif isinstance(n, ast.Call) and isinstance(n.func, ast.Attribute) and n.func.attr in MUTATORS:
                targets = [(n.func.value, n.func.attr + "()")]
            elif isinstance(n, ast.Call) and isinstance(n.func, ast.Name) and n.func.id == "setattr" and n.args:
                targets = [(n.args[0], "setattr")]
            for t, how in targets:
                if isinstance(t, ast.Name) and how == "store":
                    continue   # plain local rebinding (globals need `global`)
                if isinstance(t, (ast.Tuple, ast.List)):
                    continue
                self.n_stores += 1
                root = self._root(t)
                k = self.classify_root(fi, root)
                if k == "local":
                    sh = self.local_aliases_shared(fi, root.id)
                    if sh:
                        k = sh
                if k in ("local", "fresh", "enclosing"):
                    continue
                if k.startswith("param:"):
                    dflt = common.param_default(fi, k[6:]) if not isinstance(fi.node, ast.Lambda) else None
                    if isinstance(dflt, (ast.List, ast.Dict, ast.Set)) or (isinstance(dflt, ast.Call) and isinstance(dflt.func, ast.Name) and dflt.func.id in ("list", "dict", "set")):
                        self.findings.append(Finding("effect", fi, n, f"`{common.short_src(n, 60)}` mutates the mutable default of parameter `{k[6:]}`: "
                                                     "one object shared by every call", f"{fi.fq}/shared-write/mutable-default:{k[6:]}"))
                        continue
                    self.param_writes.setdefault(fi, set()).add(k[6:])
                    continue
                desc = f"`{common.short_src(n, 70)}` writes {'self.' + _attr_chain(t) if k == 'self' else 'module-level object ' + (root.id if isinstance(root, ast.Name) else '?')}"
                if k == "unknown":
                    desc = f"`{common.short_src(n, 70)}` writes an object of unknown ownership"
                self.findings.append(Finding("effect", fi, n, desc + " (state shared between scans / threads)",
                                             f"{fi.fq}/shared-write/{k}:{_attr_chain(t)}"))

    def check_param_writes(self, callers_edges):
        """every call site of a function that writes through a parameter passes a fresh / tree-under-construction object."""
        prog = self.prog
        res = []
        for fi, params in self.param_writes.items():
            for p in sorted(params):
                if (fi.fq, p) in self.tree_params:
                    res.append((fi, p, True, "tree under construction (public contract of scan_node)", fi.node))
                    continue
                idx = fi.params.index(p)
                sites = []
                for g in self.funcs:
                    nodes = own_nodes(g.node) if not isinstance(g.node, ast.Lambda) else ast.walk(g.node)
                    for n in nodes:
                        if isinstance(n, ast.Call) and prog.callee(g.module, g, n).func is fi:
                            sites.append((g, n))
                ok = True
                why = f"{len(sites)} call site(s) pass a node allocated in the caller's activation"
                bad_node = fi.node
                for g, c in sites:
                    a = common.call_arg(c, fi, idx + (1 if fi.cls else 0), p) if fi.cls else (c.args[idx] if idx < len(c.args) else next((k.value for k in c.keywords if k.arg == p), None))
                    if a is None or not self._is_fresh(g, a):
                        ok = False
                        why = f"call `{common.short_src(c, 60)}` in {g.fq} passes `{norm_src(a) if a is not None else None}`, not a fresh allocation"
                        bad_node = c
                if not sites:
                    ok = True
                    why = "no call site on the scan path"
                res.append((fi, p, ok, why, bad_node))
        return res

    def _is_fresh(self, g: FuncInfo, a):
        prog = self.prog
        if isinstance(a, ast.Call):
            c = prog.callee(g.module, g, a)
            return c.kind == "class" or (c.kind == "repo")
        if isinstance(a, ast.Name):
            vals = []
            for n in own_nodes(g.node):
                if isinstance(n, ast.Assign) and any(common.is_name(t, a.id) for t in n.targets):
                    vals.append(n.value)
                elif isinstance(n, ast.NamedExpr) and common.is_name(n.target, a.id):
                    vals.append(n.value)
            if not vals:
                return (g.fq, a.id) in self.tree_params
            return all(self._is_fresh(g, v) for v in vals)
        return False


def _comp_target(fn_node, name):
    for n in ast.walk(fn_node):
        if isinstance(n, ast.comprehension):
            for x in ast.walk(n.target):
                if isinstance(x, ast.Name) and x.id == name:
                    return True
    return False


def _attr_chain(t):
    parts = []
    while isinstance(t, (ast.Attribute, ast.Subscript)):
        parts.append(t.attr if isinstance(t, ast.Attribute) else "[]")
        t = t.value
    return ".".join(parts[::-1])


def entropy_sources(prog: Program, funcs):
    out = []
    for fi in funcs:
        nodes = own_nodes(fi.node) if not isinstance(fi.node, ast.Lambda) else ast.walk(fi.node)
        for n in nodes:
            d = None
            if isinstance(n, ast.Call) and isinstance(n.func, (ast.Name, ast.Attribute)):
                d = prog.dotted(fi.module, n.func)
                if d in ENTROPY_BUILTINS and isinstance(n.func, ast.Name) and not common.stores_to(fi.node, d) and n.func.id not in fi.module.funcs:
                    out.append(Finding("entropy", fi, n, f"`{d}()` depends on the process (address / hash seed / environment)", f"{fi.fq}/entropy/{d}"))
                    continue
            elif isinstance(n, ast.Attribute) and isinstance(n.ctx, ast.Load):
                d = prog.dotted(fi.module, n)
            if d and d.startswith(ENTROPY_PREFIXES) and d.split(".")[0] in {v[0].split(".")[0] for v in fi.module.imports.values()} | {"os"}:
                head = d.split(".")[0]
                if head in fi.module.imports or any(v[0].split(".")[0] == head for v in fi.module.imports.values()):
                    out.append(Finding("entropy", fi, n, f"`{d}` is a source of non-determinism", f"{fi.fq}/entropy/{d}"))
    # de-duplicate nested attribute hits
    seen = set()
    res = []
    for f in out:
        k = (f.fn.fq, getattr(f.node, "lineno", 0), f.key)
        if k not in seen:
            seen.add(k)
            res.append(f)
    return res


def stdlib_sorts(path_hint, func_names, marker):
    """Does the stdlib source file of the repository's interpreter sort inside one of `func_names`?
    Pure text/AST inspection of the stdlib file; nothing is imported."""
    if not os.path.exists(path_hint):
        return None
    with open(path_hint, encoding="utf-8") as f:
        tree = ast.parse(f.read())
    for n in ast.walk(tree):
        if isinstance(n, ast.FunctionDef) and n.name in func_names:
            for c in ast.walk(n):
                if isinstance(c, ast.Call) and isinstance(c.func, ast.Attribute) and c.func.attr == "sort":
                    return True
                if isinstance(c, ast.Call) and isinstance(c.func, ast.Name) and c.func.id == "sorted":
                    return True
    _ = marker
    return False
