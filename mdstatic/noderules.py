"""Structural facts about the Node class (node.py) shared by several properties."""
from __future__ import annotations

import ast

from .core import norm_src
from .lin import Lin, lin_of_ast
from .model import need, own_nodes
from .rules import common


def check_node_truthiness(run, rule):
    """`if self.parent:` / `while node:` read a Node's truth value: it must be that of a plain object (always true), which holds
    only while the class defines neither __bool__ nor __len__ (a span-length __len__ makes zero-width nodes falsy)."""
    nm = run.prog.mod("node")
    bad = sorted(q.split(".", 1)[1] for q in nm.funcs if q in ("Node.__bool__", "Node.__len__"))
    if "Node.__bool__" in nm.funcs:
        body = [s_ for s_ in nm.funcs["Node.__bool__"].node.body if not (isinstance(s_, ast.Expr) and isinstance(s_.value, ast.Constant))]
        if len(body) == 1 and isinstance(body[0], ast.Return) and isinstance(body[0].value, ast.Constant) and body[0].value.value is True:
            bad = []    # an explicit `return True` takes precedence over any __len__
    cls = nm.classes.get("Node")
    bases = [norm_src(b) for b in getattr(cls, "bases", [])] if cls is not None else []
    run.ob(rule, "node.Node/truth-value-is-identity", not bad and not [b for b in bases if b != "object"], f"{nm.rel}:1",
           "a Node is always true: the parent tests in Node.original / make_label mean 'there is a parent', not 'the parent's span is non-empty'",
           f"Node defines {bad}: a node whose span (or length) is zero is falsy, so `if self.parent` takes the no-parent arm for its children"
           if bad else f"Node inherits from {bases}", mech="class protocol census")


def check_original(run, rule):
    """Node.original is parent.value[start:end] when a parent exists, else value."""
    check_node_truthiness(run, rule)
    nm = run.prog.mod("node")
    need("Node.original" in nm.funcs, "anchor: Node.original not found")
    fi = nm.funcs["Node.original"]
    slf = fi.params[0]
    is_prop = any(isinstance(d, ast.Name) and d.id == "property" for d in fi.decorators)
    run.ob(rule, "node.Node.original/is-property", is_prop, f"{nm.rel}:{fi.lineno}", "Node.original is a read-only property",
           "not decorated with @property: scan_node reads hit.original as an attribute", mech="decorator census")
    # every return of the property, with its reaching condition: the slice of the parent's value is returned exactly when there is
    # a parent, the node's own value exactly when there is none (any control-flow spelling: if/else either way round, IfExp)
    from . import guards as G
    HAS = ("atom", "truthy:SELF.parent")
    kinds = {"slice": [], "value": [], "other": []}

    def classify(v):
        if isinstance(v, ast.Subscript) and isinstance(v.slice, ast.Slice):
            lo, hi = v.slice.lower, v.slice.upper
            if norm_src(v.value) == "SELF.parent.value" and lo is not None and hi is not None and v.slice.step is None and \
                    norm_src(lo) == "SELF.start" and norm_src(hi) == "SELF.end":
                return "slice"
        if norm_src(v) == "SELF.value":
            return "value"
        return "other"
    az0 = G.Atomizer(rename={slf: "SELF"})
    isnone = az0.formula(common.spec_expr("SELF.parent is None"))
    assuming = G.f_and(G.f_or(G.f_not(HAS), G.f_not(isnone)), G.f_or(HAS, isnone))
    for n in own_nodes(fi.node):
        if isinstance(n, ast.Return) and n.value is not None:
            env = common.block_env(fi.body, n) or {}
            az = G.Atomizer(rename={slf: "SELF"}, subst=env)
            pc = G.reach(fi.body, n, az)
            if pc is None:
                continue
            v = az.inline(n.value)
            if isinstance(v, ast.IfExp):
                c = az.formula(v.test)
                kinds[classify(v.body)].append(G.f_and(pc, c))
                kinds[classify(v.orelse)].append(G.f_and(pc, G.f_not(c)))
            else:
                kinds[classify(v)].append(pc)
    f_slice = G.f_or(*kinds["slice"]) if kinds["slice"] else G.F
    f_value = G.f_or(*kinds["value"]) if kinds["value"] else G.F
    f_other = G.f_or(*kinds["other"]) if kinds["other"] else G.F
    no_other = not G.satisfiable(f_other) if kinds["other"] else True
    ok_slice = guard_ok = bool(kinds["slice"]) and G.equivalent(f_slice, HAS, assuming=assuming)[0] and no_other
    ok_else = bool(kinds["value"]) and G.equivalent(f_value, G.f_not(HAS), assuming=assuming)[0] and no_other
    run.ob(rule, "node.Node.original/slice", ok_slice and guard_ok, f"{nm.rel}:{fi.lineno}",
           "with a parent, original is parent.value[start:end]",
           "Node.original does not return self.parent.value[self.start:self.end] exactly when self.parent is set", mech="reaching conditions of the returns, by truth table")
    run.ob(rule, "node.Node.original/root", ok_else, f"{nm.rel}:{fi.lineno}", "without a parent, original is the node's own value",
           "Node.original does not return self.value exactly when there is no parent", mech="reaching conditions of the returns, by truth table")


def check_shift_nodes(run, rule):
    nm = run.prog.mod("node")
    need("shift_nodes" in nm.funcs, "anchor: node.shift_nodes not found")
    fi = nm.funcs["shift_nodes"]
    lst, off = fi.params[0], fi.params[1]
    loops = [n for n in fi.node.body if isinstance(n, ast.For) and common.is_name(n.iter, lst) and isinstance(n.target, ast.Name)]
    ok = False
    det = "no loop over the node list"
    if len(loops) == 1:
        v = loops[0].target.id
        eff = {}
        for n in ast.walk(loops[0]):
            if isinstance(n, ast.AugAssign) and isinstance(n.target, ast.Attribute) and common.is_name(n.target.value, v):
                lf = lin_of_ast(n.value, lambda x: Lin.sym(x.id) if isinstance(x, ast.Name) else None)
                k = lf.t.get(off, 0) if lf is not None and set(lf.t) <= {off} and lf.c == 0 else "?"
                if k != "?" and isinstance(n.op, ast.Sub):
                    k = -k
                eff[n.target.attr] = k
            elif isinstance(n, ast.Call) and isinstance(n.func, ast.Attribute) and n.func.attr == "shift" and common.is_name(n.func.value, v) \
                    and n.args and common.is_name(n.args[0], off):
                eff = {"start": 1, "end": 1}
        ok = eff == {"start": 1, "end": 1}
        det = f"effect per node: {eff}"
    rets = [n for n in own_nodes(fi.node) if isinstance(n, ast.Return)]
    ret_ok = bool(rets) and all(common.is_name(r.value, lst) for r in rets)
    run.ob(rule, "node.shift_nodes/both-ends", ok, f"{nm.rel}:{fi.lineno}", "shift_nodes adds the offset to start and end of every node", det,
           mech="effect summary")
    run.ob(rule, "node.shift_nodes/returns-list", ret_ok, f"{nm.rel}:{fi.lineno}", "shift_nodes returns the list it shifted",
           "callers extend the output with its result", mech="return-shape match")


def check_iter_preorder(run, rule):
    """Node.__iter__: `yield child` precedes `yield from <recursive>(child)` inside one loop over node.children."""
    nm = run.prog.mod("node")
    need("Node.__iter__" in nm.funcs, "anchor: Node.__iter__ not found")
    it = nm.funcs["Node.__iter__"]
    # the generator: nested function or the method itself
    gens = [f for q, f in nm.funcs.items() if q.startswith("Node.__iter__.")] or [it]
    g = gens[0]
    method_gen = None
    if g is it:
        # `return self._descendants()`: the generator is a private method of the class
        rets0 = [n for n in own_nodes(it.node) if isinstance(n, ast.Return)]
        if len(rets0) == 1 and isinstance(rets0[0].value, ast.Call) and isinstance(rets0[0].value.func, ast.Attribute) and \
                common.is_name(rets0[0].value.func.value, it.params[0]) and not rets0[0].value.args and f"Node.{rets0[0].value.func.attr}" in nm.funcs:
            g = nm.funcs[f"Node.{rets0[0].value.func.attr}"]
            method_gen = rets0[0].value.func.attr
    par = g.params[0]
    loops = [n for n in g.node.body if isinstance(n, ast.For) and common.is_attr(n.iter, par, "children") and isinstance(n.target, ast.Name)]
    ok_order = ok_rec = False
    det = f"no loop over {par}.children in the generator"
    if len(loops) == 1:
        lp = loops[0]
        ch = lp.target.id
        seq = []
        for st in lp.body:
            if isinstance(st, ast.Expr) and isinstance(st.value, ast.Yield) and common.is_name(st.value.value, ch):
                seq.append("yield")
            elif isinstance(st, ast.Expr) and isinstance(st.value, ast.YieldFrom):
                v = st.value.value
                rec = isinstance(v, ast.Call) and ((isinstance(v.func, ast.Name) and v.func.id == g.node.name) or
                                                   (isinstance(v.func, ast.Name) and v.func.id == "iter")) \
                    and v.args and common.is_name(v.args[0], ch)
                rec = rec or common.is_name(v, ch)   # `yield from child` uses child.__iter__
                rec = rec or (method_gen is not None and isinstance(v, ast.Call) and isinstance(v.func, ast.Attribute) and v.func.attr == method_gen and
                              common.is_name(v.func.value, ch) and not v.args)      # `yield from child._descendants()`
                seq.append("from" if rec else "from?")
            else:
                seq.append("other")
        ok_order = seq == ["yield", "from"]
        ok_rec = "from" in seq
        det = f"loop body is {seq}"
    run.ob(rule, "node.Node.__iter__/pre-order", ok_order and ok_rec, f"{nm.rel}:{g.lineno}",
           "iteration yields a child and then, recursively, that child's descendants, for each child in list order", det,
           mech="statement-order match in the generator")
    # __iter__ returns the generator applied to self (root excluded)
    rets = [n for n in own_nodes(it.node) if isinstance(n, ast.Return)]
    if g is not it and method_gen is None:
        okr = len(rets) == 1 and isinstance(rets[0].value, ast.Call) and common.is_name(rets[0].value.func, g.node.name) and \
            len(rets[0].value.args) == 1 and common.is_name(rets[0].value.args[0], it.params[0])
        run.ob(rule, "node.Node.__iter__/starts-at-self", okr, f"{nm.rel}:{it.lineno}", "iteration starts from the node itself",
               "Node.__iter__ does not return the generator over self", mech="return-shape match")


def check_init_pairing(run, rule):
    """Node.__init__: stores every parameter in the same-named slot; children passed in get parent = self."""
    nm = run.prog.mod("node")
    fi = nm.funcs["Node.__init__"]
    slf = fi.params[0]
    stores = {}
    for n in own_nodes(fi.node):
        if isinstance(n, ast.Assign) and len(n.targets) == 1 and isinstance(n.targets[0], ast.Attribute) and common.is_name(n.targets[0].value, slf):
            stores.setdefault(n.targets[0].attr, []).append(n.value)
    expect = {"type": fi.params[1], "value": "value", "obfuscation": "obfuscation", "start": "start", "end": "end", "parent": "parent"}
    for attr, p in expect.items():
        vals = stores.get(attr, [])
        ok = len(vals) == 1 and common.is_name(vals[0], p)
        run.ob(rule, f"node.Node.__init__/stores-{attr}", ok, f"{nm.rel}:{fi.lineno}", f"the constructor stores its `{p}` argument in .{attr}",
               f".{attr} is assigned {[norm_src(v) for v in vals]}", mech="store census")
    # children pairing
    ok_pair = False
    for n in own_nodes(fi.node):
        # the loop runs over the argument itself or over self.children (which holds the argument whenever it is non-empty)
        if isinstance(n, ast.For) and (common.is_name(n.iter, "children") or common.is_attr(n.iter, slf, "children")) and isinstance(n.target, ast.Name):
            for st in n.body:
                if isinstance(st, ast.Assign) and len(st.targets) == 1 and common.is_attr(st.targets[0], n.target.id, "parent") and common.is_name(st.value, slf):
                    ok_pair = True
    ch = stores.get("children", [])
    def _leaves(v):
        if isinstance(v, ast.IfExp):
            return _leaves(v.body) + _leaves(v.orelse)
        if isinstance(v, ast.BoolOp) and isinstance(v.op, ast.Or):
            return [x for y in v.values for x in _leaves(y)]
        return [v]
    leaves = [x for v in ch for x in _leaves(v)]
    ok_children = bool(leaves) and any(common.is_name(v, "children") for v in leaves) and any(isinstance(v, ast.List) and not v.elts for v in leaves) and \
        all(common.is_name(v, "children") or (isinstance(v, ast.List) and not v.elts) for v in leaves)
    run.ob(rule, "node.Node.__init__/children-parent-pairing", ok_pair, f"{nm.rel}:{fi.lineno}",
           "every child handed to the constructor gets parent = the new node", "no `child.parent = self` loop over the children argument",
           mech="store census")
    run.ob(rule, "node.Node.__init__/children-fresh-list", ok_children, f"{nm.rel}:{fi.lineno}",
           "children is the supplied list or a fresh empty list (never a shared default)",
           f".children assigned {[norm_src(v) for v in ch]}", mech="store census")
