"""Regular-language abstraction of byte-string terms.

The abstract interpreter names every byte string by a provenance term (group of a match, piece of a split, strip / slice /
lower of another term ...).  `language(term, ...)` turns such a term into a DFA over-approximating the set of byte strings the
term can denote, using closure constructions on the automaton of the match group it starts from:

    group(m, k)            the group language of the pattern (rx.group_language; group 0: the whole pattern)
    piece(split, X) sep c  every maximal c-free infix between separators of a word of L(X)
    strip/lstrip/rstrip X  words of L(X) with leading/trailing ASCII whitespace removed
    slice X a b            constant slices X[a:], X[:-b], X[a:-b] (a, b >= 0)
    lower/upper X          image under the ASCII case map
    decode X               identity (the conversion itself is a separate obligation)

Refinements by a dominating `startswith(prefix)` test (true or false) are intersections.  Everything is exact for the term
shapes above; an unknown shape yields None (no language known) and the caller must not discharge anything from it."""
from __future__ import annotations

from . import rx

WS = rx.mask_of(b" \t\n\r\x0b\x0c")
ALL = (1 << 256) - 1


def _subset(d: rx.DFA, starts, accepting, allowed=ALL, remap=None) -> rx.DFA:
    """Determinise the NFA whose states are those of d, with the given start set / accepting set, keeping only bytes in
    `allowed`; remap(mask) -> mask relabels transitions (case mapping)."""
    live = rx.trim(d)
    s0 = frozenset(s for s in starts if s in live)
    ids = {s0: 0}
    trans, acc = [], []
    work = [s0]
    while work:
        S = work.pop()
        i = ids[S]
        while len(trans) <= i:
            trans.append([])
            acc.append(False)
        acc[i] = any(s in accepting for s in S)
        edges = []
        for s in S:
            for m, t in d.trans[s]:
                if t in live:
                    m2 = m & allowed
                    if remap is not None and m2:
                        m2 = remap(m2)
                    if m2:
                        edges.append((m2, t))
        if not edges:
            continue
        atoms = rx.atoms_of({m for m, _t in edges})
        row = {}
        for a in atoms:
            T = frozenset(t for m, t in edges if m & a)
            if T:
                if T not in ids:
                    ids[T] = len(ids)
                    work.append(T)
                row[ids[T]] = row.get(ids[T], 0) | a
        trans[i] = [(m, t) for t, m in row.items()]
    return rx.DFA(trans, acc)


def _closure(d, S, mask, forward=True):
    """states reachable from S (forward) / reaching S (backward) through bytes of `mask` only."""
    live = rx.trim(d)
    if forward:
        out = set(S)
        st = list(S)
        while st:
            s = st.pop()
            for m, t in d.trans[s]:
                if m & mask and t in live and t not in out:
                    out.add(t)
                    st.append(t)
        return out
    rev = {}
    for s in live:
        for m, t in d.trans[s]:
            if m & mask and t in live:
                rev.setdefault(t, set()).add(s)
    out = set(S)
    st = list(S)
    while st:
        s = st.pop()
        for p in rev.get(s, ()):
            if p not in out:
                out.add(p)
                st.append(p)
    return out


def pieces(d: rx.DFA, sep: bytes, nonlast=False):
    """language of the elements of w.split(sep) for w in L(d) (nonlast: of w.split(sep)[:-1]); single-byte separators only."""
    if len(sep) != 1:
        return None
    c = 1 << sep[0]
    live = rx.trim(d)
    if 0 not in live:
        return d
    starts = {0}
    accepting = set() if nonlast else {s for s in live if d.acc[s]}
    for s in live:
        for m, t in d.trans[s]:
            if m & c and t in live:
                starts.add(t)         # a piece may begin right after a separator
                accepting.add(s)      # ... and end right before one
    return _subset(d, starts, accepting, allowed=ALL & ~c)


def replace_const(d: rx.DFA, old: bytes, new: bytes):
    """image of L(d) under w.replace(old, new).  Decided only where it is easy to be exact: `old` is a literal whose first byte
    occurs in words of L(d) only as the start of an occurrence of `old` and nowhere else inside `old` (so occurrences neither
    overlap nor are ambiguous): the image is then computed by walking `old` as one macro-step.  Anything else -> None."""
    if not old or not isinstance(new, bytes):
        return None
    c0 = 1 << old[0]
    if any(b == old[0] for b in old[1:]):
        return None
    live = rx.trim(d)
    if 0 not in live:
        return d
    # every live transition on old[0] must be followed by the rest of old
    macro = {}
    for s in live:
        for m, t in d.trans[s]:
            if m & c0 and t in live:
                cur = t
                for b in old[1:]:
                    nxt = None
                    outs = [(m2, t2) for m2, t2 in d.trans[cur] if t2 in live]
                    if len(outs) != 1 or outs[0][0] != (1 << b):
                        return None
                    nxt = outs[0][1]
                    cur = nxt
                macro.setdefault(s, set()).add(cur)
    # NFA over d's states: ordinary transitions except on old[0]; macro steps emit `new`
    n = rx.NFA()
    ids = {}

    def nid(q):
        if q not in ids:
            ids[q] = n.new()
        return ids[q]
    start = n.new()
    accept = n.new()
    n.eps[start].append((nid(0), None))
    for s in live:
        a = nid(s)
        if d.acc[s]:
            n.eps[a].append((accept, None))
        for m, t in d.trans[s]:
            if t in live and m & ~c0:
                n.tr[a].append((m & ~c0, nid(t)))
        for tgt in macro.get(s, ()):
            cur = a
            for b in new:
                nx = n.new()
                n.tr[cur].append((1 << b, nx))
                cur = nx
            n.eps[cur].append((nid(tgt), None))
    return rx.determinize(n, start, accept)


def strip(d: rx.DFA, left=True, right=True, chars=WS):
    live = rx.trim(d)
    if 0 not in live:
        return d
    starts = _closure(d, {0}, chars) if left else {0}
    acc0 = {s for s in live if d.acc[s]}
    accepting = _closure(d, acc0, chars, forward=False) if right else acc0
    out = _subset(d, starts, accepting)
    # the result neither starts (left) nor ends (right) with a stripped character
    cls = b"[" + b"".join(b"\\x%02x" % i for i in range(256) if chars >> i & 1) + b"]"
    if left:
        out = rx.product(out, rx.complement(rx.dfa_of(b"(?s)" + cls + b".*")), lambda x, y: x and y)
    if right:
        out = rx.product(out, rx.complement(rx.dfa_of(b"(?s).*" + cls)), lambda x, y: x and y)
    return out


def slice_const(d: rx.DFA, a: int, b: int):
    """L[a:len-b] for constants a, b >= 0 (words shorter than a+b give the empty word, as Python slicing does when a < len)."""
    live = rx.trim(d)
    if 0 not in live:
        return d
    starts = {0}
    for _ in range(a):
        starts = {t for s in starts for _m, t in d.trans[s] if t in live}
    accepting = {s for s in live if d.acc[s]}
    rev = {}
    for s in live:
        for _m, t in d.trans[s]:
            if t in live:
                rev.setdefault(t, set()).add(s)
    for _ in range(b):
        accepting = {p for s in accepting for p in rev.get(s, ())}
    out = _subset(d, starts, accepting)
    if rx.minlen(d) is not None and rx.minlen(d) < a + b:
        # short words slice to b"": add the empty word
        out = rx.product(out, rx.dfa_of(b""), lambda x, y: x or y, complete=True)
    return out


def casemap(d: rx.DFA, lower=True):
    lo = rx.mask_of(bytes(range(97, 123)))
    up = rx.mask_of(bytes(range(65, 91)))

    def remap(m):
        if lower:
            return (m & ~up) | ((m & up) << 32)
        return (m & ~lo) | ((m & lo) >> 32)
    return _subset(d, {0}, {s for s in rx.trim(d) if d.acc[s]}, remap=remap)


def with_prefix(d: rx.DFA, prefixes, truth: bool, icase=False):
    alt = b"|".join(b"".join(b"\\x%02x" % c for c in p) for p in prefixes)
    pd = rx.dfa_of((b"(?si)" if icase else b"(?s)") + b"(?:" + alt + b").*")
    if not truth:
        pd = rx.complement(pd)
    return rx.product(d, pd, lambda x, y: x and y)


_INT = {}


def int_grammar(base: int) -> rx.DFA:
    """texts int(text, base) accepts (ASCII; optional sign, surrounding whitespace, single underscores between digits)."""
    if base in _INT:
        return _INT[base]
    ws = rb"[ \t\n\r\x0b\x0c]*"

    def digits(cls):
        return cls + rb"(?:_?" + cls + rb")*"
    if base == 0:
        body = (rb"(?:0[xX]_?" + digits(rb"[0-9a-fA-F]") + rb"|0[oO]_?" + digits(rb"[0-7]") + rb"|0[bB]_?" + digits(rb"[01]") +
                rb"|[1-9](?:_?[0-9])*|0(?:_?0)*)")
    else:
        ds = b"0123456789abcdefghijklmnopqrstuvwxyz"[:base]
        cls = b"[" + ds + ds.upper() + b"]"
        pre = {16: rb"(?:0[xX]_?)?", 8: rb"(?:0[oO]_?)?", 2: rb"(?:0[bB]_?)?"}.get(base, b"")
        body = pre + digits(cls)
    d = rx.dfa_of(ws + rb"[+-]?" + body + ws)
    _INT[base] = d
    return d


def _ci(x):
    """constant int of a slice bound (int, constant linear form) or None"""
    if x is None or isinstance(x, int):
        return x
    if hasattr(x, "is_const") and x.is_const():
        return int(x.c)
    return "?"


def language(term, matches, piece_sep=None, refine=None):
    """DFA of a provenance term, or None.  refine(sub_term, dfa) -> dfa is applied to every sub-term's language (path knowledge)."""
    d = _language(term, matches, piece_sep, refine)
    if d is not None and refine is not None:
        d = refine(term, d)
    return d


def _language(term, matches, piece_sep, refine):
    if not isinstance(term, tuple) or not term:
        return None
    op = term[0]
    rec = lambda t: language(t, matches, piece_sep, refine)   # noqa: E731
    try:
        if op == "group":
            info = matches.get(term[1])
            if not info or info.get("pattern") is None:
                return None
            pat = info["pattern"]
            return rx.group_language(pat, term[2]).dfa if term[2] else rx.compile_pattern(pat, "any", "any").dfa
        if op == "const" and isinstance(term[1], bytes):
            return rx.literal_dfa([term[1]])
        if op == "decode":
            return rec(term[1])
        if op in ("strip", "lstrip", "rstrip"):
            inner = rec(term[1])
            if inner is None or len(term) > 2:
                return None
            return strip(inner, left=op != "rstrip", right=op != "lstrip")
        if op in ("lower", "upper"):
            inner = rec(term[1])
            return None if inner is None else casemap(inner, lower=op == "lower")
        if op == "piece" and term[1] == "split":
            inner = rec(term[2])
            sep = (piece_sep or {}).get(repr(term[2]))
            if inner is None or not isinstance(sep, bytes) or term[3:] not in ((), ("nonlast",)):
                return None
            return pieces(inner, sep, nonlast=term[3:] == ("nonlast",))
        if op == "replace" and len(term) == 4:
            inner = rec(term[1])
            old, new = term[2], term[3]
            if inner is None or not (isinstance(old, tuple) and old[:1] == ("const",) and isinstance(new, tuple) and new[:1] == ("const",)):
                return None
            return replace_const(inner, old[1], new[1])
        if op == "slice" and len(term) == 4:
            inner = rec(term[1])
            a, b = _ci(term[2]), _ci(term[3])
            if inner is None or a == "?" or b == "?":
                return None
            if (a is None or a >= 0) and b is None:
                return slice_const(inner, a or 0, 0)
            if (a is None or a >= 0) and b < 0:
                return slice_const(inner, a or 0, -b)
            return None
    except rx.RxError:
        return None
    return None
