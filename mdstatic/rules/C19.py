"""C19 - flattening substitutes decoded values for their original spans and nothing else.

E6-lite: an abstract interpretation of the substitution loop of Node.flatten (and query.squash_replace) that
records, per path through the loop body, the reaching condition, the sequence of emitted segments as symbolic
expressions over the roles (SELF value, CHild, OFFSET, CHILDFLAT = the child's own flattened value) and the
final OFFSET. The path table is compared, model by model, with the tiling rule transcribed from the statement."""
from __future__ import annotations

import ast

from .. import guards as G
from ..core import norm_src
from ..model import need, own_nodes
from . import common

EXPLANATION = (
    "Abstract interpretation of the substitution loop of Node.flatten and query.squash_replace: for every truth "
    "assignment of (child starts before the last substituted end, child's flattened value differs from the text it "
    "covers, child's type ends in 'string') exactly one path is taken and its emitted segments and OFFSET update are "
    "the ones the tiling rule prescribes (raw slice value[OFFSET:child.start], then the child's flattened value, quoted "
    "for string types, then OFFSET := child.end; otherwise nothing); the tail value[OFFSET:] is emitted once after the "
    "loop and the result is the concatenation in emission order. Byte equality with a reference on all trees is not decided."
)
TRUSTED = ["bytes slicing / b''.join / list.append semantics"]


class Path:
    def __init__(self, env, out, pc):
        self.env = env
        self.out = out
        self.pc = pc
        self.exit = "fall"


def _interp(stmts, paths, ctx):
    for st in stmts:
        nxt = []
        for p in paths:
            if p.exit != "fall":
                nxt.append(p)
                continue
            nxt += _step(st, p, ctx)
        paths = nxt
    return paths


def _inl(e, p, ctx):
    az = G.Atomizer(rename=ctx["rename"], subst=p.env)
    e2 = az.inline(e)
    # recursive flatten of the child -> CHILDFLAT
    class Tr(ast.NodeTransformer):
        def visit_Call(self, n):
            self.generic_visit(n)
            if ctx["is_rec"](n):
                return ast.Name(id="CHILDFLAT", ctx=ast.Load())
            return n

        def visit_Name(self, n):
            # a module-level bytes constant (a named quote character) reads as its value
            fold = ctx.get("fold")
            if fold is not None and isinstance(n.ctx, ast.Load) and n.id not in ctx["rename"].values() and n.id != "CHILDFLAT":
                v = fold(n)
                if isinstance(v, bytes):
                    return ast.Constant(value=v)
            return n
    return Tr().visit(e2)


def _cases(e, az):
    """[(condition, expression)] of a conditional expression (nested ones too)"""
    if isinstance(e, ast.IfExp):
        c = az.formula(e.test)
        return [(G.f_and(c, c2), x) for c2, x in _cases(e.body, az)] + [(G.f_and(G.f_not(c), c2), x) for c2, x in _cases(e.orelse, az)]
    return [(G.T, e)]


def _step(st, p, ctx):
    if isinstance(st, ast.If):
        az = G.Atomizer(is_int=ctx["is_int"])
        c = az.formula(_inl(st.test, p, ctx))
        a = Path(dict(p.env), list(p.out), G.f_and(p.pc, c))
        b = Path(dict(p.env), list(p.out), G.f_and(p.pc, G.f_not(c)))
        return _interp(st.body, [a], ctx) + _interp(st.orelse, [b], ctx)
    if isinstance(st, ast.Continue):
        p.exit = "continue"
        return [p]
    if isinstance(st, (ast.Break, ast.Return)):
        p.exit = "break"
        return [p]
    if isinstance(st, ast.Assign) and len(st.targets) == 1 and isinstance(st.targets[0], ast.Name):
        inl = _inl(st.value, p, ctx)
        if isinstance(inl, ast.IfExp):
            az = G.Atomizer(is_int=ctx["is_int"])
            res = []
            for c, x in _cases(inl, az):
                env = dict(p.env)
                env[st.targets[0].id] = x
                res.append(Path(env, list(p.out), G.f_and(p.pc, c)))
            return res
        p.env[st.targets[0].id] = inl
        return [p]
    if isinstance(st, ast.Expr) and isinstance(st.value, ast.Call) and isinstance(st.value.func, ast.Attribute) and \
            st.value.func.attr in ("append", "extend") and norm_src(st.value.func.value) == ctx["OUT"]:
        arg = st.value.args[0]
        if st.value.func.attr == "append":
            inl = _inl(arg, p, ctx)
            if isinstance(inl, ast.IfExp):
                # out.append(a if c else b): one path per arm
                az = G.Atomizer(is_int=ctx["is_int"])
                res = []
                for c, x in _cases(inl, az):
                    q = Path(dict(p.env), list(p.out) + [norm_src(x)], G.f_and(p.pc, c))
                    res.append(q)
                return res
            p.out.append(norm_src(inl))
        elif isinstance(arg, (ast.List, ast.Tuple)):
            for x in arg.elts:
                p.out.append(norm_src(_inl(x, p, ctx)))
        else:
            p.out.append("?extend " + norm_src(arg))
        return [p]
    if isinstance(st, ast.AugAssign) and isinstance(st.op, ast.Add) and norm_src(st.target) == ctx["OUT"] and isinstance(st.value, (ast.List, ast.Tuple)):
        for x in st.value.elts:
            p.out.append(norm_src(_inl(x, p, ctx)))
        return [p]
    if isinstance(st, (ast.Pass,)) or (isinstance(st, ast.Expr) and isinstance(st.value, ast.Constant)):
        return [p]
    p.out.append("?stmt " + common.short_src(st, 60))
    return [p]


def analyse(run, fi, kind):
    """kind: 'flatten' (method; value = SELF.value, children = SELF.children, skip rule applies) or
    'squash' (function(data, tree); recursion squash_replace(child.value, child.children); no skip rule)."""
    prog = run.prog
    mod = fi.module
    w = lambda n: f"{mod.rel}:{getattr(n, 'lineno', fi.lineno)}"   # noqa: E731
    key = fi.fq
    body = [s for s in fi.node.body if not (isinstance(s, ast.Expr) and isinstance(s.value, ast.Constant))]
    loops = [s for s in body if isinstance(s, ast.For)]
    need(len(loops) == 1, f"anchor: {fi.fq} has one substitution loop")
    lp = loops[0]
    need(isinstance(lp.target, ast.Name), "anchor: loop variable")
    CH = lp.target.id
    if kind == "flatten":
        SELF = fi.params[0]
        value_src = f"{SELF}.value"
        iter_ok = common.is_attr(lp.iter, SELF, "children")

        def is_rec(n):
            return isinstance(n.func, ast.Attribute) and n.func.attr == "flatten" and common.is_name(n.func.value, "CH") and not n.args
    else:
        DATA, TREE = fi.params[0], fi.params[1]
        value_src = DATA
        iter_ok = common.is_name(lp.iter, TREE)

        def is_rec(n):
            return isinstance(n.func, ast.Name) and n.func.id == fi.node.name and len(n.args) == 2 and \
                norm_src(n.args[0]) == "CH.value" and norm_src(n.args[1]) == "CH.children"
    run.ob("R-tiling", f"{key}/iterates-children-in-order", iter_ok, w(lp), "children are taken left to right in list order",
           f"loop iterates `{norm_src(lp.iter)}`", mech="loop-shape match")
    # OFFSET / OUT roles: locals initialised to 0 / [] before the loop
    pre = body[: body.index(lp)]
    OFFSET = OUT = None
    for st in pre:
        tgt = val = None
        if isinstance(st, ast.Assign) and len(st.targets) == 1 and isinstance(st.targets[0], ast.Name):
            tgt, val = st.targets[0].id, st.value
        elif isinstance(st, ast.AnnAssign) and isinstance(st.target, ast.Name) and st.value is not None:
            tgt, val = st.target.id, st.value
        if tgt is not None:
            if isinstance(val, ast.Constant) and val.value == 0 and not isinstance(val.value, bool):
                OFFSET = tgt
            if (isinstance(val, ast.List) and not val.elts) or (isinstance(val, ast.Call) and common.is_name(val.func, "list") and not val.args):
                OUT = tgt
    need(OFFSET and OUT, f"anchor: {fi.fq} initialises an offset (0) and an output list ([]) before the loop")
    rename = {CH: "CH", OFFSET: "OFFSET"}
    val_rw = [(value_src, "VALUE")]

    def is_int(e):
        s = norm_src(e)
        return "OFFSET" in s or ".start" in s or ".end" in s
    ctx = dict(rename=rename, OUT=OUT, is_rec=is_rec, is_int=is_int, fold=lambda n: prog.try_fold(mod, n))
    paths = _interp(lp.body, [Path({}, [], G.T)], ctx)

    def canon(s):
        for a, b in val_rw:
            s = s.replace(a, b)
        return s
    # spec atoms
    azs = G.Atomizer(is_int=is_int)
    SKIP = azs.formula(common.spec_expr("CH.start < OFFSET"))
    CHANGED = azs.formula(common.spec_expr(f"CHILDFLAT != {value_src}[CH.start:CH.end]"))
    STRING = azs.formula(common.spec_expr("CH.type.endswith('string')"))
    raw = canon(f"{value_src}[OFFSET:CH.start]")
    table = []
    for skip in ((True, False) if kind == "flatten" else (False,)):
        for changed in (True, False):
            for string in (True, False):
                if skip or not changed:
                    exp = ([], "OFFSET")
                elif string:
                    exp = ([raw, "b'\"' + CHILDFLAT + b'\"'"], "CH.end")
                else:
                    exp = ([raw, "CHILDFLAT"], "CH.end")
                table.append(((skip, changed, string), exp))
    all_atoms = G.f_and(G.f_or(SKIP, G.f_not(SKIP)), G.f_or(CHANGED, G.f_not(CHANGED)), G.f_or(STRING, G.f_not(STRING)))
    n_models = 0
    for (skip, changed, string), (exp_out, exp_off) in table:
        cond = G.f_and(SKIP if skip else G.f_not(SKIP), CHANGED if changed else G.f_not(CHANGED), STRING if string else G.f_not(STRING))
        taken = []
        for p in paths:
            # path is taken under cond if pc & cond satisfiable for all models of cond: require cond => pc or cond => not pc
            imp, _ = G.implies(cond, p.pc)
            sat = G.satisfiable(G.f_and(cond, p.pc))
            if sat:
                taken.append((p, imp))
        label = f"{'skip' if skip else 'noskip'}/{'changed' if changed else 'unchanged'}/{'string' if string else 'plain'}"
        ok = len(taken) == 1 and taken[0][1]
        det = ""
        if ok:
            p = taken[0][0]
            got_out = [canon(x) for x in p.out]
            off = p.env.get(OFFSET)
            got_off = norm_src(off) if off is not None else "OFFSET"
            ok = got_out == exp_out and got_off == exp_off and p.exit in ("fall", "continue")
            det = f"emits {got_out} then OFFSET = {got_off}; the tiling rule needs {exp_out} then OFFSET = {exp_off}"
        else:
            det = f"{len(taken)} path(s) possible under this case (the loop's tests do not decide it): " + "; ".join(G.show(p.pc) for p, _ in taken)[:300]
        n_models += 1
        run.ob("R-tiling", f"{key}/case/{label}", ok, w(lp),
               f"case {label}: emitted segments and OFFSET update follow the tiling rule", det, mech="path table vs tiling rule (E6-lite)")
    _ = all_atoms
    # tail and result
    post = body[body.index(lp) + 1:]
    tail_ok = len(post) == 2 and isinstance(post[0], ast.Expr) and isinstance(post[0].value, ast.Call) and \
        norm_src(post[0].value.func) == f"{OUT}.append" and canon(norm_src(G.Atomizer(rename=rename).inline(post[0].value.args[0]))) == "VALUE[OFFSET:]"
    ret_ok = len(post) == 2 and isinstance(post[1], ast.Return) and norm_src(post[1].value) == f"b''.join({OUT})"
    run.ob("R-tiling", f"{key}/tail", tail_ok, w(post[0]) if post else w(lp), "after the loop the remaining text value[OFFSET:] is emitted exactly once",
           "; ".join(common.short_src(s, 60) for s in post), mech="statement-shape match")
    run.ob("R-tiling", f"{key}/result-is-concatenation", ret_ok, w(post[-1]) if post else w(lp), "the result is the concatenation of the emitted segments in order",
           "", mech="return-shape match")
    # initial values inside the activation (no carried state)
    run.ob("R-tiling", f"{key}/fresh-state", OFFSET not in fi.params and OUT not in fi.params, w(fi.node), "offset and output start at 0 and [] for every node",
           "", mech="store census")
    return n_models


def check(run):
    prog = run.prog
    fl = prog.fn("node.Node.flatten")
    sq = prog.fn("query.squash_replace")
    n = analyse(run, fl, "flatten")
    n += analyse(run, sq, "squash")
    run.note("cases", n)
    run.floor("R-tiling", 20)
    # the CLI's --replace goes through squash_replace(data, tree.children) (C20-R4); string_summary not involved
    mn = prog.fn("__main__.main")
    calls = [c for c in own_nodes(mn.node) if isinstance(c, ast.Call) and prog.callee(mn.module, mn, c).func is sq]
    run.ob("R-cli-replace", "__main__.main/uses-squash_replace", len(calls) == 1, f"{mn.module.rel}:{mn.lineno}",
           "--replace output comes from squash_replace", "", mech="call census")
