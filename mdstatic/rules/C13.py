"""C13 - base64, hexadecimal and XOR decodings are bit-exact (structural part: provenance, group roles, acceptance)."""
from __future__ import annotations

import ast

from spec import grammars as GR

from .. import guards as G
from .. import prov, rx, sites
from ..core import norm_src
from ..model import need, own_nodes
from . import common

EXPLANATION = (
    "Static provenance analysis: for every hit any shipped decoder returns with a base64 / hexadecimal label, the abstract "
    "interpreter's value term must be the stdlib conversion (binascii.a2b_base64 / unhexlify) applied to a group of the very match "
    "whose whole span is the node's span (after only the documented removals for bare base64), and conversely every such conversion "
    "carries the label; the payload group's language is checked against the base64 / hex alphabets with the regex engine; acceptance "
    "thresholds are read off the automata (min length 22, 10 same-case pairs, > 500 byte-array elements) and the rejection guards of "
    "find_base64 are compared by truth table with the statement's rules; documented call forms are shown to be contained in the "
    "shipped patterns; apply_xor_key / dexor are matched structurally (b ^ key over all of data, label from the same key, child "
    "span (0, len(data))). Bit-exactness of binascii itself is trusted; which key xortool guesses is not decided."
)
TRUSTED = ["binascii.a2b_base64 / unhexlify implement RFC 4648 / hex decoding", "bytes(generator) preserves order and count"]

B64_LABELS = {"encoding.base64"}
HEX_LABELS = {"decoded.hexadecimal", "encoding.hexidecimal"}
ALLOWED_REMOVALS = {b"\n", b"\r", b"<\x00  \x00"}


def check(run):
    prog = run.prog
    from . import common as _common
    _common.fresh_hits(run, "C13")
    _common.no_unsafe_cuts(run, "C13", "R0-no-cut", floor=3)
    A = sites.analysis(prog)
    B64 = rx.mask_of(GR.B64_ALPHABET)
    PAD = rx.mask_of(b"=")
    HEXM = rx.mask_of(GR.HEX_DIGITS)
    decs = prog.decorated_decoders()
    n_b64 = n_hex = 0
    seen_keys = set()
    for fi in decs:
        hits, interp, _n = A.run(fi)
        for h in hits:
            obf = prov.const_field(h, "obfuscation")
            term = prov.value_term(h)
            where = f"{prog.fn(h.site_func).module.rel}:{h.site.lineno}"
            conv = term[0] if isinstance(term, tuple) else None
            is_b64 = conv == "a2b_base64"
            is_hex = conv == "unhexlify"
            if obf in B64_LABELS or obf in HEX_LABELS or is_b64 or is_hex:
                key = f"{fi.fq}/{h.key()}"
                want = "a2b_base64" if (obf in B64_LABELS or (is_b64 and obf not in HEX_LABELS)) else "unhexlify"
                # label <-> conversion agreement
                ok_label = (want == "a2b_base64" and is_b64 and obf in B64_LABELS) or (want == "unhexlify" and is_hex and obf in HEX_LABELS)
                if (key, "label") not in seen_keys or not ok_label:
                    seen_keys.add((key, "label"))
                    run.ob("R1-provenance", f"{key}/label-conversion-agreement", ok_label, where,
                           f"a node labelled {obf!r} holds the {want} conversion of the text it replaced (and the conversion carries the label)",
                           f"value is {prov.canon_mid(fmt(term))}, label {obf!r}", mech="provenance term from abstract interpretation")
                if not (is_b64 or is_hex):
                    continue
                n_b64 += is_b64
                n_hex += is_hex
                inner, ops = prov.strip_ops(term[1], {"replace", "re.sub"})
                sp = prov.span_of(h, interp)
                ok_src = isinstance(inner, tuple) and inner[0] == "group" and sp[0] == "match" and inner[1] == sp[1] and sp[2] == 0
                if (key, "src") not in seen_keys or not ok_src:
                    seen_keys.add((key, "src"))
                    run.ob("R1-provenance", f"{key}/same-match-whole-span", ok_src, where,
                           "the converted text is a group of the match whose whole span (group 0) is the node's span",
                           f"value {prov.canon_mid(fmt(term))}, span {prov.canon_mid(str(sp))}", mech="provenance term vs span linear forms")
                # removals are the documented ones
                bad_ops = []
                for op in ops:
                    if op[0] == "replace":
                        old, new = op[2], op[3]
                        if not (new == ("const", b"") and isinstance(old, tuple) and old[0] == "const" and old[1] in ALLOWED_REMOVALS):
                            bad_ops.append(fmt(op)[:60])
                    elif op[0] == "re.sub":
                        pat, repl = op[1], op[2]
                        okp = repl == ("const", b"") and pat is not None and rx.included(rx.dfa_of(pat), rx.dfa_of(rb"&#(?:[xX][0-9a-fA-F]{1,4}|[0-9]{1,4});"))
                        if not okp:
                            bad_ops.append(fmt(op)[:60])
                if ops and ((key, "ops") not in seen_keys or bad_ops):
                    seen_keys.add((key, "ops"))
                    run.ob("R1-provenance", f"{key}/removals", not bad_ops and (inner[2] == 0 if ok_src else True), where,
                           "before decoding only line breaks, their HTML escapes and the UTF-16 line-wrap marker are removed from the match",
                           f"other edits: {bad_ops}", mech="provenance term")
                # R2 group role: alphabet of the payload group
                if ok_src and inner[2] != 0:
                    pat = interp.matches[inner[1]]["pattern"]
                    g = rx.group_language(pat, inner[2])
                    alpha = rx.alphabet(g.dfa)
                    limit = (B64 | PAD) if is_b64 else HEXM
                    okg = alpha & ~limit == 0
                    if (key, "alpha") not in seen_keys or not okg:
                        seen_keys.add((key, "alpha"))
                        run.ob("R2-group-role", f"{key}/payload-group-alphabet", okg, where,
                               f"group {inner[2]} (the converted group) holds only {'base64' if is_b64 else 'hex'} characters",
                               f"group {inner[2]} admits {rx.describe_mask(alpha & ~limit)}", mech="regex automaton: alphabet of the group language")
    need(n_b64 >= 4 and n_hex >= 2, f"anchor: expected base64 / hex conversions in the decoders, found {n_b64}/{n_hex}")
    run.floor("R1-provenance", 12)
    run.floor("R2-group-role", 4)

    # ------------------------------------------------------------------ R3 acceptance (regex facts)
    bm = prog.mod("decoders.base64")
    hm = prog.mod("decoders.hex")
    pm = prog.mod("decoders.powershell")
    b64re = prog.const(bm, "BASE64_RE")
    d = rx.dfa_of(b64re)
    run.ob("R3-acceptance", "decoders.base64.BASE64_RE/minlen-22", rx.minlen(d) == 22, f"{bm.rel}:1", "the bare base64 pattern accepts no text shorter than 22 characters "
           "and some text of exactly 22", f"minimum accepted length is {rx.minlen(d)}", mech="shortest path in the DFA")
    ok, w = rx.included(rx.dfa_of(GR.B64_BARE), d, witness=True)
    run.ob("R3-acceptance", "decoders.base64.BASE64_RE/contains-documented", ok, f"{bm.rel}:1",
           "every unbroken base64 text of >= 22 characters (optional padding) is matched as a whole", f"not matched: {w!r}", mech="language containment")
    hexre = prog.const(hm, "HEX_RE")
    eq = rx.equal(rx.dfa_of(hexre), rx.dfa_of(GR.HEX_RUN))
    run.ob("R3-acceptance", "decoders.hex.HEX_RE/same-case-pairs", eq, f"{hm.rel}:1", "the hex pattern is exactly: >= 10 lower-case pairs or >= 10 upper-case pairs",
           "language differs from (?:[0-9a-f]{2}){10,}|(?:[0-9A-F]{2}){10,}", mech="language equality")
    # leftmost-first alternation: the alternative tried first wins as soon as it matches a PREFIX, so a documented unit of one kind
    # must not have a prefix that an earlier alternative accepts (digits belong to both hex alphabets).  Units are taken followed
    # by a neutral delimiter (a space); look-aheads at the start of an alternative are evaluated on that text.
    oa = rx.ordered_alternatives(hexre)
    units = {"lower-case run": rb"(?:[0-9a-f]{2}){10,}", "upper-case run": rb"(?:[0-9A-F]{2}){10,}"}
    if oa is not None:
        alts, fl_ = oa
        S_, W_ = [], []
        for la, body in alts:
            bd = rx.compile_tree(body, fl_).dfa
            starts = rx.quotient_byte(rx.concat_sigma_star(bd), 0x20)          # the body matches a prefix of w + ' '
            whole = bd
            if la is not None:
                lad = rx.quotient_byte(rx.concat_sigma_star(rx.compile_tree(la, fl_).dfa), 0x20)
                starts = rx.product(starts, lad, lambda x, y: x and y)
                whole = rx.product(whole, lad, lambda x, y: x and y)
            S_.append(starts)
            W_.append(whole)
        for uname, upat in units.items():
            U = rx.dfa_of(upat)
            wit = None
            for i in range(len(alts)):
                v = rx.product(U, S_[i], lambda x, y: x and y)
                v = rx.product(v, rx.complement(W_[i]), lambda x, y: x and y)
                for j in range(i):
                    v = rx.product(v, rx.complement(S_[j]), lambda x, y: x and y)
                if not rx.is_empty(v):
                    _ok, w_ = rx.included(v, rx.DFA([[]], [False]), witness=True)
                    wit = (i + 1, w_)
                    break
            run.ob("R3-acceptance", f"decoders.hex.HEX_RE/unit-matched-whole/{uname}", wit is None, f"{hm.rel}:1",
                   f"a {uname} of >= 10 hex pairs between neutral delimiters is matched as a whole: no alternative tried earlier accepts a mere prefix of it",
                   f"alternative #{wit[0]} wins on a prefix of {wit[1]!r} (it is tried first and digits belong to both alphabets): the run is cut short" if wit else "",
                   mech="ordered-alternation analysis: prefix languages of the alternatives in priority order")
    else:
        run.ob("R3-acceptance", "decoders.hex.HEX_RE/unit-matched-whole", False, f"{hm.rel}:1",
               "the hex pattern is one alternation of the two same-case runs", "HEX_RE is not a single alternation: priority analysis not applicable", mech="regex parse tree")
    psre = prog.const(pm, "POWERSHELL_BYTES_RE")
    dps = rx.dfa_of(psre)
    lower = rx.dfa_of(rb"(?:" + GR.PS_BYTE + rb",\s*){500,}" + GR.PS_BYTE)
    upper = rx.dfa_of(rb"(?i)(?:" + GR.PS_BYTE + rb",\s*){500,}" + GR.PS_BYTE)
    okc, wt = rx.included(lower, dps, witness=True)
    run.ob("R3-acceptance", "decoders.powershell.POWERSHELL_BYTES_RE/contains-documented", okc, f"{pm.rel}:1",
           "every comma-separated list of more than 500 elements 0xHH or 1-3 digits is matched as one unit", f"not matched: {wt[:60] if wt else wt!r}...",
           mech="language containment")
    oku, wt = rx.included(dps, upper, witness=True)
    run.ob("R3-acceptance", "decoders.powershell.POWERSHELL_BYTES_RE/501-elements", oku, f"{pm.rel}:1",
           "nothing shorter than 501 elements, and nothing that is not such a list, is matched", f"also matched: {wt[:60] if wt else wt!r}...",
           mech="language containment")
    # call forms
    for cname, forms in GR.CALL_FORMS.items():
        m = prog.mod(cname.rsplit(".", 1)[0])
        pat = prog.const(m, cname.rsplit(".", 1)[1])
        dd = rx.dfa_of(pat)
        for i, f in enumerate(forms, 1):
            ok, w = rx.included(rx.dfa_of(f), dd, witness=True)
            run.ob("R3-acceptance", f"{cname}/call-form#{i}", ok, f"{m.rel}:1", f"documented call form {f[:38]!r}... is matched as one unit", f"not matched: {w!r}",
                   mech="language containment")
    # rejection guards of find_base64
    fb = prog.fn("decoders.base64.find_base64")
    convs = [n for n in own_nodes(fb.node) if isinstance(n, ast.Call) and prog.dotted(bm, n.func) == "binascii.a2b_base64"]
    need(len(convs) == 1, "anchor: one a2b_base64 call in find_base64")
    loop = [n for n in fb.node.body if isinstance(n, ast.For)]
    need(len(loop) == 1, "anchor: find_base64 loop")
    arg = convs[0].args[0]
    need(isinstance(loop[0].iter, ast.Call) and isinstance(loop[0].target, ast.Name), "anchor: find_base64 iterates over matches")
    MV = loop[0].target.id
    defs = {}
    for a in own_nodes(loop[0]):
        if isinstance(a, ast.Assign) and len(a.targets) == 1 and isinstance(a.targets[0], ast.Name):
            defs.setdefault(a.targets[0].id, []).append(a.value)

    def chain(e, seen=()):
        """(base expression, [removal ops]) of a text derived from the match by replace / re.sub calls; None when another shape."""
        ops = []
        while True:
            if isinstance(e, ast.Name) and e.id in defs and len(defs[e.id]) == 1 and e.id not in seen:
                seen = seen + (e.id,)
                e = defs[e.id][0]
            elif isinstance(e, ast.Call) and isinstance(e.func, ast.Attribute) and e.func.attr == "replace" and len(e.args) == 2 and not e.keywords:
                ops.append(("replace", prog.try_fold(bm, e.args[0]), prog.try_fold(bm, e.args[1])))
                e = e.func.value
            elif isinstance(e, ast.Call) and prog.dotted(bm, e.func) in ("regex.sub", "re.sub") and len(e.args) == 3 and not e.keywords:
                ops.append(("re.sub", prog.try_fold(bm, e.args[0]), prog.try_fold(bm, e.args[1])))
                e = e.args[2]
            else:
                break
        return e, ops[::-1]

    def residue(form, ops):
        """The break spelling after the removal chain (None: an op whose effect on it is not decided)."""
        cur = form
        for op in ops:
            if not isinstance(op[1], bytes) or not isinstance(op[2], bytes):
                return None
            if op[0] == "replace":
                cur = cur.replace(op[1], op[2])
            else:
                dd = rx.dfa_of(op[1])
                out, i = b"", 0
                while i < len(cur):
                    js = [j for j in range(len(cur), i, -1) if rx.member(dd, cur[i:j])]
                    if js:       # longest match here: the shipped escape patterns are unambiguous, greedy == longest
                        out += op[2]
                        i = js[0]
                    else:
                        out += cur[i:i + 1]
                        i += 1
                cur = out
        return cur

    whole = lambda e: isinstance(e, ast.Call) and isinstance(e.func, ast.Attribute) and e.func.attr == "group" and common.is_name(e.func.value, MV) and (  # noqa: E731
        not e.args or (len(e.args) == 1 and prog.try_fold(bm, e.args[0]) == 0))
    anyb = rb"(?s:.)*"
    admitted = [f for f in GR.B64_LINE_BREAKS
                if not rx.is_empty(rx.product(d, rx.dfa_of(anyb + b"".join(b"\\x%02x" % c for c in f) + anyb), lambda x, y: x and y))]
    need(len(admitted) >= 4, "anchor: BASE64_RE admits line breaks and their escapes inside a match")
    b64chars = set(GR.B64_ALPHABET + b"=")
    base_a, ops_a = chain(arg)
    guard_names = {n.id for st_ in loop[0].body if isinstance(st_, ast.If) for n in ast.walk(st_.test) if isinstance(n, ast.Name) and n.id in defs}
    if isinstance(arg, ast.Name):
        S = arg.id
    else:
        need(len(guard_names) == 1, "anchor: the acceptance rules of find_base64 test one text")
        S = next(iter(guard_names))
    base_s, ops_s = chain(ast.Name(id=S, ctx=ast.Load()))
    bad = [(f, residue(f, ops_a)) for f in admitted]
    bad = [(f, r) for f, r in bad if r is None or set(r) & b64chars]
    run.ob("R1-provenance", "decoders.base64.find_base64/decoded-text-has-no-break-residue", whole(base_a) and not bad, f"{bm.rel}:{convs[0].lineno}",
           "the text handed to a2b_base64 is the whole match with every admitted line break / escape reduced to characters outside the base64 alphabet "
           "(a2b_base64 skips those; it would decode the digits of a surviving '&#13;')",
           f"decoded text `{norm_src(arg)}` derives from `{norm_src(base_a)}`; surviving break spellings: {bad[:4]}", mech="removal chain applied to each break spelling BASE64_RE admits")
    bad_s = [(f, residue(f, ops_s)) for f in admitted]
    bad_s = [(f, r) for f, r in bad_s if r != b""]
    run.ob("R3-acceptance", "decoders.base64.find_base64/guarded-text-is-clean", whole(base_s) and not bad_s, f"{bm.rel}:{convs[0].lineno}",
           "the text the acceptance rules measure (length multiple of 4, distinct characters, ...) is the whole match with every admitted line break / escape "
           "removed entirely", f"guarded text `{S}` derives from `{norm_src(base_s)}`; not removed: {bad_s[:4]}", mech="removal chain applied to each break spelling BASE64_RE admits")
    consts = {}
    for name in ("MIN_B64_CHARS", "HEX_RE", "CAMEL_RE"):
        try:
            consts[name] = prog.const(bm, name)
        except Exception:   # noqa: BLE001
            pass
    hex_ok = "HEX_RE" in consts and rx.equal(rx.dfa_of(consts["HEX_RE"]), rx.dfa_of(GR.PURE_HEX))
    cam_ok = "CAMEL_RE" in consts and rx.equal(rx.dfa_of(consts["CAMEL_RE"]), rx.dfa_of(GR.PURE_LETTERS))
    run.ob("R3-acceptance", "decoders.base64/pure-hex-pattern", hex_ok, f"{bm.rel}:1", "'pure hex' means one or more hex digits, any case", "", mech="language equality")
    run.ob("R3-acceptance", "decoders.base64/pure-letters-pattern", cam_ok, f"{bm.rel}:1", "'pure letters' means one or more ASCII letters", "", mech="language equality")
    subst = {"HEX_RE": ast.Name(id="HEXRE", ctx=ast.Load()), "CAMEL_RE": ast.Name(id="CAMELRE", ctx=ast.Load())}
    if "MIN_B64_CHARS" in consts:
        subst["MIN_B64_CHARS"] = ast.Constant(value=consts["MIN_B64_CHARS"])
    env_g = common.block_env(loop[0].body, common.enclosing_stmt(convs[0])) or {}
    subst.update({k: v for k, v in env_g.items() if k not in (S, MV) and k not in subst})
    az = G.Atomizer(rename={S: "S"}, subst=subst, is_int=lambda e: "len(" in norm_src(e) and "/" not in norm_src(e) and "%" not in norm_src(e),
                    rewrite=[("regex.", "re.")])
    pc = G.reach(loop[0].body, common.enclosing_stmt(convs[0]), az)
    spec_az = G.Atomizer(is_int=lambda e: "len(" in norm_src(e) and "/" not in norm_src(e) and "%" not in norm_src(e))
    spec = spec_az.formula(common.spec_expr(
        "not (len(S) % 4 != 0) and not (len(set(S)) <= 6) and not re.fullmatch(HEXRE, S) and not re.fullmatch(CAMELRE, S) "
        "and not (S.count(b'/') / len(S) > 3 / 32)"))
    ok, cm = G.equivalent(pc, spec)
    run.ob("R3-acceptance", "decoders.base64.find_base64/rejection-guards", ok, f"{bm.rel}:{convs[0].lineno}",
           "a candidate is decoded iff its length is a multiple of 4, it has more than 6 distinct characters, it is not pure hex, not pure letters "
           "and not slash-heavy (> 3/32)", f"guards are {G.show(pc)}; differ from the statement at {G.show_model(cm) if cm else ''}", mech="truth table")
    run.floor("R3-acceptance", 17)

    # ------------------------------------------------------------------ R4 xor
    xm = prog.mod("xor_helper")
    ax = prog.fn("xor_helper.apply_xor_key")
    need(len(ax.params) == 4, "anchor: apply_xor_key(xorkey, data, node, new_node_type)")
    KEY, DATA, NODE, NTYPE = ax.params
    w = lambda n: f"{xm.rel}:{getattr(n, 'lineno', ax.lineno)}"   # noqa: E731
    gens = [n for n in own_nodes(ax.node) if isinstance(n, ast.Call) and common.is_name(n.func, "bytes") and n.args and isinstance(n.args[0], (ast.GeneratorExp, ast.ListComp))]
    ok_x = False
    det = "no bytes(<generator>) in apply_xor_key"
    if len(gens) == 1:
        g = gens[0].args[0]
        det = f"`{norm_src(gens[0])}`"
        if len(g.generators) == 1 and not g.generators[0].ifs and common.is_name(g.generators[0].iter, DATA) and isinstance(g.generators[0].target, ast.Name):
            v = g.generators[0].target.id
            e = g.elt
            ok_x = isinstance(e, ast.BinOp) and isinstance(e.op, ast.BitXor) and {norm_src(e.left), norm_src(e.right)} == {v, KEY}
    run.ob("R4-xor", "xor_helper.apply_xor_key/maps-b-xor-key", ok_x, w(gens[0]) if gens else w(ax.node),
           "the child's bytes are b ^ key for every byte b of the data, in order", det, mech="generator shape")
    hits, interp, _n = A.run(ax)
    lab_ok = span_ok = par_ok = False
    sites_ = [n for n in own_nodes(ax.node) if isinstance(n, ast.Call) and prog.is_node_ctor(xm, ax, n)]
    if len(sites_) == 1:
        from ..model import bind_node_call
        s_ = bind_node_call(prog, xm, ax, sites_[0], lambda e: None)
        P = prog.node_class_params()
        ob = s_.args[P[2]]
        lab_ok = isinstance(ob, ast.BinOp) and isinstance(ob.op, ast.Add) and prog.try_fold(xm, ob.left) == "cipher.xor" and norm_src(ob.right) == f"str({KEY})"
        par_ok = isinstance(s_.args[P[5]], ast.AST) and common.is_name(s_.args[P[5]], NODE)
        ty_ok = isinstance(s_.args[P[0]], ast.AST) and common.is_name(s_.args[P[0]], NTYPE)
        # span (0, len(data')) and len(data') == len(data): from the abstract interpreter
        for h in hits:
            pass
        st = s_.args[P[3]]
        en = s_.args[P[4]]
        st0 = (isinstance(st, tuple) and st[0] == "default" and prog.try_fold(prog.mod("node"), st[1]) == 0) or (isinstance(st, ast.AST) and prog.try_fold(xm, st) == 0)
        val = s_.args[P[1]]
        span_ok = st0 and isinstance(en, ast.AST) and isinstance(val, ast.AST) and norm_src(en) == f"len({norm_src(val)})"
        run.ob("R4-xor", "xor_helper.apply_xor_key/type", ty_ok, w(sites_[0]), "the child has the type the caller names", "", mech="constructor binding")
    run.ob("R4-xor", "xor_helper.apply_xor_key/label-same-key", lab_ok, w(ax.node), "the label is 'cipher.xor' + str(key) of the key that was applied", "", mech="constructor binding")
    run.ob("R4-xor", "xor_helper.apply_xor_key/span-whole-parent", span_ok, w(ax.node), "the child covers its parent's value: span (0, len(value))", "", mech="constructor binding")
    run.ob("R4-xor", "xor_helper.apply_xor_key/parent", par_ok, w(ax.node), "the child's parent is the node it is appended to", "", mech="constructor binding")
    apps = [n for n in own_nodes(ax.node) if isinstance(n, ast.Call) and isinstance(n.func, ast.Attribute) and n.func.attr == "append" and
            norm_src(n.func.value) == f"{NODE}.children"]
    run.ob("R4-xor", "xor_helper.apply_xor_key/appended", len(apps) == 1 and sites_ and apps[0].args[0] is sites_[0], w(ax.node),
           "the xor child is appended to the node's children", "", mech="call-shape match")
    # callers pass the node's own value as data
    n_calls = 0
    for fi in prog.all_funcs():
        nodes = own_nodes(fi.node) if not isinstance(fi.node, ast.Lambda) else ast.walk(fi.node)
        for c in nodes:
            if isinstance(c, ast.Call) and prog.callee(fi.module, fi, c).func is ax:
                n_calls += 1
                okc = False
                det = norm_src(c)
                if len(c.args) >= 3 and isinstance(c.args[2], ast.Name) and isinstance(c.args[1], ast.Name):
                    nv = c.args[2].id
                    for a in own_nodes(fi.node):
                        if isinstance(a, ast.Assign) and common.is_name(a.targets[0], nv) and isinstance(a.value, ast.Call) and prog.is_node_ctor(fi.module, fi, a.value):
                            from ..model import bind_node_call
                            sb = bind_node_call(prog, fi.module, fi, a.value, lambda e: 2 if isinstance(e, ast.Call) and isinstance(e.func, ast.Attribute) and e.func.attr == "span" else None)
                            vv = sb.args[prog.node_class_params()[1]]
                            okc = isinstance(vv, ast.AST) and common.is_name(vv, c.args[1].id)
                run.ob("R4-xor", f"{fi.fq}/apply_xor_key-call", okc, f"{fi.module.rel}:{c.lineno}",
                       "the bytes that are xored are the value of the node that receives the child", det, mech="argument provenance")
    need(n_calls >= 3, "anchor: apply_xor_key call sites")
    # dexor
    dx = prog.fn("xortool.dexor")
    TEXT, K2 = dx.params
    rt = [n for n in own_nodes(dx.node) if isinstance(n, ast.Return)]
    okd = False
    if len(rt) == 1 and isinstance(rt[0].value, ast.Call) and common.is_name(rt[0].value.func, "bytes"):
        g = rt[0].value.args[0]
        env = common.block_env(dx.node.body, rt[0]) or {}
        if isinstance(g, (ast.GeneratorExp, ast.ListComp)) and len(g.generators) == 1 and not g.generators[0].ifs:
            gen = g.generators[0]
            if isinstance(gen.iter, ast.Call) and common.is_name(gen.iter.func, "enumerate") and common.is_name(gen.iter.args[0], TEXT) and isinstance(gen.target, ast.Tuple):
                i, ch = (x.id for x in gen.target.elts)
                e = G.Atomizer(subst=env).inline(g.elt)
                okd = isinstance(e, ast.BinOp) and isinstance(e.op, ast.BitXor) and {norm_src(e.left), norm_src(e.right)} == {ch, f"{K2}[{i} % len({K2})]"}
    run.ob("R4-xor", "xortool.dexor/repeating-key", okd, f"{dx.module.rel}:{dx.lineno}", "dexor xors byte i with key[i mod len(key)]", "", mech="generator shape")
    run.floor("R4-xor", 9)

    # ------------------------------------------------------------------ R5 unhexlify domain
    pairs = rx.dfa_of(rb"(?:[0-9A-Fa-f]{2})*")
    run.ob("R5-hex-domain", "decoders.hex.HEX_RE/hex-pairs", rx.included(rx.dfa_of(hexre), pairs), f"{hm.rel}:1", "every text HEX_RE matches is a sequence of hex pairs", "",
           mech="language containment")
    fh = prog.const(hm, "FROMHEXSTRING_RE")
    run.ob("R5-hex-domain", "decoders.hex.FROMHEXSTRING_RE/group2-hex-pairs", rx.included(rx.group_language(fh, 2).dfa, pairs), f"{hm.rel}:1",
           "the argument group of FromHexString is a sequence of hex pairs", "", mech="language containment")


def fmt(t):
    from ..absint import fmt_term
    return fmt_term(t)
