"""C01 - scanning is total: no input makes a scan raise or hang (exception escape + termination audit)."""
from __future__ import annotations

import ast

from .. import core, exc, guards as G, rx, sites, term
from ..absint import BytesV, ConstV, IntV, Ref, StrV
from ..core import norm_src
from ..lin import Lin
from ..model import call_graph, need, own_nodes, reachable
from . import common

EXPLANATION = (
    "Exception-escape analysis (E3) and termination audit (E5) over every function reachable from Multidecoder.scan / scan_node and "
    "the read-only views (flatten, iteration, string_summary, make_label, tree_to_json); the registry loop is resolved to every "
    "@decoder function and find_keywords. Every raising construct (conversions, subscripts, unpackings, divisions, struct reads, "
    "explicit raises, asserts, possibly-None matches, calls of raising library functions) is enumerated from the AST and must be "
    "discharged by an enclosing handler whose class covers it, by facts of the abstract interpreter (index / arity / divisor / "
    "struct-offset bounds, byte ranges, the regex language of a conversion's argument), or by a reviewed exemption whose condition "
    "is re-checked on every run; what is left propagates to callers and must be empty at the entry points. Every while loop, for loop "
    "and recursion cycle must match a ranking template. xortool's numeric core and third-party code (pefile, regex) are assumed total "
    "beyond the declared table; RecursionError / MemoryError / running time are not decided."
)
TRUSTED = ["EXTERNAL_RAISES table (printed in the evidence)", "pefile.PE raises nothing but PEFormatError", "xortool's arithmetic (divisors, max of non-empty collections)",
           "CPython semantics of the listed exception classes"]

ENTRY_FQS = ["multidecoder.Multidecoder.scan", "multidecoder.Multidecoder.scan_node", "node.Node.flatten", "node.Node.__iter__", "query.string_summary",
             "query.make_label", "json_conversion.tree_to_json"]


def check(run):
    prog = run.prog
    decs = prog.decorated_decoders()
    fk = prog.fn("keyword.find_keywords")
    edges = call_graph(prog, registry_targets=decs + [fk])
    entries = [prog.fn(q) for q in ENTRY_FQS]
    F = reachable(edges, entries)
    F = sorted(F, key=lambda f: (f.module.name, f.lineno))
    run.note("functions_analysed", len(F))
    need(len(F) >= 60, f"anchor: only {len(F)} functions reachable from the entry points")
    A = sites.analysis(prog)
    sn = prog.fn("multidecoder.Multidecoder.scan_node")

    # R6: the stack-drain certificate of scan_node's loops rests on each hit's span being the one its decoder computed for THIS call;
    # a cached node is shifted in place again at every reuse, its end passes len(data), and the drain loop never exits (seed u01)
    n6 = common.check_not_memoised(run, "R6-fresh-hits", decs + [fk],
                                   "every decoder call builds its nodes afresh: the engine shifts hits in place, and the termination argument of the "
                                   "context-drain loop needs hit.end <= len(data) for the hits of this call")
    run.floor("R6-fresh-hits", len(decs) + 1)

    # ------------------------------------------------------------------ abstract runs: records by AST node
    idx_by, unp_by, div_by, conv_by, none_by = {}, {}, {}, {}, {}
    idx_interp = {}
    visited = set()
    analysed_fns = set()
    interps = []
    standalone = set(A.summaries) | set(A.opaque_bytes)
    for fi in F:
        if isinstance(fi.node, ast.Lambda) or fi.module.short == "xortool" or fi in (sn, entries[0]):
            continue
        if fi in decs or fi is fk:
            continue
        from ..absint import Interp
        if Interp(prog).is_predicate(fi) or fi in standalone or fi in entries or fi.cls or fi.parent is not None:
            standalone.add(fi)
    runs = [(fi, "entry") for fi in decs + [fk]] + [(fi, "standalone") for fi in sorted(standalone, key=lambda f: f.fq) if fi.parent is None]
    for fi, how in runs:
        _hits, interp, _n = A.run(fi)
        interps.append(interp)
        analysed_fns.add(fi)
        visited |= interp.visited
        for rec in interp.index_uses:
            idx_by.setdefault(id(rec[1]), []).append(rec)
            idx_interp[id(rec)] = interp
        for rec in interp.unpack_uses:
            unp_by.setdefault(id(rec[1]), []).append(rec)
        for rec in interp.div_uses:
            div_by.setdefault(id(rec[1]), []).append(rec)
        for rec in interp.conv_uses:
            conv_by.setdefault(id(rec[1]), []).append(rec + (interp,))
        for rec in interp.none_uses:
            none_by.setdefault(id(rec[1]), []).append(rec)
    run.note("abstract_runs", len(runs))

    # ------------------------------------------------------------------ reviewed exemptions (each re-verifies its condition)
    reviewed = build_reviewed(run, prog)

    EA = exc.ExcAnalysis(prog, F, edges)

    def r_interp(rec):
        return idx_interp.get(id(rec))

    def lang_of(av, ip):
        """regex language (DFA) of a bytes/str value that is a match group (possibly decoded); None if unknown"""
        match_info = ip.matches
        t = av.term if isinstance(av, (BytesV, StrV)) else None
        while isinstance(t, tuple) and t and t[0] in ("decode",):
            t = t[1]
        if isinstance(t, tuple) and t and t[0] == "group" and t[1] in match_info and match_info[t[1]].get("pattern") is not None:
            pat = match_info[t[1]]["pattern"]
            try:
                return rx.group_language(pat, t[2]).dfa if t[2] else rx.compile_pattern(pat, "any", "any").dfa
            except rx.RxError:
                return None
        return None

    def discharge(c, e):
        fi, n = c.fi, c.node
        if fi.module.short == "xortool" and not (c.kind == "raise"):
            return "assumed: xortool numeric core (stated assumption)"
        auto = auto_discharge(c, e)
        if auto:
            return auto
        for (rfq, rkind, rsrc), (reason, cond) in reviewed.items():
            src_ = common.short_src(n, 200)
            fq_ok = rfq == fi.fq or (rfq.endswith(".*") and fi.fq.startswith(rfq[:-1]))
            if fq_ok and rkind == c.kind and (rsrc == src_ or (rkind != "subscript" and rsrc in src_)):
                ok, why = cond()
                if ok:
                    run.exempt(f"C01/R1-exception-escape/{c.key()}/{e}", reason, why)
                    return "reviewed: " + reason
        return None

    def auto_discharge(c, e):
        fi, n = c.fi, c.node
        if c.kind == "subscript":
            recs = idx_by.get(id(n), [])
            if recs and all(_index_safe(r) for r in recs):
                return f"index bounds from the abstract interpreter ({len(recs)} path record(s))"
            # lookup in a module-level constant dict with a key that is a regex group: every text the group admits is a key
            if recs and isinstance(n.value, (ast.Name, ast.Dict)):
                try:
                    table = prog.const(fi.module, n.value.id) if isinstance(n.value, ast.Name) else prog.try_fold(fi.module, n.value)
                except Exception:   # noqa: BLE001
                    table = None
                if isinstance(table, dict) and table:
                    from .. import strlang
                    all_in = True
                    for r in recs:
                        iv = r[3]
                        d_ = strlang.language(iv.term, r_interp(r).matches, r_interp(r).piece_sep) if isinstance(iv, (BytesV, StrV)) and r_interp(r) is not None else None
                        words = rx.enumerate_words(d_, limit=64) if d_ is not None and rx.maxlen(d_) is not None else None
                        if words is None or not all(w_ in table for w_ in words):
                            all_in = False
                    if all_in:
                        return "every text the key's regex group admits is a key of the constant table"
            # constant-key lookup guarded by a membership test / first element guarded by truthiness
            pc = _pc_with_ifexp(fi, n)
            if pc is not None:
                base, key = norm_src(n.value), norm_src(n.slice)
                atoms = {a[1] for a in G.atoms_of(pc) if a[0] == "atom"}
                if f"{key} in {base}" in atoms and G.implies(pc, ("atom", f"{key} in {base}"))[0]:
                    return "dominated by a membership test on the same key"
                if key in ("0", "-1") and f"truthy:{base}" in atoms and G.implies(pc, ("atom", f"truthy:{base}"))[0]:
                    return "first/last element under a dominating non-emptiness test"
            if not recs and id(common.enclosing_stmt(n)) not in visited and fi in analysed_or_inlined(fi):
                return None
            return None
        if c.kind == "unpack":
            tgt = n.targets[0] if isinstance(n, ast.Assign) else n.target
            recs = unp_by.get(id(tgt), [])
            if recs and all(r[3] for r in recs):
                return f"arity known on every path ({len(recs)} record(s))"
            return None
        if c.kind == "division":
            recs = div_by.get(id(n), [])
            if recs and all(r[2] is not None and r[3].le(1, r[2]) for r in recs):
                return "divisor >= 1 on every path"
            return None
        if c.kind in ("ext", "method"):
            recs = conv_by.get(id(n), [])
            name = c.text
            if name == "int" and recs:
                from .. import strlang
                from .C02 import refined_language
                okk = True
                for r in recs:
                    a0 = r[3][0] if r[3] else None
                    bv = r[3][1] if len(r[3]) > 1 else r[4].get("base")
                    base = 10 if bv is None else (bv.value if isinstance(bv, ConstV) and isinstance(bv.value, int) else None)
                    d = refined_language(a0.term, r[5], r[7]) if isinstance(a0, (BytesV, StrV)) and base is not None else None
                    if d is None or not rx.included(d, strlang.int_grammar(base)):
                        okk = False
                if okk:
                    return "the regular language of the argument (group language through split/strip/slice, refined by dominating tests) is inside int()'s grammar for the base"
            if name in ("binascii.unhexlify", "binascii.a2b_hex") and recs:
                from .C02 import refined_language
                if all(isinstance(r[3][0], (BytesV, StrV)) and (lambda d: d is not None and rx.included(d, rx.dfa_of(rb"(?:[0-9A-Fa-f]{2})*")))(refined_language(r[3][0].term, r[5], r[7]))
                       for r in recs):
                    return "the regular language of the argument is a sequence of hex pairs"
            if name == "chr" and recs and all(isinstance(r[3][0], IntV) and r[5].le(0, r[3][0].lin) and r[5].le(r[3][0].lin, 0x10FFFF) for r in recs if r[3]):
                return "the argument is an integer in [0, 0x10FFFF] on every path"
            if name == "chr" and e == "OverflowError" and recs:
                okk = True
                for r in recs:
                    a0 = r[3][0] if r[3] else None
                    pv = r[7].int_prov.get(next(iter(a0.lin.t))) if isinstance(a0, IntV) and len(a0.lin.t) == 1 else None
                    src = pv[1] if pv else None
                    d = None
                    if isinstance(src, tuple) and src and src[0] == "group" and src[1] in r[7].matches:
                        d = rx.group_language(r[7].matches[src[1]]["pattern"], src[2]).dfa
                    if d is None or not rx.included(d, rx.dfa_of(rb"0*[0-9]{1,9}")):
                        okk = False
                if okk:
                    return "the code point has at most nine significant decimal digits (regex group): it fits a C int"
            if c.kind == "method" and name == "pop" and not n.args:
                pcp = _pc_with_ifexp(fi, n)
                recv = norm_src(n.func.value)
                if pcp is not None and f"truthy:{recv}" in {a[1] for a in G.atoms_of(pcp) if a[0] == "atom"} and G.implies(pcp, ("atom", f"truthy:{recv}"))[0]:
                    return "pop() under a dominating non-emptiness test of the same list"
            if name == "bytes" and recs:
                okk = True
                for r in recs:
                    elems = r[6]
                    a0 = r[3][0] if r[3] else None
                    if isinstance(a0, (BytesV,)) or (isinstance(a0, ConstV) and isinstance(a0.value, (bytes, tuple))):
                        continue
                    if elems is None or not elems:
                        okk = False
                        continue
                    for el in elems:
                        from ..absint import GuardedInt
                        from ..lin import entails_nonneg
                        if isinstance(el, GuardedInt):
                            fs = list(r[5].facts) + list(el.facts)
                            if not (entails_nonneg(fs, el.lin, eqs=r[5].eqs) and entails_nonneg(fs, Lin(255) - el.lin, eqs=r[5].eqs)):
                                okk = False
                        elif not (isinstance(el, IntV) and r[5].le(0, el.lin) and r[5].le(el.lin, 255)):
                            okk = False
                if okk:
                    return "every element is an integer in [0, 255] on every path"
            if name == "encode" and recs:
                okk = True
                for r in recs:
                    a0 = r[3][0]
                    t = a0.term if isinstance(a0, StrV) else None
                    if not (isinstance(t, tuple) and t and t[0] in ("decode", "compressed", "hex", "str")):
                        okk = False
                if okk:
                    return "the string comes from a codec decode / an ASCII library string: it has no lone surrogates"
            if name in ("struct.unpack_from", "struct.unpack"):
                recs2 = idx_by.get(id(n), [])
                if recs2 and all(_struct_safe(r) for r in recs2):
                    return "offset + size <= len(buffer) on every path"
            return None
        if c.kind == "raise":
            st = common.enclosing_stmt(n)
            if fi not in standalone and fi not in decs and fi is not fk and fi.module.short != "xortool" and id(st) not in visited and _inlined_only(fi):
                return "never reached by the abstract execution in any calling context (the function is always analysed inlined)"
            return None
        if c.kind == "assert":
            # assert X in (constants) where X is the text of a match of a finite pattern
            t = n.test
            if isinstance(t, ast.Compare) and len(t.ops) == 1 and isinstance(t.ops[0], ast.In):
                consts = prog.try_fold(fi.module, t.comparators[0])
                env = common.block_env(fi.body, n) or {}
                src = env.get(t.left.id) if isinstance(t.left, ast.Name) else t.left
                if isinstance(src, ast.Call) and isinstance(src.func, ast.Attribute) and src.func.attr == "group" and not src.args and isinstance(src.func.value, ast.Name):
                    mname = src.func.value.id
                    for st in own_nodes(fi.node):
                        if isinstance(st, ast.Assign) and common.is_name(st.targets[0], mname) and isinstance(st.value, ast.Call) and \
                                (prog.dotted(fi.module, st.value.func) or "").startswith("regex."):
                            pat = prog.try_fold(fi.module, st.value.args[0])
                            if isinstance(pat, bytes) and consts:
                                words = rx.enumerate_words(rx.dfa_of(pat, "any", "any"), limit=50)
                                if words is not None and set(words) <= set(consts):
                                    return "the asserted value is a match of a finite pattern whose words are exactly the listed constants"
            return None
        if c.kind == "attribute":
            return None
        return None

    def analysed_or_inlined(fi):
        return analysed_fns

    def _inlined_only(fi):
        return True

    # indirect calls: registry loop and function-valued parameters
    for fi in F:
        for c in EA.constructs[fi]:
            if c.kind == "indirect-call":
                tg = []
                if fi is sn and c.node in common.decoder_invocations(prog, sn):
                    tg = decs + [fk]
                else:
                    # function-valued parameter: lambdas / functions passed at the call sites of fi
                    pname = c.text
                    if pname in fi.params:
                        pi = fi.params.index(pname)
                        for g in F:
                            gn = own_nodes(g.node) if not isinstance(g.node, ast.Lambda) else ast.walk(g.node)
                            for call in gn:
                                if isinstance(call, ast.Call) and prog.callee(g.module, g, call).func is fi:
                                    a = call.args[pi] if pi < len(call.args) else next((k.value for k in call.keywords if k.arg == pname), None)
                                    if isinstance(a, ast.Lambda):
                                        tg.append(g.module.func_of_node(a))
                                    elif isinstance(a, ast.Name):
                                        r = prog.resolve_func_name(g.module, a.id, g)
                                        if r.kind == "repo":
                                            tg.append(r.func)
                c.targets = [t for t in tg if t is not None]
    # give indirect calls the union of their targets' escapes: model as several call constructs
    for fi in F:
        extra = []
        for c in EA.constructs[fi]:
            if c.kind == "indirect-call":
                for t in getattr(c, "targets", []):
                    cc = exc.Construct(fi, c.node, "call", {"<callee>"}, t.fq)
                    cc.callee = t
                    extra.append(cc)
        EA.constructs[fi] += extra
    escapes = EA.solve(discharge)

    # ------------------------------------------------------------------ obligations
    n_con = 0
    for fi in F:
        for c in EA.constructs[fi]:
            if c.kind in ("indirect-call",):
                continue
            classes = set(c.classes)
            if "<callee>" in classes:
                classes = set(escapes.get(c.callee, {}).keys()) | set(c.discharged)
            for e in sorted(classes):
                if e.startswith("<"):
                    continue
                n_con += 1
                mech = c.discharged.get(e)
                # an undischarged construct inside a helper is a violation only if it can reach an entry point: report at the entry
                if mech is not None:
                    run.ob("R1-exception-escape", f"{c.key()}/{e}", True, c.where, f"{e} from `{common.short_src(c.node, 60)}` cannot escape", mech=mech)
    for ent in entries:
        for e, c in sorted(escapes.get(ent, {}).items()):
            src = _origin(c, e, escapes)
            run.ob("R1-exception-escape", f"{ent.fq}/escapes/{e}/from:{src.key()}", False, src.where,
                   f"no exception escapes {ent.qualname}", f"{e} raised by `{common.short_src(src.node, 70)}` in {src.fi.fq} is neither handled nor excluded and propagates to {ent.qualname}",
                   mech="exception-escape propagation")
    for ent in entries:
        run.ob("R1-exception-escape", f"{ent.fq}/escape-set-empty", not escapes.get(ent), f"{ent.module.rel}:{ent.lineno}", f"the set of exception classes that can propagate out of {ent.qualname} is empty",
               f"{sorted(escapes.get(ent, {}))}", mech="exception-escape propagation")
    run.note("raising_constructs", n_con)
    run.note("external_raises_table", {k: sorted(v) for k, v in exc.EXTERNAL_RAISES.items() if v})
    unknown = sorted({c.text for fi in F for c in EA.constructs[fi] if c.kind == "ext-unknown"})
    run.note("externals_without_summary", unknown)
    run.floor("R1-exception-escape", 80)

    # possibly-None match dereferences
    for nid, recs in none_by.items():
        fi, node, _s = recs[0]
        run.ob("R1-exception-escape", f"{fi.fq}/none-deref:{common.short_src(node, 50)}", False, f"{fi.module.rel}:{node.lineno}",
               "a regex search result is tested before it is used", "the match object may be None here (AttributeError)", mech="abstract interpreter: possibly-None match")

    # ------------------------------------------------------------------ R2 termination
    def cert():
        from .C03 import span_obligations
        sub = core.Run("C01", run.tier, prog)
        span_obligations(sub, "cert", decs + [fk], A)
        bad = [o for o in sub.obligations if not o["ok"] and "/hit/end<=len" in o["key"]]
        return (not bad, "; ".join(o["key"].split("/")[-3] + ": " + o["detail"][:80] for o in bad[:3]))
    T = term.Termination(prog, F, edges)
    for key, ok, where, what, det, tmpl in T.run(stack_drain_certificate=cert):
        run.ob("R2-termination", key, ok, where, what, det, mech=tmpl)
    run.floor("R2-termination", 30)

    # ------------------------------------------------------------------ R3 recursion depth of the read-only views
    # A view that recurses once per tree level (T6 structural descent) needs the tree's height to be bounded by something the
    # caller controls.  scan_node deepens the tree in two ways: the decoded arm (costs one unit of depth_limit) and the context
    # arm, which nests the next hits under an undecoded hit.  If the context arm costs nothing and is not bounded by the size of
    # the context stack, the height is bounded only by the input length and the interpreter's recursion limit is reachable.
    from .. import frames
    fa = frames.analysis(prog)
    sn_ = prog.fn("multidecoder.Multidecoder.scan_node")
    STACK = getattr(fa.R, "STACK", None)
    ctx_push = [n for n in own_nodes(sn_.node) if isinstance(n, ast.Call) and isinstance(n.func, ast.Attribute) and n.func.attr == "append"
                and STACK and norm_src(n.func.value) == STACK]
    bounded = False
    why_unbounded = "scan_node has no context arm"
    if ctx_push:
        az_ = G.Atomizer()
        pc_ = G.reach(sn_.body, common.enclosing_stmt(ctx_push[0]), az_)
        atoms_ = [a[1] for a in G.atoms_of(pc_)] if pc_ is not None else []
        bounded = any(f"len({STACK})" in a_ for a_ in atoms_)
        why_unbounded = (f"the context arm (`{norm_src(ctx_push[0])}` at {sn_.module.rel}:{ctx_push[0].lineno}) nests later hits under an undecoded hit without "
                         f"consuming depth_limit and without a bound on len({STACK}): the tree's height is bounded only by the input length, e.g. "
                         "b'createobject(' * 1500 + b'x' + b')' * 1500 gives a tree 1501 levels deep and RecursionError in every recursive view")
    _cg = []

    def call_graph_for_views():
        if not _cg:
            from ..model import call_graph as _call_graph
            _cg.append(_call_graph(prog))
        return _cg[0]
    n_views = 0
    for key, ok, where, what, det, tmpl in T.results:
        if "T6 structural descent" not in tmpl or "T5 " in tmpl or not key.endswith("/recursion"):
            continue      # (a recursion that also spends a decreasing budget parameter is bounded by that budget)
        fq = key[: -len("/recursion")]
        n_views += 1
        # the construct is the VIEW: a closure or private helper that only serves one public function is keyed by that function
        # (Node.__iter__'s generator is the same view whether it is a nested function or a private method)
        view = fq
        g_ = next((f_ for f_ in prog.all_funcs() if f_.fq == fq), None)
        if g_ is not None:
            if g_.parent is not None:
                view = g_.parent.fq
            elif g_.qualname.rsplit(".", 1)[-1].startswith("_") and not g_.qualname.rsplit(".", 1)[-1].startswith("__"):
                nm_ = g_.qualname.rsplit(".", 1)[-1]
                callers_ = sorted({c_.fq for c_, outs_ in call_graph_for_views().items() if g_ in outs_ and c_ is not g_ and not isinstance(c_.node, ast.Lambda) and any(
                    isinstance(x_, ast.Call) and ((isinstance(x_.func, ast.Attribute) and x_.func.attr == nm_) or (isinstance(x_.func, ast.Name) and x_.func.id == nm_))
                    for x_ in ast.walk(c_.node))})
                if len(callers_) == 1:
                    view = callers_[0]
        run.ob("R3-recursion-depth", f"{view}/height-bounded-by-budget", bounded or not ctx_push, where,
               f"{fq.rsplit('.', 1)[-1]} recurses once per tree level, so the height of the trees scan() builds must be bounded by the depth budget "
               "(or by a bound on the context stack)", "" if (bounded or not ctx_push) else why_unbounded, mech="T6 recursion x frame analysis of the context arm")
    run.note("recursive_views", n_views)

    # ------------------------------------------------------------------ R4 enumeration bound: a recursion that branches (the recursive
    # call sits in a loop over a collection taken from its argument) makes as many calls as the PRODUCT of the collection sizes;
    # it terminates (R2) but not in feasible time unless every outside caller bounds that product first.
    n_branch = 0
    for fi in sorted(F, key=lambda f: f.fq):
        if isinstance(fi.node, ast.Lambda):
            continue
        rec_in_loop = []
        for c_ in own_nodes(fi.node):
            if isinstance(c_, ast.Call) and prog.callee(fi.module, fi, c_).func is fi:
                # the product arises when every branch re-enters with the SAME collection (forwarded parameter) one level further;
                # a descent into the loop's own element (a child subtree) visits each element once and is linear
                fwd = {a.id for a in c_.args if isinstance(a, ast.Name) and a.id in fi.params}
                for p_ in common.parents(c_):
                    its_ = [p_.iter] if isinstance(p_, ast.For) else ([g_.iter for g_ in p_.generators] if isinstance(p_, (ast.ListComp, ast.GeneratorExp)) else [])
                    if any(isinstance(x, ast.Name) and x.id in fwd for it_ in its_ for x in ast.walk(it_)):
                        rec_in_loop.append(c_)
                        break
        if not rec_in_loop:
            continue
        # the parameter whose elements are iterated
        callers = [(g, c_) for g in F if g is not fi and not isinstance(g.node, ast.Lambda) for c_ in own_nodes(g.node)
                   if isinstance(c_, ast.Call) and prog.callee(g.module, g, c_).func is fi]
        for g, call in callers:
            n_branch += 1
            ok, why = _product_bounded(g, call)
            run.ob("R4-enumeration-bound", f"{fi.fq}/called-from/{g.fq}", ok, f"{g.module.rel}:{call.lineno}",
                   f"{fi.qualname} makes one recursive call per element at every level (the product of the collection sizes): its caller bounds that "
                   "product before calling it", why, mech="branching-recursion census + dominating product guard in the caller")
    run.note("branching_recursions_called", n_branch)
    # a memoised function hashes its arguments: Node defines __eq__ without __hash__, lists and dicts are unhashable
    from ..effects import CACHE_DECORATORS
    HASHABLE = {"bytes", "str", "int", "bool", "float", "None", "bytes | None", "str | None", "int | None"}
    for fi in sorted(F, key=lambda f: f.fq):
        if isinstance(fi.node, ast.Lambda):
            continue
        if any(prog.dotted(fi.module, d.func if isinstance(d, ast.Call) else d) in CACHE_DECORATORS for d in fi.decorators):
            a_ = fi.node.args
            bad_ = [x.arg for x in a_.posonlyargs + a_.args + a_.kwonlyargs if x.arg not in ("self", "cls") and
                    (x.annotation is None or ast.unparse(x.annotation) not in HASHABLE) and not ast.unparse(x.annotation or ast.Constant(0)).startswith("tuple[")]
            run.ob("R1-exception-escape", f"{fi.fq}/memoised-arguments-hashable", not bad_, f"{fi.module.rel}:{fi.lineno}",
                   "a memoised function on the scan path only takes hashable arguments", f"parameters {bad_} may be unhashable (Node, list, dict): the cache lookup raises TypeError",
                   mech="decorator census x parameter annotations")
    # ------------------------------------------------------------------ R5 regular expressions: the third-party matcher backtracks.
    # Decided: no alternation nested in an unbounded repeat has two alternatives matching the same text (2^k parses of k
    # iterations between the SAME iteration boundaries - the shape the matcher's per-position repeat guards do not collapse).
    # Not decided: ambiguity of the iteration boundaries themselves (listed in the evidence; left to the matcher's guards).
    from .. import rx as _rx
    n_pat, boundary_amb = 0, []
    for key, where, pat in common.regex_patterns(prog):
        try:
            ov = _rx.overlapping_alternatives(pat)
        except _rx.RxError as e_:
            run.ob("R5-regex-backtracking", f"{key}/parsed", False, where, "the pattern is analysable", str(e_), mech="regex parse tree")
            continue
        n_pat += 1
        wit = "; ".join(f"alternation #{k}: alternatives {i + 1} and {j + 1} both match {w!r}" for k, i, j, w in ov[:3])
        run.ob("R5-regex-backtracking", f"{key}/alternatives-under-repeat-disjoint", not ov, where,
               "inside a repeat without a small bound, the alternatives of an alternation match disjoint sets of texts", wit +
               (": a text repeating that word k times has 2^k parses; a failing continuation makes a backtracking matcher try them all" if ov else ""),
               mech="pairwise language intersection of the alternatives (DFA product)")
        if run.tier == "thorough":
            try:
                if _rx.exponential_ambiguity(pat) is not None:
                    boundary_amb.append(key)
            except _rx.RxError:
                pass
    run.floor("R5-regex-backtracking", 45)
    run.note("patterns_analysed", n_pat)
    if run.tier == "thorough":
        run.note("patterns_with_iteration_boundary_ambiguity_not_judged", boundary_amb)
    run.assume("the regex module's repeat guards keep iteration-boundary ambiguity (e.g. `(?:X{4,}S?){5,}`) polynomial; only same-boundary alternation overlap is decided")
    # depth-limited recursion of scan_node is C07's (imported as a floor: the check is re-run there)
    run.assume("scan_node's recursion terminates by the depth guard (decided under C07 R1/R2) ")


def _product_bounded(g, call):
    """the caller multiplies the sizes of the argument's elements into an accumulator and, when that exceeds a constant, shrinks
    the argument (slices of constant length) or leaves, before the call"""
    if not call.args or not isinstance(call.args[0], ast.Name):
        return False, f"`{common.short_src(call, 60)}`: the enumerated collection is not a plain variable"
    ARG = call.args[0].id
    body = g.node.body
    stmt = common.enclosing_stmt(call)
    if stmt not in body:
        return False, "the call is not at the top level of its function"
    pre = body[: body.index(stmt)]
    accs = set()
    for st in pre:
        if isinstance(st, ast.For) and common.is_name(st.iter, ARG) and isinstance(st.target, ast.Name):
            for x in ast.walk(st):
                if isinstance(x, ast.AugAssign) and isinstance(x.op, ast.Mult) and isinstance(x.target, ast.Name) and \
                        norm_src(x.value) == f"len({st.target.id})":
                    accs.add(x.target.id)
    for st in pre:
        if isinstance(st, ast.If) and isinstance(st.test, ast.Compare) and len(st.test.ops) == 1 and isinstance(st.test.ops[0], (ast.Gt, ast.GtE)) and \
                isinstance(st.test.left, ast.Name) and st.test.left.id in accs and not st.orelse:
            last = st.body[-1] if st.body else None
            if isinstance(last, (ast.Return, ast.Raise)):
                return True, ""
            if isinstance(last, ast.Assign) and common.is_name(last.targets[0], ARG) and isinstance(last.value, ast.ListComp) and \
                    isinstance(last.value.elt, ast.Subscript) and isinstance(last.value.elt.slice, ast.Slice) and last.value.elt.slice.lower is None and \
                    isinstance(last.value.elt.slice.upper, ast.Constant) and last.value.elt.slice.upper.value == 1 and \
                    common.is_name(last.value.generators[0].iter, ARG):
                return True, ""
    return False, (f"nothing bounds the product of the sizes of `{ARG}`'s elements before the call: on low-entropy data every byte value ties and "
                   "the enumeration is exponential in the key length (a 520-element counting byte array asked for 2**32 keys)")


def _origin(c, e, escapes):
    seen = set()
    while getattr(c, "callee", None) is not None and c.callee in escapes and e in escapes[c.callee] and id(c) not in seen:
        seen.add(id(c))
        c = escapes[c.callee][e]
    return c


def _index_safe(rec):
    if len(rec) < 6:
        return False
    fi, node, base, idx, snap, blen = rec
    li = idx.lin if isinstance(idx, IntV) else (Lin(idx.value) if isinstance(idx, ConstV) and isinstance(idx.value, int) else None)
    if isinstance(base, ConstV) and isinstance(base.value, dict):
        return False
    if li is None or blen is None:
        return False
    # a Python index is valid iff -len <= i <= len - 1
    return snap.le(li + 1, blen) and snap.le(-li, blen)


def _struct_safe(rec):
    fi, node, base, idx, snap = rec[:5]
    if not (isinstance(base, tuple) and base[0] == "struct"):
        return False
    _t, buf, size = base
    if buf is None or idx is None:
        return False
    return snap.le(0, idx.lin) and snap.le(idx.lin + size, buf.length)


def _pc_with_ifexp(fi, n):
    az = G.Atomizer()
    stmt = common.enclosing_stmt(n)
    body = fi.body
    pc = G.reach(body, stmt, az)
    if pc is None:
        return None
    child = n
    for p in common.parents(n):
        if p is stmt:
            break
        if isinstance(p, ast.IfExp):
            if child is p.body or any(x is child for x in ast.walk(p.body)):
                pc = G.f_and(pc, az.formula(p.test))
            elif child is p.orelse or any(x is child for x in ast.walk(p.orelse)):
                pc = G.f_and(pc, G.f_not(az.formula(p.test)))
        if isinstance(p, ast.BoolOp) and isinstance(p.op, ast.And):
            i = next((k for k, v in enumerate(p.values) if v is child or any(x is child for x in ast.walk(v))), None)
            if i:
                for v in p.values[:i]:
                    pc = G.f_and(pc, az.formula(v))
        child = p
    return pc


def build_reviewed(run, prog):
    """(function fq, construct kind, source fragment) -> (reason, condition() -> (bool, text))"""
    sm = prog.mod("decoders.shell")
    pm = prog.mod("decoders.path")
    out = {}

    def cmd_first_token():
        d = rx.dfa_of(prog.const(sm, "CMD_RE"), "any", "any")
        fb = rx.first_bytes(d)
        ok = fb & (rx.SPACE | rx.mask_of(b")")) == 0 and (rx.minlen(d) or 0) >= 3
        return ok, "L(CMD_RE) never starts with whitespace or ')' and has length >= 3, so the (possibly truncated) command keeps a first token"
    out[("decoders.shell.find_cmd_strings", "subscript", "split[0]")] = ("the command text starts with the cmd token", cmd_first_token)

    def ps_two_parts():
        fp = prog.fn("decoders.shell.find_powershell_strings")
        src = [norm_src(s) for s in own_nodes(fp.node) if isinstance(s, ast.stmt)]
        import re as _re
        ok = any(_re.search(r"\.rsplit\((maxsplit=1|None, 1|None, maxsplit=1|sep=None, maxsplit=1)\)", s) for s in src) and \
            any(_re.match(r"if len\(\w+\) != 2:", s) for s in src)
        return ok, "the invocation is the first of exactly two whitespace-separated parts, hence contains a non-space byte; replacing '/' by ' -' keeps one"
    out[("decoders.shell.find_powershell_strings", "subscript", "args[0]")] = ("the invocation before the encoded argument is not blank", ps_two_parts)

    def win_segments():
        d = rx.dfa_of(prog.const(pm, "WINDOWS_PATH_RE"), "any", "any")
        unc = rx.product(d, rx.dfa_of(rb"(?s)\\\\.*", "any", "any"), lambda a, b: a and b)
        ok = rx.included(unc, rx.dfa_of(rb"(?s)(?:[^\\]*\\){4,}[^\\]*", "any", "any"))
        return ok, "every WINDOWS_PATH_RE match starting with two backslashes has at least four backslashes (>= 5 segments); ntpath.normpath keeps the \\\\server\\share root"
    for frag in ("segments[3]", "segments[4]", "segments[2]"):
        out[("decoders.path.*", "subscript", frag)] = ("UNC / device paths have at least five segments", win_segments)      # any function of the module (a helper may build the node)

    def c14_lemma(rules):
        def cond():
            from . import C14
            sub = core.Run("C14", "quick", prog)
            C14.check(sub)
            bad = [o["key"] for o in sub.obligations if not o["ok"] and o["rule"] in rules]
            return not bad, f"C14 rules {sorted(rules)} hold ({len([o for o in sub.obligations if o['rule'] in rules])} obligations re-checked)" + (f"; failing {bad}" if bad else "")
        return cond
    for kind, frag in (("ext", "bytes("),):
        out[("decoders.xml.unescape_xml", kind, frag)] = ("the tokens are exactly the references of XML_ESCAPE_RE: decimal 0-255 or x + two hex digits",
                                                        c14_lemma({"R1-xml", "R2-xml-tokens"}))
    def utf16_only_matches():
        # every .decode('utf-16') in the codec module is applied to group 0 of a UTF16_RE match (through whatever helper)
        from .. import sites as _sites
        cm_ = prog.mod("decoders.codec")
        pat = prog.const(cm_, "UTF16_RE")
        _h, ip, _n = _sites.analysis(prog).run(prog.fn("decoders.codec.find_utf16"))
        recs = [r for r in ip.conv_uses if r[2] == "decode"]
        ok = bool(recs)
        for r in recs:
            t = getattr(r[3][0], "term", None)
            ok = ok and isinstance(t, tuple) and t[:1] == ("group",) and t[2] == 0 and ip.matches.get(t[1], {}).get("pattern") == pat
        ok2, why = c14_lemma({"R6-utf16"})()
        return ok and ok2, "every decode('utf-16') receives group 0 of a UTF16_RE match; " + why
    out[("decoders.codec.*", "method", ".decode('utf-16')")] = ("every match is a sequence of (byte, NUL) pairs: valid UTF-16LE without surrogates or BOM",
                                                                utf16_only_matches)

    c10_run = []

    def c10_dom(*key_subs):
        def cond():
            from . import C10
            if not c10_run:
                sub = core.Run("C10", "quick", prog)
                C10.check(sub)
                c10_run.append(sub)
            sub = c10_run[0]
            for key_sub in key_subs:
                obs = [o for o in sub.obligations if key_sub in o["key"]]
                if not obs or not all(o["ok"] for o in obs):
                    return False, f"C10 obligation '{key_sub}' does not hold"
            return True, f"C10 obligations {list(key_subs)} hold (the validator dominates the call AND accepts only what the parser accepts)"
        return cond
    out[("decoders.network.find_urls", "call", "parse_url(")] = ("is_url accepted the very text that parse_url splits, so urlsplit cannot raise",
                                                                 c10_dom("find_urls/network.url-node", "decoders.network.is_url/formula"))
    out[("decoders.network.find_ips", "call", "parse_ip(")] = ("is_ip accepted the text, so inet_aton / IPv4Address accept it",
                                                               c10_dom("is_ip-dominates-parse_ip", "decoders.network.is_ip/formula"))

    def c20_encoder():
        from . import C20
        sub = core.Run("C20", "quick", prog)
        C20.check(sub)
        obs = [o for o in sub.obligations if "node_to_dict" in o["key"] or "NodeEncoder" in o["key"]]
        return bool(obs) and all(o["ok"] for o in obs), "node_to_dict produces only str/int/list/dict values, so JSONEncoder.default is reached for Node objects only"
    out[("json_conversion.NodeEncoder.default", "ext", "json.JSONEncoder.default")] = ("the encoder only meets Node objects and JSON-native values", c20_encoder)

    def xortool_raise():
        fi = prog.fn("xortool.guess_key_length")
        ok = any(isinstance(n, ast.Raise) for n in own_nodes(fi.node))
        pb = prog.const(prog.mod("decoders.powershell"), "POWERSHELL_BYTES_RE")
        return ok and (rx.minlen(rx.dfa_of(pb, "any", "any")) or 0) >= 1001, \
            "xortool is only given byte arrays of >= 501 bytes: the first fitness is positive and an empty list of local maxima needs two adjacent exactly equal floating-point fitnesses with irrational denominators"
    out[("xortool.guess_key_length", "raise", "raise AnalysisError")] = ("no candidates only for inputs far beyond practical sizes (stated assumption)", xortool_raise)
    return out
