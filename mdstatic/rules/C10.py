"""C10 - reported network indicators are well-formed and normalised (structural part)."""
from __future__ import annotations

import ast

from .. import guards as G
from .. import rx
from ..core import norm_src
from ..model import bind_node_call, need, own_nodes
from . import common

EXPLANATION = (
    "Static analysis of decoders/network.py, decoders/path.py and domains.py: (R1) every construction of a network.domain / "
    "network.email / network.url / network.ip node is located (through the match_to_hit wrapper and parse_ip) and its reaching "
    "condition is shown, by truth table, to imply the positive outcome of the validator applied to the very text that becomes the "
    "node's value (or, for e-mails, to the domain group); network.ip/ipv6 nodes are constructed only in parse_ip/parse_ipv6 with the "
    "library's compressed form as value; (R2) the validator bodies are compared with the statement (two parts, non-empty name, "
    "upper-cased TLD in the table; scheme in {http, https, ftp} and non-empty hostname, ValueError -> False) and every table entry is an "
    "upper-case LDH label; (R3) alphabets and minimum lengths of the indicator patterns; (R4) the set of bytes normalize_percent "
    "decodes is computed by exhaustive evaluation of its guard over the 256 byte values and compared with RFC 3986 'unreserved', the "
    "other arm upper-cases, the label guard is 'shorter than the input'; (R5) the IP obfuscation label guard is compressed != text. "
    "ipaddress / urlsplit are trusted."
)
TRUSTED = ["ipaddress.IPv4Address.compressed is the canonical dotted quad (Python >= 3.9.5 rejects leading zeros)", "urllib.parse.urlsplit / SplitResult.port validation",
           "socket.inet_aton accepts the obfuscated forms"]

NET_TYPES = {"network.domain": "is_domain", "network.email": "is_domain", "network.url": "is_url"}


def byte_denotation(expr: ast.expr, var: str) -> set[int]:
    """{c : expr holds with `var` = bytes([c])} by exhaustive evaluation of a comparison/boolean expression"""
    def ev(e, c):
        if isinstance(e, ast.BoolOp):
            vals = [ev(v, c) for v in e.values]
            return all(vals) if isinstance(e.op, ast.And) else any(vals)
        if isinstance(e, ast.UnaryOp) and isinstance(e.op, ast.Not):
            return not ev(e.operand, c)
        if isinstance(e, ast.Compare):
            left = ev(e.left, c)
            res = True
            for op, r in zip(e.ops, e.comparators):
                right = ev(r, c)
                if isinstance(op, ast.LtE):
                    ok = left <= right
                elif isinstance(op, ast.Lt):
                    ok = left < right
                elif isinstance(op, ast.GtE):
                    ok = left >= right
                elif isinstance(op, ast.Gt):
                    ok = left > right
                elif isinstance(op, ast.Eq):
                    ok = left == right
                elif isinstance(op, ast.NotEq):
                    ok = left != right
                elif isinstance(op, ast.In):
                    ok = left in right
                elif isinstance(op, ast.NotIn):
                    ok = left not in right
                else:
                    raise ValueError("unsupported comparison")
                res = res and ok
                left = right
            return res
        if isinstance(e, ast.Name) and e.id == var:
            return bytes([c])
        if isinstance(e, ast.Constant):
            return e.value
        if isinstance(e, (ast.Tuple, ast.List, ast.Set)):
            return tuple(ev(x, c) for x in e.elts)
        if isinstance(e, ast.Call) and isinstance(e.func, ast.Attribute) and e.func.attr in ("isalnum", "isalpha", "isdigit") and not e.args:
            return getattr(ev(e.func.value, c), e.func.attr)()
        raise ValueError(f"unsupported construct {type(e).__name__} in a byte predicate")
    return {c for c in range(256) if ev(expr, c)}


def site_pc(fi, node, az):
    """reaching condition of an expression inside fi, including enclosing comprehension filters"""
    stmt = common.enclosing_stmt(node)
    pc = G.reach(fi.body, stmt, az)
    if pc is None:
        return None
    for p in common.parents(node):
        if p is stmt:
            break
        if isinstance(p, (ast.ListComp, ast.GeneratorExp, ast.SetComp)):
            for g in p.generators:
                for c in g.ifs:
                    pc = G.f_and(pc, az.formula(c))
    return pc


def check(run):
    prog = run.prog
    from . import common as _common
    _common.fresh_hits(run, "C10")
    _common.no_unsafe_cuts(run, "C10", "R0-no-cut", floor=3)
    nm = prog.mod("decoders.network")
    w = lambda n, m=nm: f"{m.rel}:{getattr(n, 'lineno', 1)}"   # noqa: E731
    mth = prog.fn("hit.match_to_hit")
    rgh = prog.fn("hit.regex_hits")
    pip = prog.fn("decoders.network.parse_ip")
    pip6 = prog.fn("decoders.network.parse_ipv6")
    validators = {n: prog.fn(f"decoders.network.{n}") for n in ("is_domain", "is_ip", "is_url")}

    # ------------------------------------------------------------------ R1 validator dominance
    n_sites = 0
    for fi in prog.all_funcs():
        if isinstance(fi.node, ast.Lambda):
            continue
        m = fi.module
        for n in own_nodes(fi.node):
            if not isinstance(n, ast.Call):
                continue
            typ = None
            value_expr = None
            c = prog.callee(m, fi, n)
            if prog.is_node_ctor(m, fi, n):
                s = bind_node_call(prog, m, fi, n, lambda e: 2 if isinstance(e, ast.Call) else None)   # every starred argument in the package is a pair
                P = prog.node_class_params()
                t = s.args[P[0]]
                typ = prog.try_fold(m, t) if isinstance(t, ast.AST) else None
                v = s.args[P[1]]
                value_expr = v if isinstance(v, ast.AST) else (v[1] if isinstance(v, tuple) and v[0] == "star" else None)
            elif c.func is mth and n.args:
                typ = prog.try_fold(m, n.args[0])
                grp = n.args[2] if len(n.args) > 2 else None
                gi = prog.try_fold(m, grp) if grp is not None else 0
                value_expr = ast.parse(f"{norm_src(n.args[1])}.group({gi})" if gi else f"{norm_src(n.args[1])}.group()", mode="eval").body
            elif c.func is rgh and n.args:
                typ = prog.try_fold(m, n.args[0])
                if typ in NET_TYPES:
                    run.ob("R1-validator-dominance", f"{fi.fq}/regex_hits-{typ}", False, w(n, m), f"{typ} nodes are not produced by the unvalidated regex_hits helper",
                           "regex_hits applies no validator", mech="who-may-construct")
                continue
            if typ not in NET_TYPES:
                continue
            if fi in (pip, pip6):
                continue
            n_sites += 1
            vname = NET_TYPES[typ]
            env = common.block_env(fi.body, common.enclosing_stmt(n)) or {}
            az = G.Atomizer(subst=env)
            pc = site_pc(fi, n, az)
            need(pc is not None, f"internal: cannot locate the construction site in {fi.fq}")
            vsrc = norm_src(az.inline(value_expr)) if value_expr is not None else "?"
            # the validated text
            if typ == "network.email":
                # statement: local-part@domain with a registered-TLD domain: the validator is applied to the domain group (1) of the same match
                base = vsrc[: vsrc.rindex(".group(")] if ".group(" in vsrc else vsrc
                want = f"truthy:{vname}({base}.group(1))"
            elif typ == "network.url":
                # value = normalize_percent_encoding(X)[0] (possibly through a temporary): validator on X
                inner = value_expr
                txt = None
                for cand in [value_expr] + list(env.values()):
                    for x in ast.walk(cand) if isinstance(cand, ast.AST) else []:
                        if isinstance(x, ast.Call) and prog.callee(m, fi, x).func is prog.fn("decoders.network.normalize_percent_encoding") and x.args:
                            txt = norm_src(az.inline(x.args[0]))
                # the tuple-unpacked temporaries (url, obfuscation = normalize(...)) are not in block_env: look at the assignment
                if txt is None and isinstance(inner, ast.Name):
                    for st in own_nodes(fi.node):
                        if isinstance(st, ast.Assign) and isinstance(st.targets[0], ast.Tuple) and any(common.is_name(t, inner.id) for t in st.targets[0].elts) and \
                                isinstance(st.value, ast.Call) and prog.callee(m, fi, st.value).func is prog.fn("decoders.network.normalize_percent_encoding"):
                            txt = norm_src(az.inline(st.value.args[0]))
                want = f"truthy:{vname}({txt})"
            else:
                want = f"truthy:{vname}({vsrc})"
            atoms = {a[1] for a in G.atoms_of(pc) if a[0] == "atom"}
            ok = want in atoms and G.implies(pc, ("atom", want))[0]
            if not ok and typ == "network.url":
                # or the validator is applied to the reported (normalised) value itself
                want2 = f"truthy:{vname}({vsrc})"
                if want2 in atoms and G.implies(pc, ("atom", want2))[0]:
                    ok, want = True, want2
            run.ob("R1-validator-dominance", f"{fi.fq}/{typ}-node", ok, w(n, m),
                   f"a {typ} node is constructed only after {vname}() accepted the text that becomes its value" + (" (the domain group)" if typ == "network.email" else ""),
                   f"needs `{want[7:]}` to hold; reaching condition is {G.show(pc)}", mech="reaching condition => validator atom (truth table)")
            if typ == "network.domain" and fi.fq == "decoders.network.find_domains":
                # module-level integer constants (MIN_DOMAIN_LENGTH = 7) are read as their value
                consts_ = {k_: v_ for k_, v_ in m.assigns.items() if isinstance(v_, ast.Constant) and isinstance(v_.value, int) and not isinstance(v_.value, bool)
                           and k_ not in m.multi_assigned and k_ not in env}
                az2 = G.Atomizer(subst={**consts_, **env}, is_int=lambda e: True)
                pc2 = site_pc(fi, n, az2)
                ok7, _ = G.implies(pc2, az2.formula(common.spec_expr(f"len({vsrc}) >= 7")))
                run.ob("R1-validator-dominance", f"{fi.fq}/domain-min-length-7", ok7, w(n, m), "domains found in free text are at least seven characters long",
                       f"reaching condition {G.show(pc2)}", mech="truth table with integer theory")
    run.note("network_node_construction_sites", n_sites)
    need(n_sites >= 5, f"anchor: only {n_sites} network.* construction sites found")
    # network.ip / network.ipv6: who may construct
    for fi in prog.all_funcs():
        if isinstance(fi.node, ast.Lambda):
            continue
        for n in own_nodes(fi.node):
            if isinstance(n, ast.Call) and prog.is_node_ctor(fi.module, fi, n) and n.args:
                t = prog.try_fold(fi.module, n.args[0])
                if t in ("network.ip", "network.ipv6"):
                    run.ob("R1-validator-dominance", f"{fi.fq}/constructs-{t}", fi in (pip, pip6), w(n, fi.module),
                           f"{t} nodes are constructed only by the parsing helper that canonicalises the address", f"{fi.fq} builds a {t} node itself",
                           mech="who-may-construct")
    for fi, cls in ((pip, "IPv4Address"), (pip6, "IPv6Address")):
        sites = [n for n in own_nodes(fi.node) if isinstance(n, ast.Call) and prog.is_node_ctor(nm, fi, n)]
        need(len(sites) == 1, f"anchor: one Node in {fi.fq}")
        env = common.block_env(fi.body, common.enclosing_stmt(sites[0])) or {}
        az = G.Atomizer(subst=env)
        s = bind_node_call(prog, nm, fi, sites[0], lambda e: None)
        P = prog.node_class_params()
        val = norm_src(az.inline(s.args[P[1]]))
        IP = fi.params[0]
        # address = IPv4Address(socket.inet_aton(ip.decode())) defined inside try: not in block_env -> look it up
        addr_defs = [st for st in own_nodes(fi.node) if isinstance(st, ast.Assign) and common.is_name(st.targets[0], "address")]
        canon = len(addr_defs) == 1 and norm_src(addr_defs[0].value).startswith(f"{cls}(socket.inet_")
        okv = val in ("address.compressed.encode()",) and canon
        run.ob("R1-validator-dominance", f"{fi.fq}/value-is-compressed-form", okv, w(sites[0]), f"the node's value is {cls}(...).compressed: the canonical spelling",
               f"value = `{val}`", mech="constructor binding")
        ob = s.args[P[2]]
        obs = norm_src(az.inline(ob)) if isinstance(ob, ast.AST) else ""
        lab = prog.try_fold(nm, ob.body) if isinstance(ob, ast.IfExp) else None
        okl = isinstance(ob, ast.IfExp) and lab == "ip_obfuscation" and prog.try_fold(nm, ob.orelse) == "" and \
            norm_src(az.inline(ob.test)) in (f"address.compressed.encode() != {IP}", f"{IP} != address.compressed.encode()")
        run.ob("R5-ip-label", f"{fi.fq}/obfuscation-label-guard", okl, w(sites[0]), "labelled ip_obfuscation exactly when the canonical form differs from the text",
               f"label expression `{obs}`", mech="expression-shape match")
        sp_ok = prog.try_fold(nm, s.args[P[3]]) == 0 and norm_src(s.args[P[4]]) == f"len({IP})"
        run.ob("R5-ip-label", f"{fi.fq}/span-is-text", sp_ok, w(sites[0]), "the node covers the address text (0, len(text)) before the caller shifts it", "", mech="constructor binding")
    # find_ips: value identical to the text it covers when found in free text: is_ip(ip) dominates parse_ip(match.group())
    fips = prog.fn("decoders.network.find_ips")
    calls = [n for n in own_nodes(fips.node) if isinstance(n, ast.Call) and prog.callee(nm, fips, n).func is pip]
    need(len(calls) == 1, "anchor: find_ips calls parse_ip once")
    env = common.block_env(fips.body, common.enclosing_stmt(calls[0])) or {}
    az = G.Atomizer(subst=env)
    pc = site_pc(fips, calls[0], az)
    arg = norm_src(az.inline(calls[0].args[0]))
    want = f"truthy:is_ip({arg})"
    ok = want in {a[1] for a in G.atoms_of(pc) if a[0] == "atom"} and G.implies(pc, ("atom", want))[0]
    run.ob("R1-validator-dominance", "decoders.network.find_ips/is_ip-dominates-parse_ip", ok, w(calls[0]),
           "in free text only strings IPv4Address accepts (canonical dotted quads) are parsed, so the node's value equals the text it covers",
           f"needs is_ip({arg}); reaching condition {G.show(pc)}", mech="reaching condition => validator atom")
    par = getattr(calls[0], "_parent", None)
    shift_ok = False
    if isinstance(par, ast.Attribute) and par.attr == "shift" and isinstance(par._parent, ast.Call) and par._parent.args:
        env_u = common.block_env(fips.body, common.enclosing_stmt(calls[0]), unpack=True) or {}
        sh_ = norm_src(G.Atomizer(subst=env_u).inline(par._parent.args[0]))
        shift_ok = sh_.endswith((".start()", ".start(0)", ".span()[0]", ".span(0)[0]"))
    run.ob("R1-validator-dominance", "decoders.network.find_ips/shifted-to-match", shift_ok, w(calls[0]), "the parsed node is shifted to the match position", "", mech="call-shape match")
    run.floor("R1-validator-dominance", 12)

    # ------------------------------------------------------------------ R2 validator bodies
    isd = validators["is_domain"]
    D_ = isd.params[0]
    okd = False
    det = "is_domain: no recognised split of the text at its last dot (rsplit(b'.', 1) or rpartition(b'.'))"
    # The decision of is_domain as a formula: OR over its return statements of (reaching condition AND returned value), with
    # temporaries and tuple unpackings inlined.  Two spellings of "split at the last dot" are understood and mapped to the same
    # atoms HASDOT / HEAD / TAIL; control flow (guards, merged or split ifs, early returns) is free.
    rets = [n for n in own_nodes(isd.node) if isinstance(n, ast.Return)]
    fs = []
    idiom = None
    for r in rets:
        env_ = common.block_env(isd.body, r, unpack=True) or {}
        probe = G.Atomizer(subst=env_, rename={D_: "D"})
        txt = norm_src(probe.inline(r.value)) if r.value is not None else ""
        pc_txt = G.show(G.reach(isd.body, r, probe) or G.T)
        for t_ in (txt, pc_txt):
            if "D.rsplit(" in t_:
                idiom = idiom or "rsplit"
            if "D.rpartition(" in t_:
                idiom = idiom or "rpartition"
    rew = []
    assuming = G.T
    if idiom == "rsplit":
        for sp in ("D.rsplit(b'.', 1)", "D.rsplit(b'.', maxsplit=1)", "D.rsplit(sep=b'.', maxsplit=1)"):
            rew += [(sp + "[0]", "HEAD"), (sp + "[1]", "TAIL"), (sp + "[-1]", "TAIL"), ("len(" + sp + ")", "NPARTS")]
    elif idiom == "rpartition":
        sp = "D.rpartition(b'.')"
        rew += [(sp + "[0]", "HEAD"), (sp + "[2]", "TAIL"), (sp + "[-1]", "TAIL"), ("truthy:" + sp + "[1]", "truthy:HASDOT"), (sp + "[1]", "HASDOT")]
    if idiom:
        is_int = lambda e: "len(" in norm_src(e)    # noqa: E731
        for r in rets:
            env_ = common.block_env(isd.body, r, unpack=True) or {}
            az = G.Atomizer(subst=env_, rename={D_: "D"}, rewrite=rew, is_int=is_int)
            pc = G.reach(isd.body, r, az)
            val = az.formula(r.value) if r.value is not None else G.F
            fs.append(G.f_and(pc if pc is not None else G.F, val))
        got = G.f_or(*fs) if fs else G.F
        saz = G.Atomizer(is_int=lambda e: norm_src(e) == "NPARTS")
        if idiom == "rsplit":
            # rsplit(b'.', 1) yields 1 or 2 parts; 2 exactly when there is a dot
            spec = saz.formula(common.spec_expr("NPARTS == 2 and HEAD and TAIL.upper() in TOP_LEVEL_DOMAINS"))
            assuming = saz.formula(common.spec_expr("NPARTS >= 1 and NPARTS <= 2"))
        else:
            # rpartition: the head is empty when there is no dot
            spec = saz.formula(common.spec_expr("HASDOT and HEAD and TAIL.upper() in TOP_LEVEL_DOMAINS"))
            assuming = saz.formula(common.spec_expr("HASDOT or not HEAD"))
        okd, cm = G.equivalent(got, spec, assuming=assuming)
        det = f"is_domain returns {G.show(got)}" + (f"; differs from the statement at {G.show_model(cm)}" if cm else "")
    run.ob("R2-validators", "decoders.network.is_domain/formula", okd, w(isd.node),
           "is_domain <=> the text splits at its last dot into a non-empty name and a TLD whose upper-case form is in the table", det,
           mech="return formula (reaching conditions + inlined temporaries) vs the statement, by truth table")
    tm = prog.mod("domains")
    tlds = prog.const(tm, "TOP_LEVEL_DOMAINS")
    bad = sorted(t for t in tlds if not (isinstance(t, bytes) and t and t == t.upper() and all(c in b"ABCDEFGHIJKLMNOPQRSTUVWXYZ0123456789-" for c in t)))
    run.ob("R2-validators", "domains.TOP_LEVEL_DOMAINS/upper-case-ldh", not bad and len(tlds) >= 1000, f"{tm.rel}:8",
           f"all {len(tlds)} table entries are upper-case LDH labels (an entry in another case could never be hit by tld.upper())", f"offending entries {bad[:5]}",
           mech="table scan")
    isu = validators["is_url"]
    U_ = isu.params[0]
    tries = [n for n in isu.node.body if isinstance(n, ast.Try)]
    oku = False
    det = "is_url body shape not recognised"
    if len(tries) == 1:
        t = tries[0]
        sp = [s for s in t.body if isinstance(s, ast.Assign) and isinstance(s.value, ast.Call) and prog.dotted(nm, s.value.func) == "urllib.parse.urlsplit" and
              common.is_name(s.value.args[0], U_)]
        port = any(isinstance(s, ast.Expr) and isinstance(s.value, ast.Attribute) and s.value.attr == "port" for s in t.body)
        hv = [h for h in t.handlers if h.type is not None and norm_src(h.type) == "ValueError" and len(h.body) == 1 and isinstance(h.body[0], ast.Return) and
              prog.try_fold(nm, h.body[0].value) is False]
        tail = [s for s in isu.node.body if isinstance(s, ast.Return)]
        if sp and port and hv and len(tail) == 1:
            S_ = sp[0].targets[0].id
            az = G.Atomizer(rename={S_: "SPLIT"})
            got = az.formula(tail[0].value)
            spec = G.Atomizer().formula(common.spec_expr("SPLIT.scheme and SPLIT.hostname and SPLIT.scheme in (b'http', b'https', b'ftp')"))
            oku, cm = G.equivalent(got, spec)
            det = f"returns {G.show(got)}"
    run.ob("R2-validators", "decoders.network.is_url/formula", oku, w(isu.node),
           "is_url <=> urlsplit and its port check raise no ValueError, the scheme is http/https/ftp and the hostname is non-empty", det, mech="statement shape + truth table")
    ure = prog.const(nm, "URL_RE")
    ud = rx.dfa_of(ure)
    okp, wt = rx.included(ud, rx.dfa_of(rb"(?si)(?:ftp|https?)://.*"), witness=True)
    run.ob("R2-validators", "decoders.network.URL_RE/schemes", okp, w(nm.tree), "every text URL_RE matches starts with ftp://, http:// or https://", f"also matches {wt!r}", mech="language containment")
    isi = validators["is_ip"]
    oki = any(isinstance(n, ast.Call) and prog.dotted(nm, n.func) == "ipaddress.IPv4Address" for n in own_nodes(isi.node)) and \
        any(isinstance(h.type, (ast.Tuple, ast.Name)) and "AddressValueError" in norm_src(h.type) and prog.try_fold(nm, h.body[0].value) is False
            for t in own_nodes(isi.node) if isinstance(t, ast.Try) for h in t.handlers)
    run.ob("R2-validators", "decoders.network.is_ip/formula", oki, w(isi.node), "is_ip <=> ipaddress.IPv4Address accepts the ASCII text", "", mech="statement shape")
    run.floor("R2-validators", 5)

    # ------------------------------------------------------------------ R3 alphabets
    dre = prog.const(nm, "DOMAIN_RE")
    dc = rx.compile_pattern(dre)
    ldh = rx.ALPHA | rx.DIGIT | rx.mask_of(b"-.")
    a = rx.alphabet(dc.dfa)
    run.ob("R3-alphabets", "decoders.network.DOMAIN_RE/alphabet", a & ~ldh == 0, w(nm.tree), "domains found in free text consist of letters, digits, hyphens and dots only",
           f"also {rx.describe_mask(a & ~ldh)}", mech="alphabet of the pattern language")
    ere = prog.const(nm, "EMAIL_RE")
    g1 = rx.group_language(ere, 1)
    a1 = rx.alphabet(g1.dfa)
    run.ob("R3-alphabets", "decoders.network.EMAIL_RE/domain-group-alphabet", a1 & ~ldh == 0, w(nm.tree), "the domain group of an e-mail consists of letters, digits, hyphens and dots only",
           f"also {rx.describe_mask(a1 & ~ldh)}", mech="alphabet of the group language")
    ec = rx.compile_pattern(ere, "any", "any")
    oke = rx.included(ec.dfa, rx.dfa_of(rb"(?s)[^@]+@[^@]+", "any", "any"))
    run.ob("R3-alphabets", "decoders.network.EMAIL_RE/local-at-domain", oke, w(nm.tree), "an e-mail is local-part @ domain with exactly one @", "", mech="language containment")
    ire = prog.const(nm, "IP_RE")
    ai = rx.alphabet(rx.compile_pattern(ire).dfa)
    run.ob("R3-alphabets", "decoders.network.IP_RE/alphabet", ai & ~(rx.DIGIT | rx.mask_of(b".xXabcdefABCDEF")) == 0, w(nm.tree), "IP candidates are digits, dots and hex spellings", "", mech="alphabet")
    # ------------------------------------------------------------------ R4 percent normalisation
    npe = prog.fn("decoders.network.normalize_percent_encoding")
    inner = [f for q, f in nm.funcs.items() if q.startswith("normalize_percent_encoding.")]
    need(len(inner) == 1, "anchor: normalize_percent_encoding has one nested callback")
    cb = inner[0]
    M_ = cb.params[0]
    unres = set(b"ABCDEFGHIJKLMNOPQRSTUVWXYZabcdefghijklmnopqrstuvwxyz0123456789-._~")
    # the callback sees one of 22*22 two-hex-digit texts (escape-pattern obligation below): interpret its syntax tree for every one
    from ..pureeval import Evaluator, FakeMatch, Raised, Unsupported
    outer = {}
    for st_ in npe.node.body:
        if isinstance(st_, ast.Assign) and len(st_.targets) == 1 and isinstance(st_.targets[0], ast.Name):
            try:
                outer[st_.targets[0].id] = Evaluator(prog, nm).ev(st_.value, dict(outer))
            except (Unsupported, Raised):
                pass
    bad, det, n_eval = [], "", 0
    hexd = b"0123456789abcdefABCDEF"
    try:
        for a_ in hexd:
            for b_ in hexd:
                h_ = bytes([a_, b_])
                want = bytes([int(h_, 16)]) if int(h_, 16) in unres else b"%" + h_.upper()
                try:
                    got = Evaluator(prog, nm).call_function(cb.node, [FakeMatch({0: b"%" + h_, 1: h_})], outer)
                except Raised as r_:
                    got = f"raises {r_}"
                n_eval += 1
                if got != want:
                    bad.append((b"%" + h_, got, want))
    except Unsupported as u_:
        det = f"callback not analysable: {u_}"
    okn = not det and not bad and n_eval == 484
    if bad:
        det = f"{len(bad)} of 484 escapes are normalised differently, e.g. " + "; ".join(f"{h!r} -> {g!r} (documented: {w_!r})" for h, g, w_ in bad[:4])
    run.ob("R4-percent", "decoders.network.normalize_percent/unreserved-set", okn, w(cb.node),
           "exactly the escapes of RFC 3986 unreserved characters (ALPHA DIGIT - . _ ~) are decoded, every other escape is upper-cased", det,
           mech="exhaustive evaluation of the guard over 256 byte values")
    subs = [n for n in own_nodes(npe.node) if isinstance(n, ast.Call) and prog.dotted(nm, n.func) == "regex.sub"]
    oks = False
    if len(subs) == 1:
        pat = prog.try_fold(nm, subs[0].args[0])
        oks = isinstance(pat, bytes) and rx.equal(rx.dfa_of(pat), rx.dfa_of(rb"%[0-9A-Fa-f]{2}")) and common.is_name(subs[0].args[1], cb.node.name) and \
            common.is_name(subs[0].args[2], npe.params[0]) and rx.equal(rx.group_language(pat, 1).dfa, rx.dfa_of(rb"[0-9A-Fa-f]{2}"))
    run.ob("R4-percent", "decoders.network.normalize_percent_encoding/escape-pattern", oks, w(npe.node), "an escape is % followed by exactly two hex digits, and every escape of the text is visited",
           "", mech="language equality")
    rets = [n for n in own_nodes(npe.node) if isinstance(n, ast.Return)]
    sub_t = common.enclosing_stmt(subs[0]).targets[0].id if subs and isinstance(common.enclosing_stmt(subs[0]), ast.Assign) else None
    ren_l = {sub_t: "NORM", npe.params[0]: "URI"} if sub_t else {}
    f_lab, f_emp, other = common.label_conditions(prog, nm, npe, "escape.percent", lambda env: G.Atomizer(is_int=lambda e: True, rename=ren_l,
                                                                                                     subst={k: v for k, v in env.items() if k != sub_t}))
    shorter = G.Atomizer(is_int=lambda e: True).formula(common.spec_expr("len(NORM) < len(URI)"))
    okl = bool(rets) and all(isinstance(r_.value, ast.Tuple) and len(r_.value.elts) == 2 and common.is_name(r_.value.elts[0], sub_t) for r_ in rets) and \
        not other and G.equivalent(f_lab, shorter)[0] and G.equivalent(f_emp, G.f_not(shorter))[0]
    run.ob("R4-percent", "decoders.network.normalize_percent_encoding/label-guard", okl, w(npe.node), "labelled escape.percent exactly when normalisation shortened the text", "",
           mech="truth table with integer theory")
    # the URL node's value is the normalisation of exactly the text its span covers (trimming happens BEFORE normalising: indices of
    # the normalised text are not positions of the raw one)
    fu = prog.fn("decoders.network.find_urls")
    from .. import prov
    from .. import sites as _sites
    from ..absint import fmt_term
    A_ = _sites.analysis(prog)
    hits_u, interp_u, _nu = A_.run(fu)
    need(hits_u, "anchor: find_urls builds no node")
    groups_u = {}
    for h_ in hits_u:
        t_ = prov.value_term(h_)
        ok_, why_ = False, f"value term {fmt_term(t_)} is not the percent-normalisation of a piece of the data"
        if isinstance(t_, tuple) and t_ and t_[0] == "re.sub":
            ext = prov.extent_of_term(t_[3], interp_u)
            ls_, le_ = interp_u.as_lin(h_.fields["start"]), interp_u.as_lin(h_.fields["end"])
            if ext is None:
                why_ = f"normalised text {fmt_term(t_[3])} is not a contiguous piece of the scanned data"
            elif ls_ is None or le_ is None:
                why_ = "span is not an integer expression"
            else:
                ok_ = h_.state.eq(ls_, ext[0]) and h_.state.eq(le_, ext[1])
                why_ = f"span = ({ls_}, {le_}) but the normalised text is data[{ext[0]} : {ext[1]}] ({fmt_term(t_[3])})"
        shape_ = {"group": "whole-match", "slice": "trimmed-match"}.get(t_[3][0] if isinstance(t_, tuple) and len(t_) > 3 and isinstance(t_[3], tuple) and t_[3] else "", "other-text")
        g_ = groups_u.setdefault(shape_, [True, "", 0])
        g_[0] = g_[0] and ok_
        g_[1] = g_[1] or ("" if ok_ else why_)
        g_[2] += 1
    for k_, (ok_, why_, n_) in sorted(groups_u.items()):
        run.ob("R4-percent", f"decoders.network.find_urls/value-normalises-covered-text/{k_}", ok_, w(fu.node),
               "the URL node's value is normalize_percent_encoding(data[start:end]) for the node's own (start, end)", why_ if not ok_ else f"{n_} paths",
               mech="provenance term of the value x span equality (E4)")
    run.floor("R4-percent", 4)
    run.floor("R3-alphabets", 4)
