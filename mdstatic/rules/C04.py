"""C04 - context preservation: nesting never changes which bytes a result denotes.

Frame discipline of scan_node (E6): invariant (i)-(iii), V4 (pop re-bases OFFSET by the popped context's own
start), V5 (exactly one shift by -OFFSET, same amount on both ends), V7 (attach to the node whose origin OFFSET
is), V8 (only length-preserving hits become contexts; OFFSET advances by the relative start), V10 (no other
writes to span fields); plus Node.shift / shift_nodes / Node.original summaries."""
from .. import frames, noderules

EXPLANATION = (
    "Affine abstract interpretation of the hit loop of Multidecoder.scan_node with symbolic spans: at every attach "
    "site the hit's span is shown to be (s - A(NODE), e - A(NODE)) where A(NODE) is the sum of the starts of the open "
    "contexts, for any registry; contexts are shown to be length-preserving by truth-table equivalence of the "
    "decoded/context test with the model. Decides the re-basing mechanism, not the decoders' own spans (C03/C13-C16)."
)
TRUSTED = ["Python semantics of the statements in the loop", "linear arithmetic (Fourier-Motzkin) in mdstatic.lin"]

VCS = {"V1", "V4", "V5", "V7", "V10"}


def check(run):
    def sel(v):
        if v.vc in VCS:
            return True
        if v.vc == "V8" and (v.key.startswith("context-arm") or v.key in ("decoded-arm/no-push", "decoded-arm/keeps-node",
                                                                          "decoded-test", "two-arms")):
            return True
        return False
    frames.emit(run, sel)
    run.floor("V5", 6)
    run.floor("V4", 6)
    run.floor("V7", 6)
    run.floor("V8", 6)
    noderules.check_original(run, "R-original")
    noderules.check_shift_nodes(run, "R-shift-nodes")
