"""C15 - string concatenation, reversal and replacement are evaluated exactly (structural part)."""
from __future__ import annotations

from .. import prov, rx, sites
from ..absint import fmt_term
from ..model import need

EXPLANATION = (
    "Static analysis of concat.py / reverse.py / vba.py / replace.py / hit.py: provenance terms from the abstract interpreter show "
    "which slices of which groups are combined (x[1:-1].replace(a[1:-1], b[1:-1]); reverse = [-2:0:-1], i.e. the reverse of [1:-1]; "
    "concat = match with the separators removed, then [1:-1]); every quote-stripping slice is justified by the regex engine (the "
    "group's language starts and ends with a quote and has length >= 2); the literal skeleton around the groups of each dialect's "
    "pattern (groups replaced by markers) must contain the documented call shapes with the operands in the documented order; the "
    "separator pattern removed by find_concat is quote . spacer . quote with the very spacer the chain pattern uses; the node span "
    "is the whole expression (group 0) and the type ends in 'string' with a non-empty label. bytes.replace and slicing are trusted."
)
TRUSTED = ["bytes.replace / slicing semantics", "re.sub removes every non-overlapping occurrence left to right"]

QUOTED = rb"""(?s)(?:".*"|'.*')"""

# documented call shapes per dialect, groups as markers \x01 \x02 \x03 = (x, a, b) in the statement's order
SKELETONS = {
    "decoders.replace.REPLACE_RE": [b"\x01.replace(\x02,\x03)", b"\x01.replace( \x02 , \x03 )", b"\x01.REPLACE(\x02,\x03)"],
    "decoders.replace.VBA_REPLACE_RE": [b"Replace(\x01,\x02,\x03)", b"replace( \x01 , \x02 , \x03 )"],
    "decoders.replace.POWERSHELL_REPLACE_RE": [b"\x01-replace\x02,\x03", b"\x01 -replace \x02 , \x03", b"\x01 -Replace \x02,\x03"],
    "decoders.replace.JS_REGEX_REPLACE_RE": [b"\x01.replace(/\x02/,\x03)", b"\x01.replace(/\x02/g, \x03)", b"\x01.replace(/\x02/gi , \x03 )"],
    "decoders.reverse.REVERSE_RE": [b"reverse(\x01)", b"reversed( \x01 )", b"Reverse(\x01)"],
    "decoders.vba.STRREVERSE_RE": [b"StrReverse(\x01)", b"strreverse( \x01 )"],
}
SKELETON_NEG = {
    "decoders.replace.REPLACE_RE": [b"\x02.replace(\x01,\x03)", b"\x01.replace(\x03,\x02)"],
    "decoders.replace.VBA_REPLACE_RE": [b"Replace(\x02,\x01,\x03)"],
    "decoders.replace.POWERSHELL_REPLACE_RE": [b"\x02-replace\x01,\x03"],
    "decoders.replace.JS_REGEX_REPLACE_RE": [b"\x02.replace(/\x01/,\x03)"],
}


def check(run):
    prog = run.prog
    A = sites.analysis(prog)

    def const(q):
        m, n = q.rsplit(".", 1)
        return prog.const(prog.mod(m), n)
    # ------------------------------------------------------------------ R2 skeletons (group roles follow the dialect's syntax)
    for q, words in SKELETONS.items():
        pat = const(q)
        m = prog.mod(q.rsplit(".", 1)[0])
        sk = rx.skeleton_dfa(pat)
        for i, wd in enumerate(words, 1):
            run.ob("R2-group-roles", f"{q}/documented-shape#{i}", rx.member(sk, wd), f"{m.rel}:1",
                   f"the call shape {wd!r} (markers = operand groups in the documented order) is matched", "not in the pattern's skeleton language",
                   mech="regex skeleton membership")
        for i, wd in enumerate(SKELETON_NEG.get(q, []), 1):
            run.ob("R2-group-roles", f"{q}/operand-order#{i}", not rx.member(sk, wd), f"{m.rel}:1",
                   f"the operands cannot appear in another order ({wd!r} is not matched)", "the groups are numbered in a different order than the dialect's syntax",
                   mech="regex skeleton membership")
        ng = rx.group_count(pat)
        want = 3 if "REPLACE" in q and "STRREVERSE" not in q and "REVERSE_RE" not in q else 1
        run.ob("R2-group-roles", f"{q}/group-count", ng == want, f"{m.rel}:1", f"the pattern has exactly {want} capture group(s)", f"{ng} groups", mech="regex parse tree")
    # ------------------------------------------------------------------ provenance per decoder
    qd = rx.dfa_of(QUOTED)
    table = {
        "decoders.replace.find_replace": ("replace3", (1, 2, 3)),
        "decoders.replace.find_powershell_replace": ("replace3", (1, 2, 3)),
        "decoders.replace.find_vba_replace": ("replace3", (1, 2, 3)),
        "decoders.replace.find_js_regex_replace": ("replacejs", (1, 2, 3)),
        "decoders.reverse.find_reverse": ("reverse", (1,)),
        "decoders.vba.find_strreverse": ("reverse", (1,)),
        "decoders.concat.find_concat": ("concat", (0,)),
    }
    for fq, (kind, groups) in table.items():
        fi = prog.fn(fq)
        hits, interp, _n = A.run(fi)
        need(hits, f"anchor: {fq} returns no hit")
        where = f"{fi.module.rel}:{fi.lineno}"
        ok_span = ok_val = ok_lab = True
        det_v = det_s = det_l = ""
        quoted_groups = set()
        pat = None
        for h in hits:
            sp = prov.span_of(h, interp)
            if not (sp[0] == "match" and sp[2] == 0):
                ok_span = False
                det_s = prov.canon_mid(str(sp))
                continue
            pat = interp.matches[sp[1]]["pattern"]
            term = prov.value_term(h)
            t = prov.canon_mid(fmt_term(term))

            def unq(x, k, m=sp[1]):
                # slice(group(m,k), 1, -1)
                from ..lin import Lin
                good = isinstance(x, tuple) and x[0] == "slice" and x[1] == ("group", m, k) and x[2] == Lin(1) and x[3] == Lin(-1)
                if good:
                    quoted_groups.add(k)
                return good
            if kind == "replace3":
                good = isinstance(term, tuple) and term[0] == "replace" and unq(term[1], groups[0]) and unq(term[2], groups[1]) and unq(term[3], groups[2])
            elif kind == "replacejs":
                good = isinstance(term, tuple) and term[0] == "replace" and unq(term[1], 1) and term[2] == ("group", sp[1], 2) and unq(term[3], 3)
            elif kind == "reverse":
                from ..lin import Lin
                good = isinstance(term, tuple) and term[0] == "revslice" and term[1] == ("group", sp[1], 1) and term[2] == Lin(-2) and term[3] == Lin(0)
                # the same value spelled s[1:-1][::-1]: the full reversal of the unquoted literal
                good = good or (isinstance(term, tuple) and term[0] == "revslice" and term[2] is None and term[3] is None and
                                term[1] == ("slice", ("group", sp[1], 1), Lin(1), Lin(-1)))
                if good:
                    quoted_groups.add(1)
            else:
                from ..lin import Lin
                good = isinstance(term, tuple) and term[0] == "slice" and term[2] == Lin(1) and term[3] == Lin(-1) and isinstance(term[1], tuple) and \
                    term[1][0] == "re.sub" and term[1][2] == ("const", b"") and term[1][3] == ("group", sp[1], 0)
                if good:
                    sep = term[1][1]
                    spacer = const("decoders.concat.CONCAT_SPACER_RE")
                    want = rb"['\"]" + spacer + rb"['\"]"
                    good = sep is not None and rx.equal(rx.dfa_of(sep), rx.dfa_of(want))
                    if not good:
                        t += " (separator pattern is not quote . CONCAT_SPACER_RE . quote)"
                    quoted_groups.add(0)
            if not good:
                ok_val = False
                det_v = t
            ty, ob = prov.const_field(h, "type"), prov.const_field(h, "obfuscation")
            if not (isinstance(ty, str) and ty.endswith("string") and isinstance(ob, str) and ob):
                ok_lab = False
                det_l = f"type={ty!r} obfuscation={ob!r}"
        run.ob("R4-span-labels", f"{fq}/span-is-whole-expression", ok_span, where, "the node covers exactly the whole expression (group 0 of the match)", det_s, mech="span linear forms")
        run.ob("R1-evaluation", f"{fq}/value", ok_val, where,
               {"replace3": "value is x[1:-1].replace(a[1:-1], b[1:-1]) with (x, a, b) = groups (1, 2, 3)",
                "replacejs": "value is x[1:-1].replace(pattern, b[1:-1]) with the unquoted regex body as pattern",
                "reverse": "value is the literal's contents reversed: s[-2:0:-1] is the reverse of s[1:-1]",
                "concat": "value is the matched chain with every quote-separator-quote removed, then unquoted"}[kind], det_v, mech="provenance term from abstract interpretation")
        run.ob("R4-span-labels", f"{fq}/type-and-label", ok_lab, where, "the type ends in 'string' (so flatten re-quotes it) and the label is non-empty", det_l, mech="constant fields")
        # R1 quote stripping justified by the group language
        if pat is not None:
            for k in sorted(quoted_groups):
                g = rx.group_language(pat, k) if k else rx.compile_pattern(pat, "any", "any")
                lim = qd if k else rx.dfa_of(rb"""(?s)['"].*['"]""")   # a chain may open and close with different quote characters
                okq = rx.included(g.dfa, lim) and (rx.minlen(g.dfa) or 0) >= 2
                run.ob("R1-evaluation", f"{fq}/group{k}-is-quoted-literal", okq, where,
                       f"group {k} always starts and ends with a quote and has length >= 2, so [1:-1] removes exactly the quotes",
                       f"group {k} language is not inside (\"...\" | '...') or can be shorter than 2", mech="group language containment")
    # ------------------------------------------------------------------ R3 concat chain built from the same constants
    cm = prog.mod("decoders.concat")
    S, SP, CC = (prog.const(cm, n) for n in ("STRING_RE", "CONCAT_SPACER_RE", "CONCAT_RE"))
    run.ob("R3-concat", "decoders.concat.CONCAT_RE/chain", rx.equal(rx.dfa_of(CC), rx.dfa_of(rb"(?:" + S + SP + rb")+" + S)), f"{cm.rel}:1",
           "a chain is one or more (literal, spacer) followed by a literal, with the shared STRING_RE / CONCAT_SPACER_RE", "CONCAT_RE's language is not (STRING_RE CONCAT_SPACER_RE)+ STRING_RE",
           mech="language equality")
    for q in list(SKELETONS) + ["decoders.concat.CONCAT_RE"]:
        cs = rx.cuts(const(q))
        run.ob("R3-concat" if "concat" in q else "R2-group-roles", f"{q}/no-backtracking-cut", not cs, f"{prog.mod(q.rsplit('.', 1)[0]).rel}:1",
               "the pattern has no possessive / atomic construct, so a match is found whenever the text is in its language", f"uses {cs}: expressions followed by "
               "further joinable text can be missed", mech="regex parse tree")
    doc = rb"[ \t\r\n_]*(?:&|\+|&amp;)[ \t\r\n_]*"
    ok, wt = rx.included(rx.dfa_of(doc), rx.dfa_of(SP), witness=True)
    run.ob("R3-concat", "decoders.concat.CONCAT_SPACER_RE/operators", ok, f"{cm.rel}:1", "+, & and &amp; with surrounding whitespace / line continuations are joining operators", f"not matched: {wt!r}",
           mech="language containment")
    okq = rx.included(rx.dfa_of(S), qd)
    run.ob("R3-concat", "decoders.concat.STRING_RE/quoted", okq, f"{cm.rel}:1", "a string literal starts and ends with a quote", "", mech="language containment")
    simple = rb"""(?:"[^"`\\']*"|'[^'"]*')"""
    ok, wt = rx.included(rx.dfa_of(simple), rx.dfa_of(S), witness=True)
    run.ob("R3-concat", "decoders.concat.STRING_RE/contains-plain-literals", ok, f"{cm.rel}:1", "every literal without quote or escape characters is a string literal", f"not matched: {wt!r}",
           mech="language containment")
    # hit.find_and_deobfuscate roles (value from deob_group, span from context_group) are covered by the provenance terms above:
    # the reverse decoders go through it with deob_group=1 and context_group=0.
    run.floor("R1-evaluation", 14)
    run.floor("R2-group-roles", 20)
    run.floor("R4-span-labels", 14)
    # the hits of these decoders are shifted and re-parented in place by scan_node: every call must build fresh nodes
    roots = [prog.fn(q) for q in ("decoders.concat.find_concat", "decoders.reverse.find_reverse", "decoders.vba.find_strreverse", "decoders.replace.find_replace",
                                  "decoders.replace.find_powershell_replace", "decoders.replace.find_vba_replace", "decoders.replace.find_js_regex_replace")]
    from . import common
    common.check_not_memoised(run, "R5-fresh-hits", roots, "every call of the decoder (and of its helpers) builds its nodes afresh")
    run.floor("R5-fresh-hits", 7)
