"""C16 - shell commands are delimited and de-escaped by cmd.exe rules (structural part)."""
from __future__ import annotations

import ast

from spec import grammars as GR

from .. import guards as G
from .. import rx, sites
from ..core import norm_src
from ..model import need, own_nodes
from . import common

EXPLANATION = (
    "Static analysis of decoders/shell.py. (R1) span/text coherence: on every path of find_cmd_strings / find_powershell_strings the "
    "abstract interpreter relates the node's span to the raw text handed to the caret stripper: end - start == len(that text) "
    "(Fourier-Motzkin over match/slice symbols; needs the parenthesis scan to stop at the first unbalanced ')'). (R2) the caret label "
    "is attached exactly when stripping changed the text. (R3) every non-empty prefix of -encodedcommand (and -ec), in - and / style, "
    "quoted, caret-interleaved and after value-less switches, is a word of L(ENC_RE); near misses are not. (R4) the encoded argument "
    "goes through a2b_base64 then utf-16 and replaces the switch; / switches are rewritten before token splitting. (R6) the caret "
    "state machine's loop body is interpreted abstractly into a path table (which byte is emitted, how far the index moves, the new "
    "quote state) and compared case by case with the cmd.exe rules of the statement, including the end-of-text cases. (R7) the "
    "parenthesis balance scan. Conformance of those rules to a real cmd.exe and the look-back delimiting heuristics are not decided."
)
TRUSTED = ["bytes slicing / enumerate semantics", "binascii.a2b_base64, utf-16 codec"]


def check(run):
    prog = run.prog
    from . import common as _common
    _common.fresh_hits(run, "C16")
    sm = prog.mod("decoders.shell")
    A = sites.analysis(prog)
    w = lambda n: f"{sm.rel}:{getattr(n, 'lineno', 1)}"   # noqa: E731
    sc_ = prog.fn("decoders.shell.strip_carets")

    # ------------------------------------------------------------------ R1 span / raw text coherence
    from .C03 import canon
    for fq in ("decoders.shell.find_cmd_strings", "decoders.shell.find_powershell_strings"):
        fi = prog.fn(fq)
        hits, interp, _n = A.run(fi)
        need(hits, f"anchor: {fq} returns no hit")
        oks = {}
        fails = {}
        for h in hits:
            evs = [e for e in h.state.events if e[0] == sc_.fq]
            key = f"{fq}/{h.key()}/span-equals-raw-text"
            ls, le = interp.as_lin(h.fields["start"]), interp.as_lin(h.fields["end"])
            if not evs or evs[-1][1] is None or ls is None or le is None:
                fails[(key, "no caret-stripping call on the path")] = (h, "the node's text does not come from strip_carets on this path")
                continue
            raw = evs[-1][1]
            if h.state.eq(le - ls, raw.length):
                oks[key] = h
            else:
                fails[(key, canon(f"end - start = {le - ls}, len(raw text) = {raw.length}"))] = (h, f"end - start = {le - ls} but the text that was de-escaped has length {raw.length} "
                                                                                          f"(path {'/'.join(h.trace[-5:])})")
        for key, h in oks.items():
            run.ob("R1-coherence", key, True, w(h.site), "the node's span length equals the length of the raw text that was de-escaped into its value", mech="abstract interpretation (E4) + entailment")
        for (key, wit), (h, det) in fails.items():
            run.ob("R1-coherence", f"{key}[{wit}]", False, w(h.site), "the node's span length equals the length of the raw text that was de-escaped into its value", det,
                   mech="abstract interpretation (E4) + entailment")
    run.floor("R1-coherence", 3)

    # ------------------------------------------------------------------ R2 caret label guard
    dc = prog.fn("decoders.shell.deobfuscate_cmd")
    CMD = dc.params[0]
    rt = [n for n in own_nodes(dc.node) if isinstance(n, ast.Return)]
    ok2 = bool(rt)
    for r_ in rt:
        env = common.block_env(dc.node.body, r_) or {}
        ok2 = ok2 and isinstance(r_.value, ast.Tuple) and len(r_.value.elts) == 2 and norm_src(G.Atomizer(subst=env).inline(r_.value.elts[0])) == f"strip_carets({CMD})"
    f_lab, f_emp, other = common.label_conditions(prog, sm, dc, "unescape.shell.carets", lambda env: G.Atomizer(subst=env, rename={CMD: "CMD"}))
    changed = G.Atomizer().formula(common.spec_expr("strip_carets(CMD) != CMD"))
    ok2 = ok2 and not other and G.equivalent(f_lab, changed)[0] and G.equivalent(f_emp, G.f_not(changed))[0]
    run.ob("R2-label", "decoders.shell.deobfuscate_cmd/label-iff-changed", ok2, w(dc.node), "labelled unescape.shell.carets exactly when de-escaping changed the text", "", mech="return cases vs `strip_carets(cmd) != cmd`, by truth table")

    # ------------------------------------------------------------------ R3 encoded-command switch spellings
    enc = prog.const(sm, "ENC_RE")
    ed = rx.dfa_of(enc, "any", "any")
    sw = GR.ENC_SWITCH
    words = []
    for k in range(1, len(sw) + 1):
        words.append(sw[:k])
    words.append("ec")
    n_in = 0
    for p_ in words:
        for style in (" -", "/", " /"):
            for arg in ("AAAA", "'QQBBAA=='", '"QQBB"'):
                wd = (style + p_ + " " + arg).encode()
                okm = rx.member(ed, wd) or rx.member(ed, wd)
                n_in += 1
                if not okm or (p_ in ("e", "ec", "enc", sw) and style == " -" and arg == "AAAA"):
                    run.ob("R3-enc-switch", f"ENC_RE/accepts/{style.strip()}{p_}/{arg[0]}", okm, w(sm.tree), f"the switch spelling {wd!r} is recognised", "not a word of L(ENC_RE)",
                           mech="DFA membership")
    for wd in (b" -nop -noni -e AAAA", b" -NoP -NonI -Enc AAAA", b" -^e^n^c AAAA", b" -e^c QQBB", b' -noni /e AAAA'):
        run.ob("R3-enc-switch", f"ENC_RE/accepts/{wd.decode()[:24]}", rx.member(ed, wd), w(sm.tree), f"{wd!r} (value-less switches / carets before the encoded switch) is recognised",
               "not a word of L(ENC_RE)", mech="DFA membership")
    for wd in (b" -ex AAAA", b" -encodedcommandx AAAA", b" -e", b" -e AAA"):
        run.ob("R3-enc-switch", f"ENC_RE/rejects/{wd.decode()}", not rx.member(ed, wd), w(sm.tree), f"{wd!r} is not an encoded-command invocation", "is a word of L(ENC_RE)", mech="DFA membership")
    run.note("enc_switch_words_checked", n_in)
    cs = rx.cuts(enc) + rx.cuts(prog.const(sm, "CMD_RE")) + rx.cuts(prog.const(sm, "POWERSHELL_INDICATOR_RE"))
    run.ob("R3-enc-switch", "shell-patterns/no-backtracking-cut", not cs, w(sm.tree), "no possessive / atomic construct in the shell patterns", f"{cs}", mech="regex parse tree")
    cmdre = prog.const(sm, "CMD_RE")
    a = rx.alphabet(rx.skeleton_dfa(cmdre))     # the part after the cmd token (group 1 replaced by a marker)
    run.ob("R7-delimiting", "decoders.shell.CMD_RE/stops-at-NUL", a & 1 == 0, w(sm.tree), "a cmd match never contains a NUL byte (it ends at the next NUL or the end of the text)", "", mech="alphabet")

    # ------------------------------------------------------------------ R4 encoded argument handling
    fp = prog.fn("decoders.shell.find_powershell_strings")
    # roles are taken from the data flow, not from variable names: ENC is what a2b_base64 is given, B64 what its statement defines,
    # RW the '/'-to-' -' rewrite, ARGS the token list split from it
    simple = [s_ for s_ in own_nodes(fp.node) if isinstance(s_, ast.Assign) and len(s_.targets) == 1 and isinstance(s_.targets[0], ast.Name)]
    order = {id(s_): i for i, s_ in enumerate(s_ for s_ in own_nodes(fp.node) if isinstance(s_, ast.stmt))}
    conv_st = [s_ for s_ in simple if any(isinstance(c_, ast.Call) and prog.dotted(sm, c_.func) == "binascii.a2b_base64" for c_ in ast.walk(s_.value))]
    ENC = B64 = None
    okc = False
    if len(conv_st) == 1:
        call = next(c_ for c_ in ast.walk(conv_st[0].value) if isinstance(c_, ast.Call) and prog.dotted(sm, c_.func) == "binascii.a2b_base64")
        if len(call.args) == 1 and isinstance(call.args[0], ast.Name):
            ENC, B64 = call.args[0].id, conv_st[0].targets[0].id
            vs = norm_src(conv_st[0].value)
            okc = vs.startswith(f"binascii.a2b_base64({ENC}).decode('utf-16'") and vs.rstrip().endswith(".encode()")
    run.ob("R4-encoded", "find_powershell_strings/base64-then-utf16", okc, w(conv_st[0]) if conv_st else w(fp.node),
           "the encoded argument is base64-decoded and then read as UTF-16", norm_src(conv_st[0]) if conv_st else "no conversion", mech="data-flow roles + statement match")
    rw_st = [s_ for s_ in simple if isinstance(s_.value, ast.Call) and isinstance(s_.value.func, ast.Attribute) and s_.value.func.attr == "join" and
             prog.try_fold(sm, s_.value.func.value) == b" -" and len(s_.value.args) == 1 and norm_src(s_.value.args[0]).endswith(".split(b'/')")]
    RW = rw_st[0].targets[0].id if len(rw_st) == 1 else None
    sp_st = [s_ for s_ in simple if RW and norm_src(s_.value) in (f"{RW}.split()", f"{RW}.split(None)") and order[id(s_)] > order[id(rw_st[0])]]
    ARGS = sp_st[0].targets[0].id if len(sp_st) == 1 else None
    asm_st = [s_ for s_ in simple if ARGS and B64 and norm_src(s_.value) == f"b' '.join({ARGS}[:-1]) + b' -Command ' + {B64}"]
    okr = bool(rw_st) and bool(sp_st) and bool(asm_st) and order[id(rw_st[0])] < order[id(sp_st[0])] < order[id(asm_st[0])]
    run.ob("R4-encoded", "find_powershell_strings/slash-rewrite-before-split", okr, w(rw_st[0]) if rw_st else w(fp.node),
           "/x switches are rewritten to -x before the invocation is split into tokens", "", mech="data-flow roles + statement order")
    run.ob("R4-encoded", "find_powershell_strings/switch-replaced-by-command", len(asm_st) == 1, w(asm_st[0]) if asm_st else w(fp.node),
           "the value is the invocation without the encoded switch, followed by -Command and the decoded text",
           "no statement builds b' '.join(<tokens>[:-1]) + b' -Command ' + <decoded text>", mech="data-flow roles + statement match")
    import re as _re
    rs = [s_ for s_ in own_nodes(fp.node) if isinstance(s_, ast.stmt) and not isinstance(s_, (ast.If, ast.For, ast.Try, ast.While)) and
          _re.search(r"\.rsplit\((maxsplit=1|None, 1|None, maxsplit=1|sep=None, maxsplit=1)\)", norm_src(s_))]
    run.ob("R4-encoded", "find_powershell_strings/argument-is-last-token", len(rs) == 1, w(rs[0]) if rs else w(fp.node),
           "the encoded argument is the last whitespace-separated token", "", mech="statement match")

    # ------------------------------------------------------------------ R6 caret state machine path table
    caret_table(run, prog, sc_)

    # ------------------------------------------------------------------ R7 parenthesis balance scan
    fc = prog.fn("decoders.shell.find_cmd_strings")
    inner = [n for n in own_nodes(fc.node) if isinstance(n, ast.For) and isinstance(n.iter, ast.Call) and common.is_name(n.iter.func, "enumerate")]
    ok7 = False
    det = "balance loop not found"
    if len(inner) == 1:
        lp = inner[0]
        I_, CH = (x.id for x in lp.target.elts)
        FULL = norm_src(lp.iter.args[0])
        body = lp.body
        az = G.Atomizer(rename={CH: "CH"}, is_int=lambda e: True)
        sh = len(body) == 2 and isinstance(body[0], ast.If) and len(body[0].orelse) == 1 and isinstance(body[0].orelse[0], ast.If) and isinstance(body[1], ast.If)
        if sh:
            c1 = G.equivalent(az.formula(body[0].test), az.formula(common.spec_expr("CH == 41")))[0] or norm_src(body[0].test) == f"{CH} == ord(b')')"
            c2 = norm_src(body[0].orelse[0].test) == f"{CH} == ord(b'(')" or G.equivalent(az.formula(body[0].orelse[0].test), az.formula(common.spec_expr("CH == 40")))[0]
            d1 = norm_src(body[0].body[0]).endswith("-= 1")
            d2 = norm_src(body[0].orelse[0].body[0]).endswith("+= 1")
            par = body[0].body[0].target.id if isinstance(body[0].body[0], ast.AugAssign) else "?"
            azp = G.Atomizer(rename={par: "P"}, is_int=lambda e: True)
            c3 = G.equivalent(azp.formula(body[1].test), azp.formula(common.spec_expr("P < 0")))[0]
            tb = [norm_src(s) for s in body[1].body]
            trunc = f"{FULL} = {FULL}[:{I_}]" in tb and any(s.startswith("end = ") and s.endswith(f"+ {I_}") for s in tb) and isinstance(body[1].body[-1], ast.Break)
            ok7 = c1 and c2 and d1 and d2 and c3 and trunc
            det = f"close-test={c1} open-test={c2} updates={d1 and d2} negative-test={c3} truncate-and-stop={trunc}"
    run.ob("R7-delimiting", "find_cmd_strings/first-unbalanced-paren", ok7, w(fc.node),
           "the command is cut at the first position where closing parentheses outnumber opening ones, and the scan stops there", det, mech="loop-shape + truth tables")
    # the look-back for the enclosing quote / FOR-loop opener reads the text backwards from the token
    n_rev = common.reverse_slices_do_not_wrap(run, "R7-delimiting", [prog.fn("decoders.shell.find_powershell_strings"), prog.fn("decoders.shell.find_cmd_strings")])
    need(n_rev >= 1, "anchor: the shell decoders look backwards from the token with a reverse slice")
    run.floor("R3-enc-switch", 12)


def caret_table(run, prog, sc_):
    """Interpret the loop body of strip_carets abstractly: per path the reaching condition over the atoms
    (current byte is quote / CR / caret, in_string, byte after the caret is CR, continuation reaches the end),
    the emitted index (relative to i), the index advance and the new quote state."""
    sm = sc_.module
    CMD = sc_.params[0]
    loops = [n for n in sc_.node.body if isinstance(n, ast.While)]
    need(len(loops) == 1, "anchor: strip_carets has one loop")
    lp = loops[0]
    w = f"{sm.rel}:{lp.lineno}"
    env0 = common.block_env(sc_.node.body, lp) or {}
    # roles from their uses, not from their initial values: the index is what the loop test bounds, the output what the function
    # returns as bytes(...), the quote flag the variable the loop negates / resets
    I_ = sorted({n.id for n in ast.walk(lp.test) if isinstance(n, ast.Name) and n.id not in (CMD, "len")})
    O_ = sorted({r.value.args[0].id for r in ast.walk(sc_.node) if isinstance(r, ast.Return) and isinstance(r.value, ast.Call) and norm_src(r.value.func) == "bytes" and
                 len(r.value.args) == 1 and isinstance(r.value.args[0], ast.Name)})
    Q_ = sorted({t.id for n in ast.walk(lp) if isinstance(n, ast.Assign) for t in n.targets if isinstance(t, ast.Name) and
                 ((isinstance(n.value, ast.UnaryOp) and isinstance(n.value.op, ast.Not)) or (isinstance(n.value, ast.Constant) and isinstance(n.value.value, bool)))})
    need(len(I_) == 1 and len(Q_) == 1 and len(O_) == 1, "anchor: strip_carets has an index bounded by the loop test, a quote flag toggled in the loop and an output list returned as bytes")
    I, Q, OUT = I_[0], Q_[0], O_[0]
    init = {k: env0.get(k) for k in (I, Q, OUT)}
    ok_init = isinstance(init[I], ast.Constant) and init[I].value == 0 and not isinstance(init[I].value, bool) and isinstance(init[Q], ast.Constant) and init[Q].value is False and \
        isinstance(init[OUT], ast.List) and not init[OUT].elts
    run.ob("R6-caret-machine", "strip_carets/initial-state", ok_init, f"{sm.rel}:{sc_.lineno}", "the scan starts at the first byte, outside quotes, with nothing emitted",
           "; ".join(f"{k} = {norm_src(v) if v is not None else '?'}" for k, v in init.items()), mech="reaching definitions at the loop head")
    # anything that leaves before the loop must be the identity on texts the loop would not change (no caret at all)
    for st_ in sc_.node.body:
        if st_ is lp:
            break
        for r_ in ast.walk(st_):
            if isinstance(r_, ast.Return):
                g_ = [p_ for p_ in common.parents(r_) if isinstance(p_, ast.If)]
                cond_ = "?"
                if len(g_) == 1 and r_ in g_[0].body and g_[0] in sc_.node.body:
                    env_g = {k: v for k, v in (common.block_env(sc_.node.body, g_[0]) or {}).items() if k != CMD}
                    cond_ = norm_src(common.inline(g_[0].test, env_g))
                no_caret = cond_ in (f"b'^' not in {CMD}", f"94 not in {CMD}", f"ord('^') not in {CMD}", f"{CMD}.find(b'^') < 0", f"{CMD}.find(b'^') == -1", f"not b'^' in {CMD}",
                                     f"{CMD}.count(b'^') == 0", f"not {CMD}.count(b'^')")
                run.ob("R6-caret-machine", "strip_carets/early-return", no_caret and common.is_name(r_.value, CMD), f"{sm.rel}:{r_.lineno}",
                       "a return before the scan hands back the text unchanged, and only when it holds no caret", f"returns `{norm_src(r_.value) if r_.value else None}` when `{cond_}`",
                       mech="guard spelling table")
    az0 = G.Atomizer(is_int=lambda e: True)
    ok_cond = G.equivalent(az0.formula(lp.test), az0.formula(common.spec_expr(f"{I} < len({CMD}) - 1")))[0]
    run.ob("R6-caret-machine", "strip_carets/loop-condition", ok_cond, w, "the main loop handles every byte but the last (which may be a trailing caret)", norm_src(lp.test), mech="truth table")

    class P:
        def __init__(self):
            self.pc = G.T
            self.off = 0          # I = i0 + off
            self.q = "Q"          # new in_string expression: 'Q', 'not Q', 'False', 'True'
            self.emit = []
            self.exit = "fall"
            self.env = {}

        def clone(self):
            n = P()
            n.pc, n.off, n.q, n.emit, n.exit, n.env = self.pc, self.off, self.q, list(self.emit), self.exit, dict(self.env)
            return n

    def idx(e, p):
        """index expression relative to i0 (frozen offsets of temporaries are Names __offK)"""
        if isinstance(e, ast.Name) and e.id.startswith("__off"):
            return int(e.id[5:])
        if isinstance(e, ast.Name) and e.id == I:
            return p.off
        if isinstance(e, ast.BinOp) and isinstance(e.op, ast.Add) and common.is_name(e.left, I) and isinstance(e.right, ast.Constant):
            return p.off + e.right.value
        return None

    def atom(test, p):
        """canonical atom for the tests the machine uses"""
        t = test
        # inline `character` style temporaries
        class Tr(ast.NodeTransformer):
            def visit_Name(self, n):
                if n.id in p.env:
                    return G._copy(p.env[n.id])
                return n
        t = Tr().visit(G._copy(t))
        if isinstance(t, ast.BoolOp):
            parts = [atom(v, p) for v in t.values]
            return G.f_and(*parts) if isinstance(t.op, ast.And) else G.f_or(*parts)
        if isinstance(t, ast.UnaryOp) and isinstance(t.op, ast.Not):
            return G.f_not(atom(t.operand, p))
        if isinstance(t, ast.Name) and t.id == Q:
            return {"Q": ("atom", "Q"), "not Q": G.f_not(("atom", "Q")), "False": G.F, "True": G.T}[p.q]
        if isinstance(t, ast.Compare) and len(t.ops) == 1:
            l, r = t.left, t.comparators[0]
            # CMD[i+k] == ord(c)
            if isinstance(l, ast.Tuple) and isinstance(l.elts[0], str):
                pass
            if isinstance(l, ast.Subscript) and common.is_name(l.value, CMD):
                k = idx(l.slice, p)
                c = prog.try_fold(sm, r)
                if k is not None and isinstance(c, int) and isinstance(t.ops[0], (ast.Eq, ast.NotEq)):
                    a = ("atom", f"cmd[i+{k}]=={c}")
                    return a if isinstance(t.ops[0], ast.Eq) else G.f_not(a)
            # i + k >= len(CMD)
            kk = idx(l, p)
            if kk is not None and norm_src(r) == f"len({CMD})":
                a = ("atom", f"i+{kk}>=len")
                if isinstance(t.ops[0], ast.GtE):
                    return a
                if isinstance(t.ops[0], ast.Lt):
                    return G.f_not(a)
                if isinstance(t.ops[0], ast.Gt):
                    return ("atom", f"i+{kk - 1}>=len")
        return ("atom", "?" + norm_src(t))

    paths_done = []

    def run_block(stmts, paths):
        for st in stmts:
            nxt = []
            for p in paths:
                if p.exit != "fall":
                    nxt.append(p)
                    continue
                if isinstance(st, ast.If):
                    c = atom(st.test, p)
                    a, b = p.clone(), p.clone()
                    a.pc, b.pc = G.f_and(p.pc, c), G.f_and(p.pc, G.f_not(c))
                    nxt += run_block(st.body, [a]) + run_block(st.orelse, [b])
                elif isinstance(st, ast.Assign) and isinstance(st.targets[0], ast.Name):
                    t = st.targets[0].id
                    if t == Q:
                        v = st.value
                        if isinstance(v, ast.Constant):
                            p.q = str(v.value)
                        elif isinstance(v, ast.UnaryOp) and isinstance(v.op, ast.Not) and common.is_name(v.operand, Q):
                            p.q = {"Q": "not Q", "not Q": "Q", "False": "True", "True": "False"}[p.q]
                        else:
                            p.q = "?"
                    elif t == I:
                        p.off = None
                    else:
                        # temporaries: freeze index offsets at definition time
                        v = st.value
                        if isinstance(v, ast.Subscript) and common.is_name(v.value, CMD) and idx(v.slice, p) is not None:
                            v = ast.Subscript(value=ast.Name(id=CMD, ctx=ast.Load()), slice=ast.Name(id=f"__off{idx(v.slice, p)}", ctx=ast.Load()), ctx=ast.Load())
                        p.env[t] = v
                    nxt.append(p)
                elif isinstance(st, ast.AugAssign) and common.is_name(st.target, I) and isinstance(st.op, ast.Add) and isinstance(st.value, ast.Constant):
                    p.off += st.value.value
                    nxt.append(p)
                elif isinstance(st, ast.Expr) and isinstance(st.value, ast.Call) and norm_src(st.value.func) == f"{OUT}.append":
                    a0 = st.value.args[0]
                    k = idx(a0.slice, p) if isinstance(a0, ast.Subscript) and common.is_name(a0.value, CMD) else None
                    if k is None and isinstance(a0, ast.Name) and isinstance(p.env.get(a0.id), ast.Subscript):
                        k = idx(p.env[a0.id].slice, p)
                    p.emit.append(k)
                    nxt.append(p)
                elif isinstance(st, ast.Break):
                    p.exit = "break"
                    nxt.append(p)
                elif isinstance(st, ast.Continue):
                    p.exit = "continue"
                    nxt.append(p)
                elif isinstance(st, (ast.Pass,)) or (isinstance(st, ast.Expr) and isinstance(st.value, ast.Constant)):
                    nxt.append(p)
                else:
                    p.emit.append("?" + common.short_src(st, 40))
                    nxt.append(p)
            paths = nxt
        return paths

    # temporaries holding cmd[i] need special handling in atom(): map name -> Subscript at offset
    class P2(P):
        pass
    p0 = P()
    paths = run_block(lp.body, [p0])
    # the `character = cmd[i]` temporary: env stores ("cmdidx", k): make atom() understand it
    # (handled by rewriting Names to subscripts below)

    # atoms of the specification
    QT, CR, CA, NX, END = ("atom", "cmd[i+0]==34"), ("atom", "cmd[i+0]==13"), ("atom", "cmd[i+0]==94"), ("atom", "cmd[i+1]==13"), ("atom", "i+3>=len")
    INQ = ("atom", "Q")
    cases = [
        ("quote", QT, ([0], 1, "not Q", "fall")),
        ("cr", G.f_and(G.f_not(QT), CR), ([0], 1, "False", "fall")),
        ("caret-literal-next", G.f_and(G.f_not(QT), G.f_not(CR), CA, G.f_not(INQ), G.f_not(NX)), ([1], 2, "Q", "fall")),
        ("caret-line-continuation", G.f_and(G.f_not(QT), G.f_not(CR), CA, G.f_not(INQ), NX, G.f_not(END)), ([3], 4, "Q", "fall")),
        ("caret-continuation-at-end", G.f_and(G.f_not(QT), G.f_not(CR), CA, G.f_not(INQ), NX, END), ([], None, "Q", "break")),
        ("caret-inside-quotes", G.f_and(G.f_not(QT), G.f_not(CR), CA, INQ), ([0], 1, "Q", "fall")),
        ("ordinary", G.f_and(G.f_not(QT), G.f_not(CR), G.f_not(CA)), ([0], 1, "Q", "fall")),
    ]
    for name, cond, (emit, adv, q, ex) in cases:
        taken = [p for p in paths if G.satisfiable(G.f_and(cond, p.pc))]
        ok = len(taken) >= 1
        det = ""
        for p in taken:
            good = p.emit == emit and p.q == q and p.exit == ex and (adv is None or p.off == adv)
            if not good or not G.implies(cond, p.pc)[0] and len(taken) == 1:
                ok = ok and good
            if not good:
                ok = False
                det = f"path {G.show(p.pc)}: emits cmd[i+{p.emit}], advances {p.off}, in_string := {p.q}, then {p.exit}; rule needs emit {emit}, advance {adv}, in_string := {q}, then {ex}"
        if len(taken) > 1 and ok:
            # several paths agree on the effect: fine
            pass
        run.ob("R6-caret-machine", f"strip_carets/case/{name}", ok, w,
               {"quote": "a double quote toggles the quoted state and is kept",
                "cr": "a CR ends a quoted region and is kept",
                "caret-literal-next": "outside quotes a caret is dropped and the next character kept literally",
                "caret-line-continuation": "caret CR LF vanish and the character after them is kept literally",
                "caret-continuation-at-end": "a caret line continuation at the very end just vanishes",
                "caret-inside-quotes": "inside quotes a caret is literal",
                "ordinary": "any other character is kept"}[name], det or "no path of the loop body covers this case", mech="path table of the loop body vs cmd.exe rules")
    # tail: the last byte is kept unless it is a caret outside quotes
    post = sc_.node.body[sc_.node.body.index(lp) + 1:]
    ok_tail = False
    det = "; ".join(common.short_src(s, 60) for s in post)
    if len(post) == 2 and isinstance(post[0], ast.If) and isinstance(post[1], ast.Return):
        pt = P()
        f = atom(post[0].test, pt)
        spec = G.f_and(G.f_not(("atom", "i+0>=len")), G.f_or(G.f_not(("atom", "cmd[i+0]==94")), ("atom", "Q")))
        eq, _cm = G.equivalent(f, spec)
        app = [s for s in post[0].body if isinstance(s, ast.Expr) and isinstance(s.value, ast.Call) and norm_src(s.value) == f"{OUT}.append({CMD}[{I}])"]
        ok_tail = eq and len(app) == 1 and norm_src(post[1].value) == f"bytes({OUT})"
    run.ob("R6-caret-machine", "strip_carets/trailing-byte", ok_tail, w, "the last byte is kept unless it is a caret outside quotes (a trailing caret is dropped); the result is the kept bytes in order", det,
           mech="truth table")
    run.floor("R6-caret-machine", 9)
