"""C11 - plain indicators are found at any offset with exact span and canonical value (necessary structural conditions)."""
from __future__ import annotations

import ast

from spec import grammars as GR

from .. import guards as G
from .. import prov, rx, sites
from ..core import norm_src
from ..model import need, own_nodes
from . import common

EXPLANATION = (
    "Necessary conditions for detection, decided on the sources: (R1) the documented indicator grammars (canonical IPv4, LDH domains "
    "under every TLD of the table, local@domain, \\w+.exe / .dll, RFC 3986 http/https/ftp URLs not ending in ' ) , . ;) are contained in "
    "the languages of the shipped patterns, with \\b compiled exactly for a neutral (non-word) context and edge look-arounds checked "
    "separately; no pattern uses a possessive/atomic construct; (R3) look-arounds never veto a neutral delimiter and no pattern can "
    "consume one, so neighbouring neutral text neither hides nor extends a match; (R4) regex-only indicators report match text and match "
    "span of the same group (provenance terms of the abstract interpreter); (R5) the only rejecting filters between the regex and the "
    "result list are the validators and the documented false-positive heuristics (each guard is compared, by truth table, with the "
    "reference list); (R6) file-name labels agree with EXT_MAP; (R7) the CreateObject scanner returns the position just after the "
    "balancing parenthesis. Which of several candidate matches leftmost-greedy search picks, PE parsing (pefile) and path shapes are "
    "not decided."
)
TRUSTED = ["regex leftmost search finds a match whenever one exists at the position of the indicator", "pefile"]

NEUTRAL = rx.mask_of(GR.NEUTRAL_DELIMITERS)


def guard_list(fi, prog, loop, az):
    """formulas of the `if ...: continue` guards at the top level of a loop body"""
    out = []
    for st in loop.body:
        if isinstance(st, ast.If) and st.body and isinstance(st.body[-1], ast.Continue) and not st.orelse:
            env = common.block_env(loop.body, st) or {}
            az2 = G.Atomizer(subst=env, rename=az.rename, rewrite=az.rewrite, is_int=az.is_int)
            out.append((st, az2.formula(st.test)))
    return out


def check(run):
    prog = run.prog
    from . import common as _common
    _common.fresh_hits(run, "C11")
    # the canonical value of a URL / IP and the validators that decide whether a candidate is reported at all are C10's rules
    _common.delegate(run, "C10", lambda rule, key: rule in ("R4-percent", "R2-validators") or key.endswith("parse_ip/value-is-compressed-form"), floor=9)
    # "found at any offset" makes detection a function of the data of this call: no decoder of the property (or a helper it reaches)
    # may write state that outlives the call - a verdict cache keyed more coarsely than the verdict drops later hits (seed u18). C09's effect rule.
    from ..model import call_graph, reachable
    _roots = [fi for fi in prog.decorated_decoders() if fi.module.short in ("decoders.network", "decoders.filename", "decoders.pe_file", "decoders.path")]
    _reach = {fi.fq for fi in reachable(call_graph(prog), _roots)} | {fi.fq for fi in _roots}
    _common.delegate(run, "C09", lambda rule, key: rule == "R3-shared-writes" and (key == "stores-census" or any(key.startswith(fq + "/") for fq in _reach)), floor=1)
    nm = prog.mod("decoders.network")
    fm = prog.mod("decoders.filename")
    w = lambda m: f"{m.rel}:1"   # noqa: E731

    def pat(q):
        m, n = q.rsplit(".", 1)
        return prog.const(prog.mod(m), n)
    # ------------------------------------------------------------------ R1 grammar containment
    tlds = sorted(prog.const(prog.mod("domains"), "TOP_LEVEL_DOMAINS"))
    dre = rx.compile_pattern(pat("decoders.network.DOMAIN_RE"))          # edge assertions peeled, neutral context
    # LDH labels followed by a table TLD (any letter case)
    label = rx.dfa_of(rb"(?:" + GR.LDH_LABEL + rb"\.)+")
    missing = []
    tld_d = rx.literal_dfa(tlds, icase=True)
    dom_grammar = concat(label, tld_d)
    ok, wt = rx.included(dom_grammar, dre.dfa, witness=True)
    if not ok:
        # which TLDs are outside: test each with a fixed label
        for t in tlds:
            if not rx.member(dre.dfa, b"example." + t.lower()):
                missing.append(t.decode())
    run.ob("R1-containment", "decoders.network.DOMAIN_RE/ldh-domains-under-every-tld", ok, w(nm),
           f"every letters-digits-hyphen domain under each of the {len(tlds)} registered TLDs is matched as a whole",
           f"not matched: {wt!r}; TLDs outside the TLD sub-pattern: {missing}", mech="language containment (1479-entry trie . label automaton)")
    run.note("tlds_checked", len(tlds))
    checks = [
        ("decoders.network.IP_RE", GR.IPV4, "canonical dotted quads"),
        ("decoders.network.EMAIL_RE", rb"(?i)" + GR.EMAIL_LOCAL + rb"@(?:" + GR.LDH_LABEL + rb"\.)+(?:com|org|net|ca|info|museum|xn--p1ai)", "local-part@domain (sample TLDs)"),
        ("decoders.filename.EXECUTABLE_RE", GR.EXE_NAME, r"\w+.exe names"),
        ("decoders.filename.LIBRARY_RE", GR.DLL_NAME, r"\w+.dll names"),
        ("decoders.network.URL_RE", GR.URL, "http/https/ftp URLs (RFC 3986 subset of the statement)"),
    ]
    for q, grammar, what in checks:
        c = rx.compile_pattern(pat(q))
        ok, wt = rx.included(rx.dfa_of(grammar, "any", "any"), c.dfa, witness=True)
        run.ob("R1-containment", f"{q}/contains-documented", ok and c.exact, w(prog.mod(q.rsplit(".", 1)[0])), f"{what} between neutral delimiters are in the pattern's language",
               f"not matched: {wt!r}" + ("" if c.exact else f"; unsupported zero-width constructs {c.dropped}"), mech="language containment (exact \\b, neutral context)")
    for q in ["decoders.network.DOMAIN_RE", "decoders.network.IP_RE", "decoders.network.EMAIL_RE", "decoders.network.URL_RE", "decoders.filename.EXECUTABLE_RE",
              "decoders.filename.LIBRARY_RE", "decoders.path.PATH_RE", "decoders.path.WINDOWS_PATH_RE", "decoders.vba.CREATE_OBJECT_RE"]:
        cs = rx.cuts(pat(q))
        run.ob("R1-containment", f"{q}/no-backtracking-cut", not cs, w(prog.mod(q.rsplit(".", 1)[0])), "no possessive / atomic construct (a match is found whenever the text is in the language)",
               f"uses {cs}", mech="regex parse tree")
    # ------------------------------------------------------------------ R3 anchors vs neutral delimiters
    for q in ["decoders.network.DOMAIN_RE", "decoders.network.IP_RE", "decoders.network.EMAIL_RE", "decoders.network.URL_RE", "decoders.filename.EXECUTABLE_RE",
              "decoders.filename.LIBRARY_RE", "decoders.path.PATH_RE", "decoders.path.WINDOWS_PATH_RE"]:
        c = rx.compile_pattern(pat(q))
        m = prog.mod(q.rsplit(".", 1)[0])
        for side, a in (("lead", c.lead), ("trail", c.trail)):
            if a is None:
                continue
            kind, mask = a
            veto = (mask & NEUTRAL) if kind == "notin" else (NEUTRAL & ~mask)
            run.ob("R3-anchors", f"{q}/{side}-assertion-admits-neutral", veto == 0, w(m), f"the {side}ing look-around accepts every neutral delimiter",
                   f"vetoes {rx.describe_mask(veto)}", mech="look-around class vs neutral set")
        alpha = rx.alphabet(c.dfa)
        if q.endswith("WINDOWS_PATH_RE") or q.endswith("PATH_RE"):
            pass
        run.ob("R3-anchors", f"{q}/cannot-consume-neutral", alpha & NEUTRAL == 0, w(m), "a match cannot extend across a neutral delimiter (space, tab, CR, LF, \", <, >)",
               f"the pattern can consume {rx.describe_mask(alpha & NEUTRAL)}", mech="alphabet of the pattern language")
    run.floor("R3-anchors", 12)
    # ------------------------------------------------------------------ R4 span = match span, value = match text
    A = sites.analysis(prog)
    for fq, g in (("decoders.network.find_domains", 0), ("decoders.network.find_emails", 0), ("decoders.path.find_path", 0),
                  ("decoders.filename.find_executable_name", 0), ("decoders.filename.find_library", 0)):
        fi = prog.fn(fq)
        hits, interp, _n = A.run(fi)
        need(hits, f"anchor: {fq} returns no hit")
        ok = True
        det = ""
        for h in hits:
            sp = prov.span_of(h, interp)
            t = prov.value_term(h)
            if not (sp[0] == "match" and sp[2] == g and t == ("group", sp[1], g) and prov.const_field(h, "obfuscation") == ""):
                ok = False
                det = f"value {prov.canon_mid(str(t))}, span {prov.canon_mid(str(sp))}"
        run.ob("R4-exact-span", f"{fq}/match-text-and-span", ok, f"{fi.module.rel}:{fi.lineno}", "the hit's value is the matched text and its span the span of the same group, unlabelled", det,
               mech="provenance term + span linear forms")
    fi = prog.fn("decoders.network.find_urls")
    hits, interp, _n = A.run(fi)
    okspan = any(prov.span_of(h, interp)[0] == "match" and prov.span_of(h, interp)[2] == 0 for h in hits)
    run.ob("R4-exact-span", "decoders.network.find_urls/untrimmed-path-keeps-match-span", okspan, f"{fi.module.rel}:{fi.lineno}",
           "outside the documented quote/paren/Pascal-string contexts the URL node covers exactly the match", "no path reports the match's own span", mech="span linear forms")
    # ------------------------------------------------------------------ R5 post-filters are the documented ones
    REF = {
        "decoders.network.find_domains": ["not is_domain(M.group()) or len(M.group()) < 7", "domain_is_false_positive(M.group())"],
        "decoders.network.find_ips": ["not is_ip(M.group())", "all((byte in b'0x.' for byte in M.group()))", "M.group().endswith((b'.0', b'.255'))",
                                      "re.match(b'\\\\s*>t(?::\\\\w+)?<', DATA[M.span()[0] - 1::-1])", "re.match(b'(?i)\\\\s+(?:noit|[.])ces', DATA[M.span()[0] - 1::-1])",
                                      "DATA.rfind(b'ersion', max(M.span()[0] - 10, 0), M.span()[0]) >= 0 and re.match(b'[\\\\x00=\\\\s\"]+$', "
                                      "DATA[DATA.rfind(b'ersion', max(M.span()[0] - 10, 0), M.span()[0]) + 6:M.span()[0]])"],
        "decoders.network.find_urls": ["not is_url(GROUP)", "not is_url(url)"],
    }
    REF["decoders.network.find_urls"] = ["not is_url(normalize_percent_encoding(GROUP)[0])"]

    class RxCanon(ast.NodeTransformer):
        """re.match(<constant pattern>, x): the pattern is replaced by a token that is the same for equal-language patterns, so
        that a reordered character class or an equivalent spelling of the heuristic's regex is the same atom"""
        seen = []

        def visit_Call(self, n):
            self.generic_visit(n)
            d = norm_src(n.func)
            if d in ("re.match", "re.search", "re.fullmatch", "regex.match", "regex.search", "regex.fullmatch") and n.args and \
                    isinstance(n.args[0], ast.Constant) and isinstance(n.args[0].value, bytes):
                try:
                    dfa = rx.dfa_of(n.args[0].value, "any", "any")
                except rx.RxError:
                    return n
                for k, (d0, _p) in enumerate(RxCanon.seen):
                    if rx.equal(d0, dfa):
                        break
                else:
                    RxCanon.seen.append((dfa, n.args[0].value))
                    k = len(RxCanon.seen) - 1
                n.args[0] = ast.Constant(value=b"RX#%d" % k)
            return n

    def canon(e):
        return ast.fix_missing_locations(RxCanon().visit(G._copy(e)))
    for fq, ref in REF.items():
        fi = prog.fn(fq)
        fbody = common.comp_as_loop(fi.node) or fi.node.body      # `return [hit(m) for m in finditer(..) if keep(m)]` is the same loop
        loops = [n for n in fbody if isinstance(n, ast.For)]
        need(len(loops) == 1, f"anchor: {fq} has one match loop")
        lp = loops[0]
        need(isinstance(lp.target, ast.Name), f"anchor: {fq} loop variable")
        Mv = lp.target.id
        DATA = fi.params[0]
        ren = {Mv: "M", DATA: "DATA"}
        if fq.endswith("find_urls"):
            ren["group"] = "GROUP"
        isint = lambda e: ("len(" in norm_src(e) or "rfind" in norm_src(e)) and "re.match" not in norm_src(e)   # noqa: E731
        # the acceptance condition: reaching condition of the statement that appends to the result list, with temporaries and
        # tuple unpackings inlined; M.start() / M.end() are the two halves of M.span()
        rewrite = [("regex.", "re."), ("M.start()", "M.span()[0]"), ("M.start(0)", "M.span()[0]"), ("M.end()", "M.span()[1]"), ("M.group(0)", "M.group()")]
        apps = [n for n in own_nodes(lp) if isinstance(n, ast.Expr) and isinstance(n.value, ast.Call) and isinstance(n.value.func, ast.Attribute)
                and n.value.func.attr in ("append", "extend") and isinstance(n.value.func.value, ast.Name)]
        rets = [n for n in fbody if isinstance(n, ast.Return) and isinstance(n.value, ast.Name)]
        apps = [a_ for a_ in apps if rets and a_.value.func.value.id == rets[-1].value.id]
        need(len(apps) == 1, f"anchor: {fq} appends to its result list in one place")
        env = dict(common.block_env(lp.body, apps[0], unpack=True) or {})
        if fq.endswith("find_urls"):
            env.pop("group", None)
        spec_az = G.Atomizer(is_int=isint)
        spec = G.f_and(*[G.f_not(spec_az.formula(canon(common.spec_expr(r)))) for r in ref])
        consts_ = {k_: v_ for k_, v_ in fi.module.assigns.items() if isinstance(v_, ast.Constant) and isinstance(v_.value, int) and not isinstance(v_.value, bool)
                   and k_ not in fi.module.multi_assigned and k_ not in env}
        az = G.Atomizer(subst={**consts_, **{k: canon(v) for k, v in env.items()}}, rename=ren, is_int=isint, rewrite=rewrite)
        az.pre = canon
        pc = G.reach(lp.body, apps[0], az)
        need(pc is not None, f"internal: cannot locate the append of {fq}")
        okf, cm = G.equivalent(pc, spec)
        run.ob("R5-filters", f"{fq}/acceptance-condition", okf, f"{fi.module.rel}:{apps[0].lineno}",
               "a match is reported iff it passes the validator and none of the documented false-positive heuristics rejects it (nothing else can drop it)",
               f"reported iff {G.show(pc)[:400]}; differs from the reference filter list at {G.show_model(cm) if cm else ''}", mech="reaching condition of the append vs the reference filter list, by truth table")
        # nothing else can drop a match: no break / return in the loop
        bad = [n for s_ in lp.body for n in ast.walk(s_) if isinstance(n, (ast.Break, ast.Return))]
        run.ob("R5-filters", f"{fq}/no-early-exit", not bad, f"{fi.module.rel}:{lp.lineno}", "the match loop never stops early", "", mech="statement census")
    fe = prog.fn("decoders.network.find_emails")
    comp = [n for n in own_nodes(fe.node) if isinstance(n, ast.ListComp)]
    ok = len(comp) == 1 and len(comp[0].generators) == 1 and len(comp[0].generators[0].ifs) == 1
    run.ob("R5-filters", "decoders.network.find_emails/single-filter", ok, f"{nm.rel}:{fe.lineno}", "e-mails are filtered by the domain validator only", "", mech="comprehension shape")
    # the Pascal-string heuristic of find_urls asks whether the ten bytes before the URL are printable ASCII - and there may be none
    if "_is_printable" in nm.funcs:
        ip_ = nm.funcs["_is_printable"]
        body_ = [s_ for s_ in ip_.node.body if not (isinstance(s_, ast.Expr) and isinstance(s_.value, ast.Constant))]
        ok_ip, det_ip = False, "definition not recognised (neither decode('ascii').isprintable() nor a full match of a pattern)"
        src_ = " ".join(norm_src(s_) for s_ in body_)
        if ".decode('ascii').isprintable()" in src_ and "UnicodeDecodeError" in src_ and "return False" in src_:
            ok_ip, det_ip = True, ""
        else:
            for c_ in [x for x in ast.walk(ip_.node) if isinstance(x, ast.Call)]:
                d_ = prog.dotted(nm, c_.func) or ""
                pat_ = None
                if d_ in ("regex.fullmatch", "re.fullmatch") and c_.args:
                    pat_ = prog.try_fold(nm, c_.args[0])
                elif isinstance(c_.func, ast.Attribute) and c_.func.attr == "fullmatch" and isinstance(c_.func.value, ast.Name) and c_.func.value.id in nm.assigns:
                    v_ = nm.assigns[c_.func.value.id]
                    if isinstance(v_, ast.Call) and (prog.dotted(nm, v_.func) or "").endswith(".compile") and v_.args:
                        pat_ = prog.try_fold(nm, v_.args[0])
                if isinstance(pat_, bytes):
                    same = rx.equal(rx.dfa_of(pat_, "any", "any"), rx.dfa_of(rb"[\x20-\x7e]*", "any", "any"))
                    ok_ip = same
                    det_ip = "" if same else f"the pattern {pat_!r} is not `[\\x20-\\x7e]*`: e.g. the empty text (no bytes before the URL) must count as printable"
        run.ob("R5-filters", "decoders.network._is_printable/definition", ok_ip, f"{nm.rel}:{ip_.lineno}",
               "_is_printable accepts exactly the texts of printable ASCII characters, the empty text included", det_ip, mech="definition shape / language equality")
    run.floor("R5-filters", 7)
    # ------------------------------------------------------------------ R7 extent of an embedded PE: the furthest end of raw data over ALL sections
    ps = prog.fn("decoders.pe_file.pe_size")
    pem = ps.module

    def sec_end(e, v):
        """e is <v>.PointerToRawData + <v>.SizeOfRawData (either order)"""
        return isinstance(e, ast.BinOp) and isinstance(e.op, ast.Add) and {norm_src(e.left), norm_src(e.right)} == {f"{v}.PointerToRawData", f"{v}.SizeOfRawData"}
    ok_ext, det = False, "no maximum over the section ends found"
    for n in own_nodes(ps.node):
        if isinstance(n, ast.Call) and common.is_name(n.func, "max") and n.args:
            a0 = n.args[0]
            if isinstance(a0, (ast.GeneratorExp, ast.ListComp)) and len(a0.generators) == 1 and not a0.generators[0].ifs and isinstance(a0.generators[0].target, ast.Name) \
                    and norm_src(a0.generators[0].iter).endswith(".sections") and sec_end(a0.elt, a0.generators[0].target.id):
                ok_ext = True
            if len(n.args) == 2 and any(sec_end(x, v.target.id) for x in n.args for v in common.parents(n) if isinstance(v, ast.For) and isinstance(v.target, ast.Name)
                                        and norm_src(v.iter).endswith(".sections")):
                ok_ext = True       # size = max(size, section end) inside a loop over the sections
        if isinstance(n, ast.For) and isinstance(n.target, ast.Name) and norm_src(n.iter).endswith(".sections"):
            for st_ in ast.walk(n):
                if isinstance(st_, ast.If) and isinstance(st_.test, ast.Compare) and len(st_.test.ops) == 1 and isinstance(st_.test.ops[0], (ast.Gt, ast.GtE)):
                    envp = common.block_env(n.body, st_) or {}
                    lhs = G.Atomizer(subst=envp).inline(st_.test.left)
                    if sec_end(lhs, n.target.id) and len(st_.body) == 1 and isinstance(st_.body[0], ast.Assign) and \
                            norm_src(st_.body[0].targets[0]) == norm_src(st_.test.comparators[0]):
                        ok_ext = True
    if not ok_ext:
        lastidx = [x for x in own_nodes(ps.node) if isinstance(x, ast.Subscript) and norm_src(x.value).endswith(".sections")]
        if lastidx:
            det = f"the size is taken from `{norm_src(lastidx[0])}`: one section, not the furthest end over all of them"
    run.ob("R7-pe-extent", "decoders.pe_file.pe_size/max-over-all-sections", ok_ext, f"{pem.rel}:{ps.lineno}",
           "an embedded PE ends at the furthest end of raw data (PointerToRawData + SizeOfRawData) over all of its sections", det, mech="aggregate-shape match (3 spellings)")

    # every MZ signature followed by a full DOS header is a candidate, whatever bytes the header holds
    fpe = prog.fn("decoders.pe_file.find_pe_files")
    from ..rx import sc as _sc
    scans = [n for n in own_nodes(fpe.node) if isinstance(n, ast.Call) and (prog.dotted(pem, n.func) or "").startswith("regex.") and
             (prog.dotted(pem, n.func) or "").rsplit(".", 1)[-1] in ("finditer", "search", "findall") and n.args]
    need(len(scans) == 1, "anchor: find_pe_files scans the data with one regex call")
    pat_mz = prog.try_fold(pem, scans[0].args[0])
    ok_mz, det_mz = False, "the signature pattern is not a constant"
    if isinstance(pat_mz, bytes):
        try:
            tree_, fl_, _nt = rx.parse(pat_mz)
            items_ = list(tree_)
            if items_ and items_[-1][0] is _sc.ASSERT and items_[-1][1][0] == 1:
                items_ = items_[:-1] + list(items_[-1][1][1])      # a trailing look-ahead constrains the text after the signature like a continuation
            cand = rx.compile_tree(items_, fl_)
            hdr = rx.dfa_of(rb"(?s)MZ.{62}", "any", "any")
            ok_a, wit = rx.included(hdr, rx.concat_sigma_star(cand.dfa), witness=True)
            ok_b = rx.included(cand.dfa, rx.dfa_of(rb"(?s)MZ.*", "any", "any"))
            ok_mz = ok_a and ok_b and cand.exact
            det_mz = (f"a DOS header the pattern does not match: {wit!r}" if not ok_a else "the pattern matches texts that do not start with MZ" if not ok_b else
                      f"assertions the analysis cannot place: {cand.dropped}")
        except rx.RxError as e_:
            det_mz = str(e_)
    run.ob("R7-pe-extent", "decoders.pe_file.find_pe_files/every-signature-is-a-candidate", ok_mz, f"{pem.rel}:{scans[0].lineno}",
           "the scan stops at every `MZ` followed by a complete DOS header, whatever bytes the header contains", det_mz, mech="language containment")

    # ------------------------------------------------------------------ R6 label agreement with EXT_MAP
    ext_map = prog.const(fm, "EXT_MAP")
    for fq, ext in (("decoders.filename.find_executable_name", b".exe"), ("decoders.filename.find_library", b".dll")):
        fi = prog.fn(fq)
        hits, interp, _n = A.run(fi)
        tys = {prov.const_field(h, "type") for h in hits}
        run.ob("R6-labels", f"{fq}/type-agrees-with-EXT_MAP", tys == {ext_map.get(ext)}, f"{fm.rel}:{fi.lineno}",
               f"a {ext.decode()} name found in free text gets the type EXT_MAP gives the same extension inside a Windows path ({ext_map.get(ext)!r})",
               f"reports type(s) {sorted(map(str, tys))}", mech="sibling-table agreement")
    # ------------------------------------------------------------------ R7 CreateObject scanner
    gcb = prog.fn("decoders.vba.get_closing_brace")
    vm = gcb.module
    DATA, START, BR = gcb.params[:3]
    wl = [n for n in gcb.node.body if isinstance(n, ast.While)]
    ok7 = False
    det = "scanner shape not recognised"
    if len(wl) == 1:
        lp = wl[0]
        env0 = common.block_env(gcb.node.body, lp) or {}
        bal = [k for k, v in env0.items() if isinstance(v, ast.Constant) and v.value == 1]
        idx = [k for k, v in env0.items() if common.is_name(v, START)]
        if len(bal) == 1 and len(idx) == 1:
            B_, I_ = bal[0], idx[0]
            az = G.Atomizer(rename={B_: "BAL", I_: "I", DATA: "DATA"}, is_int=lambda e: True, truthy_int=lambda e: isinstance(e, ast.Name) and e.id in ("BAL", B_))
            cond_ok = G.equivalent(az.formula(lp.test), az.formula(common.spec_expr("I < len(DATA) and BAL != 0")))[0]
            body = lp.body
            inc_ok = isinstance(body[-1], ast.AugAssign) and common.is_name(body[-1].target, I_) and isinstance(body[-1].op, ast.Add) and prog.try_fold(vm, body[-1].value) == 1
            first = body[0]
            upd_ok = False
            if isinstance(first, ast.If) and len(first.orelse) == 1 and isinstance(first.orelse[0], ast.If):
                t1, t2 = norm_src(first.test), norm_src(first.orelse[0].test)
                d1, d2 = norm_src(first.body[0]), norm_src(first.orelse[0].body[0])
                upd_ok = t1 == f"{DATA}[{I_}] == OPEN_TO_CLOSE_MAP[{BR}]" and d1 == f"{B_} -= 1" and t2 == f"{DATA}[{I_}] == {BR}" and d2 == f"{B_} += 1" and len(body) == 2
            post = gcb.node.body[gcb.node.body.index(lp) + 1:]
            ret_ok = len(post) == 2 and isinstance(post[0], ast.If) and G.equivalent(az.formula(post[0].test), az.formula(common.spec_expr("BAL == 0")))[0] and \
                isinstance(post[0].body[0], ast.Return) and common.is_name(post[0].body[0].value, I_) and isinstance(post[1], ast.Return) and prog.try_fold(vm, post[1].value) == -1
            ok7 = cond_ok and inc_ok and upd_ok and ret_ok
            det = f"loop-condition={cond_ok} increment={inc_ok} balance-updates={upd_ok} result={ret_ok}"
    run.ob("R7-createobject", "decoders.vba.get_closing_brace/balance-scan", ok7, f"{vm.rel}:{gcb.lineno}",
           "the scanner counts nested parentheses from balance 1 and returns the index just after the one that brings it to 0 (else -1)", det, mech="loop-shape + truth tables")
    fco = prog.fn("decoders.vba.find_createobject")
    hits, interp, _n = A.run(fco)
    okc = bool(hits)
    det = ""
    for h in hits:
        t = prov.value_term(h)
        sp = prov.span_of(h, interp)
        # value = data[match.start():index], span (match.start(), index)
        if not (isinstance(t, tuple) and t[0] == "slice" and t[1] == ("param", "data") and str(t[2]) == sp[1] and str(t[3]) == sp[2] and sp[0] == "expr" and ".start(0)" in sp[1]):
            okc = False
            det = f"value {prov.canon_mid(str(t))} span {prov.canon_mid(str(sp))}"
    run.ob("R7-createobject", "decoders.vba.find_createobject/value-is-span-text", okc, f"{vm.rel}:{fco.lineno}",
           "the node's value is the data between the start of 'CreateObject(' and the balancing parenthesis, and that is its span", det, mech="provenance term + span")
    calls = [n for n in own_nodes(fco.node) if isinstance(n, ast.Call) and prog.callee(vm, fco, n).func is gcb]
    okarg = len(calls) == 1 and norm_src(calls[0].args[1]).endswith(".end()") and common.is_name(calls[0].args[0], fco.params[0])
    run.ob("R7-createobject", "decoders.vba.find_createobject/scan-starts-after-open-paren", okarg, f"{vm.rel}:{fco.lineno}", "the balance scan starts right after the opening parenthesis of the match",
           "", mech="argument provenance")


def concat(a: rx.DFA, b: rx.DFA) -> rx.DFA:
    """L(a) . L(b) via NFA embedding"""
    n = rx.NFA()
    s = n.new()
    mid = rx.embed_dfa(n, a, s)
    end = rx.embed_dfa(n, b, mid)
    return rx.determinize(n, s, end)
