"""C02 - layered obfuscation round-trips (structural clauses only).

The statement is an equality between runtime values (successive plaintexts of an arbitrary encoder stack); that equality is
NOT decided here.  What is decided are clauses whose failure makes some stack in the documented domain fail, and whose truth
is visible in the source:

R1 conversion-total   every text-to-number / text-to-bytes conversion a layer decoder applies to text delimited by its own
                      pattern (int(text, base), unhexlify) accepts every text that pattern admits there: the regular language
                      of the argument (group language pushed through split / strip / slice / lower and refined by dominating
                      startswith tests) is contained in the grammar of the conversion.  Otherwise an admitted layer raises,
                      is swallowed (or escapes: C01) and the whole layer vanishes from the tree.
R2 peel-next-layer    a decoded hit is re-scanned (recursion on the hit itself, in the decoded arm, no hit dropped or
                      attached twice), and each level of recursion costs exactly one unit of depth, so a stack of height h
                      needs a depth limit of h+1, not more.
R3 whole-expression   a layer hit whose span is a match span covers the whole match (group 0) of the very match its value
                      is computed from ("the outermost covers exactly the encoded span").
R4 layer-named        every layer hit carries a non-empty constant label or type.
R6 indicator-positions the context bookkeeping of scan_node (push, pop, shift: the V4 / V5 / V8-context conditions of the frame
                      analysis): an undecoded indicator inside a payload becomes the context of the indicators after it.
R5 via-Cxx            the clauses of C13 / C14 / C15 / C16 / C19 that a stack of the listed encodings cannot do without: each
                      layer's value is the documented conversion of exactly the delimited text, the documented spellings are
                      inside the layer's pattern, the caret machine, and flatten's substitution for non-overlapping children.
                      Only obligations whose failure breaks some stack of the statement are taken over (acceptance *limits*,
                      xor children, CLI output, overlapping-children cases and label spellings are not).
"""
from __future__ import annotations

import ast

from .. import frames, prov, rx, sites, strlang
from ..absint import BytesV, ConstV, StrV
from ..core import norm_src
from ..lin import Lin, lin_of_ast
from ..model import need, own_nodes
from . import common

EXPLANATION = (
    "Structural clauses of the round-trip property, decided on the source: (R1) for every int()/unhexlify conversion reached "
    "from a layer decoder, the regular language of its argument - the decoder's own group language pushed through split, strip, "
    "slice, case mapping and refined by dominating startswith tests, all as automaton constructions - is contained in the "
    "grammar the conversion accepts, so no text the layer's pattern admits is dropped by a swallowed ValueError; (R2) the "
    "decoded arm of scan_node recurses on the hit itself with exactly depth-1 and no hit is lost; (R3) layer hits cover group 0 "
    "of the match their value is computed from; (R4) layer hits are labelled. The value-level equality 'successive plaintexts "
    "of any stack at any offset' is a relation between runtime values and is not decided."
)
TRUSTED = ["int(text, base) accepts exactly Python's integer-literal grammar for that base (ASCII)", "binascii.unhexlify accepts exactly even-length hex",
           "regex group-language construction of mdstatic.rx", "affine frame analysis of scan_node (E6)"]

LAYER_MODULES = ("decoders.base64", "decoders.hex", "decoders.codec", "decoders.xml", "decoders.javascript", "decoders.concat", "decoders.reverse",
                 "decoders.vba", "decoders.replace", "decoders.shell", "decoders.powershell", "decoders.chr")
HEX_PAIRS = rb"(?:[0-9a-fA-F]{2})*"


def _has_group(t):
    return bool(prov.find_groups(t))


def refined_language(term, snap, interp):
    """language of a provenance term with the path's startswith knowledge applied at the sub-term it speaks about"""
    known = getattr(snap, "prefixes", {}) or {}

    def refine(t, d):
        k = repr(t)
        if k in known:
            d = strlang.with_prefix(d, known[k], True)
        if "!" + k in known:
            d = strlang.with_prefix(d, known["!" + k], False)
        for cm in ("lower", "upper"):
            kk = repr((cm, t))
            conv = bytes.lower if cm == "lower" else bytes.upper
            for neg, key in ((False, kk), (True, "!" + kk)):
                if key in known and all(conv(p) == p for p in known[key]):
                    d = strlang.with_prefix(d, known[key], not neg, icase=True)
        return d
    return strlang.language(term, interp.matches, interp.piece_sep, refine=refine)


class Via:
    """Forwards the obligations of another property's rule module that are necessary conditions of C02."""

    def __init__(self, run, tag, keep):
        self._run, self._tag, self._keep = run, tag, keep
        self.prog, self.tier, self.selftest = run.prog, run.tier, run.selftest
        self.extra = {}
        self.analysed = {}
        self.prop = run.prop
        self.n = 0

    def ob(self, rule, key, ok, where, what, detail="", mech=""):
        if self._keep(rule, key):
            self.n += 1
            return self._run.ob(f"R5-via-{self._tag}.{rule}", key, ok, where, what, detail, mech)
        return bool(ok)

    def floor(self, rule, n):
        pass

    def note(self, k, v):
        pass

    def assume(self, text):
        self._run.assume(text)

    def exempt(self, key, reason, condition):
        self._run.exempt(key, reason, condition)


def _keep13(rule, key):
    if rule in ("R1-provenance", "R2-group-role", "R0-no-cut"):
        return True
    return rule == "R3-acceptance" and (key.endswith("/contains-documented") or "/call-form#" in key or key.endswith("/guarded-text-is-clean") or
                                        "/unit-matched-whole" in key)


def _keep14(rule, key):
    if "find_chr" in key or rule == "R4-chr":
        return False      # chr() calls are not among the statement's encodings
    if rule == "R2-xml-tokens" or rule == "R5-unescape":
        return True
    if rule == "R0-no-cut":
        return "CHR_RE" not in key
    if rule == "R3-provenance":
        return not key.endswith("/labels")
    return key.endswith("/contains-documented") or key.endswith("/pairs")


def _keep15(rule, key):
    return not key.endswith("/group-count")


def _keep16(rule, key):
    if rule in ("R6-caret-machine", "R2-label"):
        return True
    return rule == "R1-coherence" and "find_cmd_strings" in key


def _keep19(rule, key):
    return rule == "R-tiling" and "node.Node.flatten" in key and "/case/skip/" not in key


DELEGATED = (("C13", _keep13, 27), ("C14", _keep14, 12), ("C15", _keep15, 60), ("C16", _keep16, 11), ("C19", _keep19, 8))


def check(run):
    prog = run.prog
    A = sites.analysis(prog)
    layer_mods = {prog.mod(m) for m in LAYER_MODULES}
    decs = [fi for fi in prog.decorated_decoders() if fi.module in layer_mods]
    need(len(decs) >= 20, f"anchor: expected >= 20 registered decoders in the layer modules, found {len(decs)}")
    layers = []
    seen = set()
    n_conv = 0
    for fi in decs:
        hits, interp, _n = A.run(fi)
        is_layer = False
        for h in hits:
            term = prov.value_term(h)
            sp = prov.span_of(h, interp)
            raw = isinstance(term, tuple) and term[0] == "group" and term[2] == 0
            if raw:
                continue    # an undecoded context hit (its value is the matched text): not a layer
            is_layer = True
            where = f"{prog.fn(h.site_func).module.rel}:{h.site.lineno}"
            key = f"{fi.fq}/{h.key()}"
            # R3
            if sp[0] == "match":
                gs = {g[1] for g in prov.find_groups(term)}
                ok3 = sp[2] == 0 and (not gs or sp[1] in gs)
                if (key, 3) not in seen or not ok3:
                    seen.add((key, 3))
                    run.ob("R3-whole-expression", key, ok3, where, "the layer hit covers group 0 of the match its value is computed from",
                           f"span {prov.canon_mid(str(sp))}, value from {prov.canon_mid(str(sorted(gs)))}", mech="provenance term vs span linear forms")
            # R4
            ty, ob_ = prov.const_field(h, "type"), prov.const_field(h, "obfuscation")
            ok4 = (isinstance(ob_, str) and ob_ != "") or (isinstance(ty, str) and ty != "")
            if (key, 4) not in seen or not ok4:
                seen.add((key, 4))
                run.ob("R4-layer-named", key, ok4, where, "the layer hit carries a non-empty constant label or type", f"type {ty!r}, label {ob_!r}",
                       mech="constant fields of the hit record")
        if is_layer:
            layers.append(fi.fq)
        # R1
        for rec in interp.conv_uses:
            cfi, node, name, args = rec[0], rec[1], rec[2], rec[3]
            snap = rec[5]
            if name not in ("int", "binascii.unhexlify", "binascii.a2b_hex", "bytes.fromhex") or not args:
                continue
            av = args[0]
            if not isinstance(av, (BytesV, StrV)) or not _has_group(av.term):
                continue
            if name == "int":
                base = 10
                b = args[1] if len(args) > 1 else rec[4].get("base")
                if b is not None:
                    base = b.value if isinstance(b, ConstV) and isinstance(b.value, int) else None
                gram = strlang.int_grammar(base) if base is not None else None
                gname = f"int(text, {base})"
            else:
                gram = rx.dfa_of(HEX_PAIRS)
                gname = "an even number of hex digits"
            k1 = f"{cfi.fq}/{name}:{common.short_src(node, 70)}/base={gname}"
            d = refined_language(av.term, snap, interp) if gram is not None else None
            if d is None:
                ok, det = False, f"the language of `{prov.canon_mid(str(av.term))}` could not be bounded"
            else:
                ok, w = rx.included(d, gram, witness=True)
                det = "" if ok else f"admitted by the pattern but rejected by {gname}: {w!r}"
            if (k1,) in seen and ok:
                continue
            seen.add((k1,))
            n_conv += 1
            run.ob("R1-conversion-total", k1, ok, f"{cfi.module.rel}:{node.lineno}",
                   f"every text the decoder's own pattern admits here is accepted by {gname}", det,
                   mech="regular language of the argument term (group language through split/strip/slice/case map, refined by startswith tests) "
                        "contained in the conversion's grammar")
    run.note("layer_decoders", sorted(set(layers)))
    need(len(set(layers)) >= 18, f"anchor: expected >= 18 layer decoders, found {len(set(layers))}")
    run.floor("R1-conversion-total", 5)
    run.floor("R3-whole-expression", 18)
    run.floor("R4-layer-named", 20)

    # ------------------------------------------------------------------ R2
    def sel(v):
        if v.vc == "V8" and v.key in ("decoded-arm/recurse-on-hit", "decoded-test", "two-arms"):
            return True
        if v.vc == "V10" and v.key in ("no-early-exit", "extra-drop", "unconditional-continue"):
            return True
        if v.vc == "V7" and (v.key.startswith("attach-once") or v.key == "attach-then-skip"):
            return True
        return False
    frames.emit(run, sel, rule_of=lambda v: "R2-peel-next-layer")

    # re-basing: an undecoded indicator inside a payload becomes the context of the indicators after it, so the positions of
    # "the indicators inside it" depend on the context bookkeeping (push / pop / shift) being exact
    def sel_ctx(v):
        return v.vc in ("V4", "V5") or (v.vc == "V8" and v.key.startswith("context-arm/"))
    frames.emit(run, sel_ctx, rule_of=lambda v: "R6-indicator-positions")
    run.floor("R6-indicator-positions", 12)
    sn = prog.fn("multidecoder.Multidecoder.scan_node")
    mod = sn.module
    need(len(sn.params) >= 3, "anchor: scan_node(self, node, depth_limit) signature")
    DEPTH = sn.params[2]
    rec_calls = [n for n in own_nodes(sn.node) if isinstance(n, ast.Call) and prog.callee(mod, sn, n).func is sn]
    need(rec_calls, "anchor: no recursive scan_node call found")
    subst = common.single_assignment_temps(sn.node)
    from .. import guards as G
    az = G.Atomizer(subst={k: v for k, v in subst.items() if k != DEPTH})
    for i, c in enumerate(rec_calls, 1):
        arg = common.call_arg(c, sn, 2, DEPTH)
        lf = lin_of_ast(az.inline(arg), lambda x: Lin.sym(ast.unparse(x))) if arg is not None else None
        ok = lf is not None and set(lf.t) == {DEPTH} and lf.t[DEPTH] == 1 and lf.c == -1
        run.ob("R2-peel-next-layer", f"multidecoder.scan_node/recursive-call#{i}/depth-exactly-one", ok, f"{mod.rel}:{c.lineno}",
               "each level of re-scanning costs exactly one unit of depth (a stack of height h is peeled within depth h+1)",
               "" if ok else f"depth argument is `{norm_src(arg) if arg is not None else 'missing'}`", mech="linear form of the argument")
    run.floor("R2-peel-next-layer", 4)

    # ------------------------------------------------------------------ R5: necessary clauses decided by sibling rule modules
    import importlib
    for tag, keep, floor in DELEGATED:
        via = Via(run, tag, keep)
        importlib.import_module(f"mdstatic.rules.{tag}").check(via)
        if not run.failures():
            need(via.n >= floor, f"anchor: {tag} contributed {via.n} obligations to C02, fewer than the {floor} confirmed on the reference tree")
    run.note("delegated", {t: f"obligations of {t} that are necessary conditions of C02" for t, _k, _f in DELEGATED})
