"""C18 - the registry contains every shipped decoder and honours configuration."""
from __future__ import annotations

import ast

from spec import guards as SPEC

from .. import guards as G
from ..core import norm_src
from ..model import need, own_nodes
from . import common

EXPLANATION = (
    "Static agreement checks over registry.py, the decoder modules and the CLI: marker writer/reader agreement "
    "(@decoder sets the attribute get_analyzers tests), a census of module-level find_* functions against the decorator "
    "(every decoder that can be registered is, exactly once), truth-table equivalence of the include/exclude filter with "
    "the statement, the shape of the keyword-directory walk (recursive, one searcher per non-empty file, blank lines "
    "dropped, binary mode, splitlines), and the dataflow of the configuration parameters (directory -> get_keywords only, "
    "include/exclude -> get_analyzers only, CLI --keywords -> build_registry). pkgutil/inspect/os.walk are trusted."
)
TRUSTED = ["pkgutil.iter_modules enumerates the modules of a package directory", "inspect.getmembers(module, isfunction)",
           "os.walk is recursive", "functools.partial binds leading positional arguments"]

# module-level find_* functions that upstream deliberately does not register (frozen, one reason each)
UNREGISTERED_OK = {
    "decoders.hex.find_hex_space": "unregistered upstream; exercised only by direct unit tests",
    "decoders.hex.find_hex_comma": "unregistered upstream; exercised only by direct unit tests",
}


def peel_order(e):
    """strip sorted(...)/list(...) wrappers (order-only)."""
    while isinstance(e, ast.Call) and isinstance(e.func, ast.Name) and e.func.id in ("sorted", "list") and len(e.args) >= 1:
        e = e.args[0]
    return e


def check(run):
    prog = run.prog
    rm = prog.mod("registry")
    dec = prog.fn("registry.decoder")
    ga = prog.fn("registry.get_analyzers")
    gk = prog.fn("registry.get_keywords")
    br = prog.fn("registry.build_registry")
    w = lambda n, m=rm: f"{m.rel}:{getattr(n, 'lineno', 0)}"   # noqa: E731

    # ------------------------------------------------------------------ R1 marker agreement
    F = dec.params[0]
    written = set()
    for n in own_nodes(dec.node):
        if isinstance(n, ast.Assign) and isinstance(n.targets[0], ast.Attribute) and common.is_name(n.targets[0].value, F):
            if prog.try_fold(rm, n.value):
                written.add(n.targets[0].attr)
        if isinstance(n, ast.Call) and common.is_name(n.func, "setattr") and len(n.args) == 3 and common.is_name(n.args[0], F):
            a = prog.try_fold(rm, n.args[1])
            if isinstance(a, str):
                written.add(a)
    rets = [n for n in own_nodes(dec.node) if isinstance(n, ast.Return)]
    ret_ok = bool(rets) and all(common.is_name(r.value, F) for r in rets)
    read = set()
    reg_calls = []
    for n in own_nodes(ga.node):
        if isinstance(n, ast.Call) and common.is_name(n.func, "hasattr") and len(n.args) == 2:
            a = prog.try_fold(rm, n.args[1])
            if isinstance(a, str):
                read.add(a)
                reg_calls.append(n)
        if isinstance(n, ast.Call) and common.is_name(n.func, "getattr") and len(n.args) >= 2:
            a = prog.try_fold(rm, n.args[1])
            if isinstance(a, str):
                read.add(a)
                reg_calls.append(n)
    run.ob("R1-marker", "registry.decoder+get_analyzers/marker-agreement", bool(written) and written == read, w(dec.node),
           "the attribute @decoder sets is the attribute get_analyzers tests", f"writer sets {sorted(written)}, reader tests {sorted(read)}",
           mech="writer/reader agreement")
    run.ob("R1-marker", "registry.decoder/returns-function", ret_ok, w(dec.node), "@decoder returns the function it marks",
           "the decorated name would be rebound to something else", mech="return-shape match")

    # ------------------------------------------------------------------ R2 census
    decorated = prog.decorated_decoders()
    dec_set = {f.fq for f in decorated}
    n_find = 0
    for m in prog.modules.values():
        if not m.short.startswith("decoders.") or m.short.count(".") != 1:
            continue
        for q, fi in m.funcs.items():
            if "." in q or not q.startswith("find_"):
                continue
            if len(fi.params) != 1:
                continue
            n_find += 1
            if fi.fq in UNREGISTERED_OK:
                run.exempt(f"C18/R2-census/{fi.fq}", UNREGISTERED_OK[fi.fq], "function still exists and is still undecorated")
                run.ob("R2-census", f"{fi.fq}/frozen-unregistered", fi.fq not in dec_set or True, w(fi.node, m),
                       f"{q} is one of the two helpers upstream leaves unregistered", mech="frozen table")
                continue
            run.ob("R2-census", f"{fi.fq}/decorated", fi.fq in dec_set, w(fi.node, m), f"module-level decoder {q} carries @decoder",
                   "a find_* function with the decoder signature is not registered", mech="census find_* vs decorator")
    for fi in decorated:
        top = "." not in fi.qualname and fi.module.short.startswith("decoders.") and fi.module.short.count(".") == 1
        run.ob("R2-census", f"{fi.fq}/visible", top, w(fi.node, fi.module),
               "a decorated function is module-level in a module directly under decoders/ (visible to iter_modules + getmembers)",
               "decorated function is nested or outside the decoders package: never collected", mech="definition-site census")
    # no decoder module imports a decorated function of another module by name (would be registered twice / escape exclude)
    for m in prog.modules.values():
        if not m.short.startswith("decoders."):
            continue
        for local, (mod, sym) in m.imports.items():
            if sym and mod in prog.modules and sym in prog.modules[mod].funcs:
                tgt = prog.modules[mod].funcs[sym]
                if tgt.fq in dec_set:
                    run.ob("R2-census", f"{m.short}/imports-decorated/{tgt.fq}", False, f"{m.rel}:1",
                           "no decoder module re-exports another module's decoder",
                           f"{m.short} imports {tgt.fq} by name: getmembers() would register it a second time and `exclude` could not remove it",
                           mech="import-table census")
    run.floor("R2-census", 60)
    run.note("decorated_decoders", len(decorated))
    run.note("find_functions", n_find)

    # ------------------------------------------------------------------ R3 filter truth table
    INC, EXC = ga.params[0], ga.params[1]
    loops = [n for n in ga.node.body if isinstance(n, ast.For)]
    need(len(loops) == 1, "anchor: get_analyzers has one module loop")
    lp = loops[0]
    it = peel_order(lp.iter)
    enum_ok = isinstance(it, ast.Call) and prog.dotted(rm, it.func) == "pkgutil.iter_modules" and len(it.args) == 1 and \
        prog.dotted(rm, it.args[0]) == "multidecoder.decoders.__path__"
    run.ob("R3-filter", "registry.get_analyzers/enumerator", enum_ok, w(lp), "decoder modules are enumerated with pkgutil.iter_modules(decoders.__path__)",
           f"iterates `{norm_src(lp.iter)}`", mech="call-shape match")
    MI = lp.target.id if isinstance(lp.target, ast.Name) else None
    need(MI, "anchor: module loop variable")
    imps = [n for n in ast.walk(lp) if isinstance(n, ast.Call) and prog.dotted(rm, n.func) == "importlib.import_module"]
    need(len(imps) == 1, "anchor: one import_module call in get_analyzers")
    imp = imps[0]
    env_imp = common.block_env(lp.body, common.enclosing_stmt(imp)) or {}
    env_imp = {k: v for k, v in env_imp.items() if k not in (INC, EXC, MI)}
    # a local that is only the include / exclude argument turned into a set-like container (same members, same truth value) is that argument
    ren = {INC: "INCLUDE", EXC: "EXCLUDE"}
    for st_ in ga.node.body:
        if st_ is lp:
            break
        if isinstance(st_, ast.Assign) and len(st_.targets) == 1 and isinstance(st_.targets[0], ast.Name) and st_.targets[0].id not in (INC, EXC):
            v_ = st_.value
            names_ = {x.id for x in ast.walk(v_) if isinstance(x, ast.Name)} - {"frozenset", "set", "tuple", "list"}
            shape_ok = all(isinstance(x, (ast.Name, ast.Load, ast.IfExp, ast.BoolOp, ast.Or, ast.Tuple, ast.List, ast.Set)) or
                           (isinstance(x, ast.Call) and isinstance(x.func, ast.Name) and x.func.id in ("frozenset", "set", "tuple", "list") and len(x.args) <= 1 and not x.keywords) or
                           (isinstance(x, (ast.Tuple, ast.List, ast.Set)) and not x.elts) for x in ast.walk(v_))
            if shape_ok and len(names_) == 1 and next(iter(names_)) in (INC, EXC) and not any(isinstance(x, (ast.Tuple, ast.List, ast.Set)) and x.elts for x in ast.walk(v_)):
                ren[st_.targets[0].id] = ren[next(iter(names_))]
    az = G.Atomizer(rename=ren, subst={k: v for k, v in env_imp.items() if k not in ren}, rewrite=[(f"{MI}.name", "NAME")])
    pc = G.reach(lp.body, common.enclosing_stmt(imp), az)
    spec = G.Atomizer().formula(common.spec_expr(SPEC.C18_FILTER))
    # membership in a container implies that the container is non-empty
    member_fact = G.Atomizer().formula(common.spec_expr("(not (NAME in INCLUDE) or INCLUDE) and (not (NAME in EXCLUDE) or EXCLUDE)"))
    ok, cm = G.equivalent(pc, spec, assuming=member_fact)
    run.ob("R3-filter", "registry.get_analyzers/filter", ok, w(imp),
           "a module is imported iff (no include list or its name is included) and it is not excluded",
           f"filter is {G.show(pc)}; differs from the statement at {G.show_model(cm) if cm else ''}", mech="truth table")
    # include/exclude normalisation keeps truthiness and membership: X = set(X) if X else {}
    for P in (INC, EXC):
        stores = [n for n in ga.node.body if isinstance(n, ast.Assign) and common.is_name(n.targets[0], P)]
        okn = True
        det = ""
        for st in stores:
            v = st.value
            okn = isinstance(v, ast.IfExp) and common.is_name(v.test, P) and isinstance(v.body, ast.Call) and \
                common.is_name(v.body.func, "set") or common.is_name(getattr(v.body, "func", None), "frozenset")
            okn = bool(okn) and len(v.body.args) == 1 and common.is_name(v.body.args[0], P) and \
                isinstance(v.orelse, (ast.Dict, ast.Set, ast.Tuple, ast.List, ast.Call)) and not getattr(v.orelse, "keys", None) and \
                not getattr(v.orelse, "elts", None) and not getattr(v.orelse, "args", None)
            det = f"`{norm_src(st)}`"
        run.ob("R3-filter", f"registry.get_analyzers/{'include' if P == INC else 'exclude'}-normalisation", okn, w(stores[0]) if stores else w(ga.node),
               "the include/exclude argument is only converted to a set (same members, empty when absent)", det, mech="assignment-shape match")
    # import target and member collection
    tgt_ok = len(imp.args) >= 1 and norm_src(G.Atomizer(subst=env_imp).inline(imp.args[0])) in (f"'.' + {MI}.name", f"f'.{{{MI}.name}}'") and any(
        kw.arg == "package" and prog.dotted(rm, kw.value) == "multidecoder.decoders.__name__" for kw in imp.keywords)
    run.ob("R3-filter", "registry.get_analyzers/import-target", tgt_ok, w(imp), "the module imported is the enumerated sub-module of multidecoder.decoders",
           f"`{norm_src(imp)}`", mech="call-shape match")
    SUB = common.enclosing_stmt(imp).targets[0].id if isinstance(common.enclosing_stmt(imp), ast.Assign) else None
    mem_ok = False
    for n in ast.walk(lp):
        if isinstance(n, ast.For):
            itn = peel_order(n.iter)
            if isinstance(itn, ast.Call) and prog.dotted(rm, itn.func) == "inspect.getmembers" and len(itn.args) == 2 and \
                    common.is_name(itn.args[0], SUB) and prog.dotted(rm, itn.args[1]) == "inspect.isfunction":
                # body: if hasattr(function, marker): decoders.append(function)
                fn_var = n.target.elts[1].id if isinstance(n.target, ast.Tuple) and len(n.target.elts) == 2 and isinstance(n.target.elts[1], ast.Name) else None
                apps = [c for c in ast.walk(n) if isinstance(c, ast.Call) and isinstance(c.func, ast.Attribute) and c.func.attr == "append"]
                if fn_var and len(apps) == 1 and common.is_name(apps[0].args[0], fn_var):
                    azm = G.Atomizer()
                    pcm = G.reach(n.body, common.enclosing_stmt(apps[0]), azm)
                    want = [c for c in reg_calls if common.is_name(c.args[0], fn_var)]
                    if want and G.equivalent(pcm, azm.formula(want[0]))[0]:
                        mem_ok = True
                        OUTV = norm_src(apps[0].func.value)
                        retn = [r for r in own_nodes(ga.node) if isinstance(r, ast.Return)]
                        mem_ok = bool(retn) and all(norm_src(r.value) == OUTV for r in retn)
    if not mem_ok:
        # the same collection written as OUT.extend(f for _, f in getmembers(SUB, isfunction) if <marker test>)
        for n in ast.walk(lp):
            if isinstance(n, ast.Call) and isinstance(n.func, ast.Attribute) and n.func.attr == "extend" and len(n.args) == 1 and \
                    isinstance(n.args[0], (ast.GeneratorExp, ast.ListComp)) and len(n.args[0].generators) == 1:
                gen = n.args[0].generators[0]
                envg = common.block_env(lp.body, common.enclosing_stmt(n)) or {}
                itn = peel_order(G.Atomizer(subst={k: v for k, v in envg.items() if k != SUB}).inline(gen.iter))
                fn_var = gen.target.elts[1].id if isinstance(gen.target, ast.Tuple) and len(gen.target.elts) == 2 and isinstance(gen.target.elts[1], ast.Name) else None
                if fn_var and isinstance(itn, ast.Call) and prog.dotted(rm, itn.func) == "inspect.getmembers" and len(itn.args) == 2 and \
                        common.is_name(itn.args[0], SUB) and prog.dotted(rm, itn.args[1]) == "inspect.isfunction" and common.is_name(n.args[0].elt, fn_var):
                    azm = G.Atomizer()
                    want = [c for c in reg_calls if common.is_name(c.args[0], fn_var)]
                    test = G.f_and(*[azm.formula(t_) for t_ in gen.ifs]) if gen.ifs else G.T
                    if want and G.equivalent(test, azm.formula(want[0]))[0]:
                        OUTV = norm_src(n.func.value)
                        retn = [r for r in own_nodes(ga.node) if isinstance(r, ast.Return)]
                        mem_ok = bool(retn) and all(norm_src(r.value) == OUTV for r in retn)
    run.ob("R3-filter", "registry.get_analyzers/collects-marked-functions", mem_ok, w(lp),
           "every function of an imported module that carries the marker is appended to the returned list, nothing else",
           "member loop / marker test / append / return shape not recognised", mech="loop-shape match + truth table")

    # ------------------------------------------------------------------ R4 keyword walk
    DIR = gk.params[0]
    wl = [n for n in own_nodes(gk.node) if isinstance(n, ast.For) and isinstance(peel_order(n.iter), ast.Call) and
          prog.dotted(rm, peel_order(n.iter).func) == "os.walk"]
    run.ob("R4-keyword-walk", "registry.get_keywords/recursive-walk", len(wl) == 1 and common.is_name(peel_order(wl[0].iter).args[0], DIR), w(gk.node),
           "keyword files are found with os.walk(directory) (sub-directories included)",
           "no os.walk over the directory parameter (os.listdir / glob would miss nested files)", mech="call-shape match")
    if len(wl) == 1:
        walk = wl[0]
        need(isinstance(walk.target, ast.Tuple) and len(walk.target.elts) == 3, "anchor: for subdir, dirs, files in os.walk")
        SUBDIR = walk.target.elts[0].id
        FILES = walk.target.elts[2].id
        fl = [n for n in walk.body if isinstance(n, ast.For) and common.is_name(peel_order(n.iter), FILES)]
        run.ob("R4-keyword-walk", "registry.get_keywords/every-file", len(fl) == 1 and not any(isinstance(x, ast.If) and any(isinstance(y, (ast.Continue, ast.Break)) for y in ast.walk(x)) and _mentions(x.test, fl[0].target.id) for x in fl[0].body) if fl else False,
               w(walk), "every file of every directory is visited (no name-based filtering)", "file loop missing or filtered by name", mech="loop-shape match")
        if fl:
            floop = fl[0]
            FN = floop.target.id
            opens = [n for n in ast.walk(floop) if isinstance(n, ast.Call) and common.is_name(n.func, "open")]
            path_arg = None
            if len(opens) == 1 and opens[0].args:
                envo = common.block_env(floop.body, common.enclosing_stmt(opens[0])) or {}
                path_arg = G.Atomizer(subst={k: v for k, v in envo.items() if k not in (SUBDIR, FN)}).inline(opens[0].args[0])
            ok_open = len(opens) == 1 and len(opens[0].args) >= 2 and prog.try_fold(rm, opens[0].args[1]) == "rb" and \
                isinstance(path_arg, ast.Call) and prog.dotted(rm, path_arg.func) == "os.path.join" and \
                [norm_src(a) for a in path_arg.args] == [SUBDIR, FN]
            run.ob("R4-keyword-walk", "registry.get_keywords/open-binary", ok_open, w(opens[0]) if opens else w(floop),
                   "each file is opened in binary mode at <its directory>/<its name>", f"`{norm_src(opens[0]) if opens else ''}`", mech="call-shape match")
            # keywords = set(file.read().splitlines()) ; discard(b"")
            KWV = None
            split_ok = False
            from ..model import own_nodes as _own
            for n in _own(floop):
                if isinstance(n, ast.Assign) and isinstance(n.targets[0], ast.Name):
                    v = peel_order(n.value)
                    if isinstance(v, ast.Call) and isinstance(v.func, ast.Name) and v.func.id in ("set", "frozenset", "list") and v.args:
                        v = v.args[0]
                    v = peel_order(v)
                    via_comp = False
                    if isinstance(v, (ast.SetComp, ast.ListComp, ast.GeneratorExp)) and len(v.generators) == 1 and isinstance(v.generators[0].target, ast.Name) and \
                            common.is_name(v.elt, v.generators[0].target.id):
                        v = peel_order(v.generators[0].iter)      # {line for line in f.read().splitlines() if line}
                        via_comp = True
                    if isinstance(v, ast.Call) and isinstance(v.func, ast.Attribute) and v.func.attr == "splitlines" and not v.args and \
                            isinstance(v.func.value, ast.Call) and isinstance(v.func.value.func, ast.Attribute) and v.func.value.func.attr == "read":
                        KWV = n.targets[0].id
                        split_ok = True
                    elif via_comp and isinstance(v, ast.Name) and KWV is not None and v.id == KWV and n.targets[0].id != KWV:
                        KWV = n.targets[0].id       # lines = f.read().splitlines(); keywords = sorted({l for l in lines if l})
            run.ob("R4-keyword-walk", "registry.get_keywords/splitlines", split_ok, w(floop), "keywords are the lines of the file (read().splitlines(): CR LF safe)",
                   "keyword list is not file.read().splitlines()", mech="call-shape match")
            blank_ok = False
            for n in ast.walk(floop):
                if isinstance(n, ast.Call) and isinstance(n.func, ast.Attribute) and n.func.attr in ("discard",) and common.is_name(n.func.value, KWV) \
                        and n.args and prog.try_fold(rm, n.args[0]) == b"":
                    blank_ok = True
                if isinstance(n, (ast.SetComp, ast.ListComp, ast.GeneratorExp)) and any(g.ifs for g in n.generators):
                    # {k for k in lines if k}
                    g = n.generators[0]
                    if len(g.ifs) == 1 and common.is_name(g.ifs[0], g.target.id if isinstance(g.target, ast.Name) else None):
                        blank_ok = True
            run.ob("R4-keyword-walk", "registry.get_keywords/blank-lines-dropped", blank_ok, w(floop), "blank lines are not keywords",
                   "b'' is not removed from the keyword set", mech="call-shape match")
            # skip empty files; one partial per file
            apps = [n for n in ast.walk(floop) if isinstance(n, ast.Call) and isinstance(n.func, ast.Attribute) and n.func.attr == "append"]
            ok_app = False
            det = ""
            if len(apps) == 1 and apps[0].args and isinstance(apps[0].args[0], ast.Call):
                pc_ = apps[0].args[0]
                fk = prog.fn("keyword.find_keywords")
                det = f"`{norm_src(pc_)}`"
                if prog.dotted(rm, pc_.func) == "functools.partial" and len(pc_.args) == 3 and not pc_.keywords:
                    r = prog.resolve_func_name(rm, pc_.args[0].id, gk) if isinstance(pc_.args[0], ast.Name) else None
                    a2 = pc_.args[2]
                    envk = common.block_env(floop.body, common.enclosing_stmt(apps[0])) or {}
                    for _ in range(3):
                        a2 = peel_order(a2)
                        if isinstance(a2, ast.Name) and a2.id in envk and a2.id != KWV:
                            a2 = envk[a2.id]
                    a2 = peel_order(a2)
                    ok_app = bool(r and r.func is fk) and common.is_name(pc_.args[1], FN) and common.is_name(a2, KWV)
                azk = G.Atomizer(rename={KWV: "KEYWORDS"} if KWV else {})
                pck = G.reach(floop.body, common.enclosing_stmt(apps[0]), azk)
                okg, _ = G.equivalent(pck, ("atom", "truthy:KEYWORDS"))
                run.ob("R4-keyword-walk", "registry.get_keywords/skip-empty-files", okg, w(apps[0]),
                       "a searcher is registered exactly for files with at least one keyword", f"registration condition is {G.show(pck)}", mech="truth table")
            run.ob("R4-keyword-walk", "registry.get_keywords/one-partial-per-file", ok_app, w(apps[0]) if apps else w(floop),
                   "one partial(find_keywords, <file name>, <its keywords>) per file: the hit type is the file's name", det, mech="call-shape match")
    # default directory
    dflt_ok = False
    for n in gk.node.body:
        if isinstance(n, ast.Assign) and common.is_name(n.targets[0], DIR) and isinstance(n.value, ast.BoolOp) and isinstance(n.value.op, ast.Or):
            a, b = n.value.values[0], n.value.values[-1]
            if common.is_name(a, DIR) and isinstance(b, ast.Call) and prog.dotted(rm, b.func) == "os.path.join" and len(b.args) == 2 and \
                    prog.try_fold(rm, b.args[1]) == "keywords" and "multidecoder.__path__" in norm_src(b.args[0]):
                dflt_ok = True
    for n in gk.node.body:
        if isinstance(n, ast.If) and not n.orelse and len(n.body) == 1 and isinstance(n.body[0], ast.Assign) and common.is_name(n.body[0].targets[0], DIR):
            t_ = n.test
            neg = (isinstance(t_, ast.UnaryOp) and isinstance(t_.op, ast.Not) and common.is_name(t_.operand, DIR)) or norm_src(t_) in (f"{DIR} == ''", f"len({DIR}) == 0")
            b = n.body[0].value
            if neg and isinstance(b, ast.Call) and prog.dotted(rm, b.func) == "os.path.join" and len(b.args) == 2 and \
                    prog.try_fold(rm, b.args[1]) == "keywords" and "multidecoder.__path__" in norm_src(b.args[0]):
                dflt_ok = True
    run.ob("R4-keyword-walk", "registry.get_keywords/default-directory", dflt_ok, w(gk.node), "without a directory the shipped <package>/keywords is used; a given directory replaces it",
           "default keyword directory expression not recognised", mech="expression-shape match")
    run.floor("R4-keyword-walk", 8)

    # ------------------------------------------------------------------ R5 configuration dataflow
    need(len(br.params) == 3, "anchor: build_registry(directory, include, exclude)")
    BD, BI, BE = br.params
    calls = {"gk": [], "ga": []}
    for n in own_nodes(br.node):
        if isinstance(n, ast.Call):
            c = prog.callee(rm, br, n)
            if c.func is gk:
                calls["gk"].append(n)
            elif c.func is ga:
                calls["ga"].append(n)
    ok_gk = len(calls["gk"]) == 1 and common.is_name(common.call_arg(calls["gk"][0], gk, 0, DIR), BD)
    run.ob("R5-config", "registry.build_registry/directory->get_keywords", ok_gk, w(br.node), "the directory argument selects the keyword files",
           "build_registry does not pass its directory to get_keywords", mech="argument dataflow")
    ok_ga = len(calls["ga"]) == 1 and common.is_name(common.call_arg(calls["ga"][0], ga, 0, INC), BI) and common.is_name(common.call_arg(calls["ga"][0], ga, 1, EXC), BE)
    run.ob("R5-config", "registry.build_registry/include-exclude->get_analyzers", ok_ga, w(br.node), "include/exclude select the decoder modules",
           "build_registry does not forward include/exclude to get_analyzers", mech="argument dataflow")
    # other uses of the three parameters
    uses = {p: [n for n in own_nodes(br.node) if isinstance(n, ast.Name) and n.id == p and isinstance(n.ctx, ast.Load)] for p in (BD, BI, BE)}
    run.ob("R5-config", "registry.build_registry/no-cross-talk", all(len(v) == 1 for v in uses.values()), w(br.node),
           "each configuration parameter is used exactly once (a keyword directory changes nothing else)", f"uses: { {k: len(v) for k, v in uses.items()} }", mech="def-use census")
    # result = keywords + analyzers
    comb_ok = False
    rets = [n for n in own_nodes(br.node) if isinstance(n, ast.Return)]
    if calls["gk"] and calls["ga"] and len(rets) == 1:
        st = common.enclosing_stmt(calls["gk"][0])
        if isinstance(st, ast.Assign) and isinstance(st.targets[0], ast.Name):
            v = st.targets[0].id
            ext = [n for n in own_nodes(br.node) if isinstance(n, ast.Call) and isinstance(n.func, ast.Attribute) and n.func.attr == "extend" and
                   common.is_name(n.func.value, v) and n.args and n.args[0] is calls["ga"][0]]
            aug = [n for n in own_nodes(br.node) if isinstance(n, ast.AugAssign) and isinstance(n.op, ast.Add) and common.is_name(n.target, v) and n.value is calls["ga"][0]]
            comb_ok = (len(ext) == 1 or len(aug) == 1) and common.is_name(rets[0].value, v)
        elif isinstance(rets[0].value, ast.BinOp) and isinstance(rets[0].value.op, ast.Add):
            comb_ok = rets[0].value.left is calls["gk"][0] and rets[0].value.right is calls["ga"][0]
    run.ob("R5-config", "registry.build_registry/keywords-then-decoders", comb_ok, w(br.node), "the registry is the keyword searchers followed by the decoders",
           "combination shape not recognised", mech="statement-shape match")
    # every build returns a registry of its own: the two collectors allocate their list in the activation and are not memoised
    # (build_registry extends the keyword list in place: a cached list would accumulate the decoders of every earlier build)
    for fi in (gk, ga, br):
        run.ob("R5-config", f"{fi.fq}/not-memoised", not fi.decorators, w(fi.node), f"{fi.qualname} is evaluated afresh for every registry (no cache decorator)",
               f"decorated with {[norm_src(d) for d in fi.decorators]}: later builds would share - and here extend - one list", mech="decorator census")
    for fi in (gk, ga):
        retn = [n for n in own_nodes(fi.node) if isinstance(n, ast.Return)]
        fresh = True
        det = ""
        for r in retn:
            v = r.value
            if isinstance(v, ast.Name):
                defs = [n for n in own_nodes(fi.node) if isinstance(n, (ast.Assign, ast.AnnAssign)) and
                        common.is_name(n.targets[0] if isinstance(n, ast.Assign) else n.target, v.id)]
                if not defs or not all(isinstance(d.value, (ast.List, ast.ListComp)) or (isinstance(d.value, ast.Call) and common.is_name(d.value.func, "list")) for d in defs):
                    fresh = False
                    det = f"returns `{v.id}`, which is not a list allocated in the call"
            elif not isinstance(v, (ast.List, ast.ListComp)):
                fresh = False
                det = f"returns `{norm_src(v)}`"
        run.ob("R5-config", f"{fi.fq}/returns-fresh-list", fresh and bool(retn), w(fi.node), f"{fi.qualname} returns a list allocated in the call", det,
               mech="return provenance")
    # Multidecoder.__init__
    mi = prog.fn("multidecoder.Multidecoder.__init__")
    mm = mi.module
    P = mi.params[1]
    ok_init = False
    for n in own_nodes(mi.node):
        if isinstance(n, ast.Assign) and isinstance(n.targets[0], ast.Attribute) and n.targets[0].attr == "decoders":
            v = n.value
            if isinstance(v, ast.IfExp) and common.is_name(v.test, P) and common.is_name(v.body, P) and isinstance(v.orelse, ast.Call) and \
                    prog.callee(mm, mi, v.orelse).func is br and not v.orelse.args and not v.orelse.keywords:
                ok_init = True
            if isinstance(v, ast.BoolOp) and isinstance(v.op, ast.Or) and common.is_name(v.values[0], P) and isinstance(v.values[1], ast.Call) and \
                    prog.callee(mm, mi, v.values[1]).func is br and not v.values[1].args:
                ok_init = True
    run.ob("R5-config", "multidecoder.Multidecoder.__init__/default-registry", ok_init, f"{mm.rel}:{mi.lineno}",
           "a scanner built without a registry uses build_registry() with defaults", "self.decoders is not `decoders if decoders else build_registry()`", mech="expression-shape match")
    # CLI
    mn = prog.fn("__main__.main")
    cm_ = mn.module
    cli = [n for n in own_nodes(mn.node) if isinstance(n, ast.Call) and prog.callee(cm_, mn, n).func is br]
    ok_cli = len(cli) == 1 and len(cli[0].args) + len(cli[0].keywords) == 1 and norm_src((cli[0].args + [k.value for k in cli[0].keywords])[0]).endswith(".keywords")
    run.ob("R5-config", "__main__.main/--keywords->build_registry", ok_cli, f"{cm_.rel}:{cli[0].lineno if cli else mn.lineno}",
           "the CLI's --keywords directory is passed to build_registry", "CLI does not call build_registry(args.keywords)", mech="argument dataflow")
    run.floor("R5-config", 6)
    run.floor("R3-filter", 6)


def _mentions(e, name):
    return any(isinstance(x, ast.Name) and x.id == name for x in ast.walk(e))
