"""C09 - results are reproducible: a function of input, depth and configuration only."""
from __future__ import annotations

import ast
import os

from .. import effects as E
from .. import frames
from ..model import call_graph, need, reachable
from . import common

EXPLANATION = (
    "Determinism/effect analysis over the call graph of build_registry and Multidecoder.scan (the registry loop is resolved "
    "to every @decoder function and find_keywords): (R1) order taint - values of unordered kind (sets, frozensets, hash-ordered "
    "sequences) and file-system enumeration order (os.walk/listdir/scandir/glob) are propagated through assignments, partial "
    "applications, parameters and returns, and every order-observing use (ordered comprehension, loop with order-sensitive "
    "effects, list()/tuple()/join/indexing) is reported unless it went through sorted()/.sort(); (R2) the registry enumerators "
    "are checked to sort, by inspecting the stdlib sources of the repository's interpreter; (R3) no store or mutating call on the "
    "scan path targets state shared between activations (module objects, self.*, caches, defaults); writes through a parameter "
    "are allowed only when every call site passes a fresh allocation; (R4) no entropy sources; (R5) ties of the stable sort "
    "are registry order then decoder-return order (generator shape)."
)
TRUSTED = ["sorted()/list.sort() are deterministic and stable", "CPython dict insertion order", "thread-safety of the regex module's matching",
           "pefile is deterministic"]


def check(run):
    prog = run.prog
    decoders = prog.decorated_decoders()
    fk = prog.fn("keyword.find_keywords")
    edges = call_graph(prog, registry_targets=decoders + [fk])
    scan = prog.fn("multidecoder.Multidecoder.scan")
    sn = prog.fn("multidecoder.Multidecoder.scan_node")
    br = prog.fn("registry.build_registry")
    init = prog.fn("multidecoder.Multidecoder.__init__")
    scan_path = reachable(edges, [scan, sn])
    build_path = reachable(edges, [br, init])
    views = [prog.fn("node.Node.flatten"), prog.fn("node.Node.__iter__"), prog.fn("query.string_summary"), prog.fn("json_conversion.tree_to_json")]
    view_path = reachable(edges, views)
    allf = sorted(scan_path | build_path | view_path, key=lambda f: (f.module.name, f.lineno))
    run.note("functions_scan_path", len(scan_path))
    run.note("functions_registry_build", len(build_path))
    run.note("functions_views", len(view_path))
    need(len(scan_path) >= 40, f"anchor: scan path has only {len(scan_path)} functions (registry model lost?)")

    # ---------------------------------------------------------------- R1 order taint
    ot = E.OrderTaint(prog, allf)
    run.note("unordered_sources", sorted({f"{fi.fq}:{common.short_src(n, 40)}" for fi, n in ot.sources}))
    run.note("tainted_parameters", sorted(f"{fi.fq}({p})={k}" for (fi, p), k in ot.param_kind.items()))
    run.note("order_insensitive_uses", len(ot.uses_ok))
    seen = set()
    for f in ot.findings:
        if f.key in seen:
            continue
        seen.add(f.key)
        run.ob("R1-order-taint", f.key, False, f"{f.fn.module.rel}:{getattr(f.node, 'lineno', 0)}",
               "no unordered / file-system-ordered value reaches an order-observing use unsorted", f.what, mech="order taint (E8)")
    # positive obligations: every source is accounted for
    n_src = 0
    for fi, n in ot.sources:
        n_src += 1
    run.ob("R1-order-taint", "sources-census", n_src >= 5, "src/multidecoder", f"{n_src} unordered / file-system sources tracked through the call graph",
           "fewer unordered sources than on the reference tree: the taint analysis lost its anchors", mech="census")
    for (fi, p), k in sorted(ot.param_kind.items(), key=lambda x: (x[0][0].fq, x[0][1])):
        bad = any(f.fn is fi and f.key.endswith("/" + p) for f in ot.findings)
        run.ob("R1-order-taint", f"{fi.fq}/param-{p}", not bad, f"{fi.module.rel}:{fi.lineno}",
               f"parameter `{p}` of {fi.qualname} may receive an unordered value and is only used order-insensitively",
               f"`{p}` receives a value of kind {k} and its iteration order is observed", mech="order taint (E8)")

    # ---------------------------------------------------------------- R2 enumerators sort
    home = None
    cfg = "/venv/pyvenv.cfg"
    if os.path.exists(cfg):
        for line in open(cfg):
            if line.startswith("home"):
                home = line.split("=", 1)[1].strip()
    libdirs = []
    if home:
        base = os.path.dirname(home)
        libroot = os.path.join(base, "lib")
        if os.path.isdir(libroot):
            libdirs = [os.path.join(libroot, d) for d in sorted(os.listdir(libroot)) if d.startswith("python3")]
    import sysconfig
    libdirs.append(sysconfig.get_paths()["stdlib"])
    ga = prog.fn("registry.get_analyzers")
    used = set()
    for n in ast.walk(ga.node):
        if isinstance(n, ast.Call) and isinstance(n.func, (ast.Name, ast.Attribute)):
            d = prog.dotted(ga.module, n.func)
            if d in ("pkgutil.iter_modules", "inspect.getmembers", "pkgutil.walk_packages", "os.listdir", "os.scandir", "glob.glob", "dir", "vars"):
                used.add((d, n))
    table = {"pkgutil.iter_modules": ("pkgutil.py", {"_iter_file_finder_modules", "iter_modules"}),
             "inspect.getmembers": ("inspect.py", {"_getmembers", "getmembers"})}
    for d, n in sorted(used, key=lambda x: x[0]):
        par = getattr(n, "_parent", None)
        wrapped = isinstance(par, ast.Call) and common.is_name(par.func, "sorted")
        ok = wrapped
        det = f"`{d}` result is consumed in enumeration order without sorted()"
        if not ok and d in table:
            fn, names = table[d]
            verdicts = [E.stdlib_sorts(os.path.join(ld, fn), names, d) for ld in libdirs]
            verdicts = [v for v in verdicts if v is not None]
            ok = bool(verdicts) and all(verdicts)
            det = f"{fn} of the interpreters at {libdirs}: sorts = {verdicts}"
            run.assume(f"{d} returns its results sorted (checked in the stdlib source: {fn})")
        run.ob("R2-enumerators", f"registry.get_analyzers/{d}", ok, f"{ga.module.rel}:{n.lineno}",
               f"the enumerator {d} yields a sorted sequence (or is wrapped in sorted())", det, mech="stdlib source inspection / sorted() wrapper")
    run.floor("R2-enumerators", 2)

    # ---------------------------------------------------------------- R3 shared writes
    tree_params = {(sn.fq, sn.params[1])}
    ef = E.Effects(prog, sorted(scan_path | view_path, key=lambda f: (f.module.name, f.lineno)), tree_params=tree_params)
    run.note("stores_and_mutations_examined", ef.n_stores)
    seen = set()
    for f in ef.findings:
        if f.key in seen:
            continue
        seen.add(f.key)
        run.ob("R3-shared-writes", f.key, False, f"{f.fn.module.rel}:{getattr(f.node, 'lineno', 0)}",
               "no write on the scan path targets state shared between scans", f.what, mech="effect analysis (E8)")
    for fi, p, ok, why, node in ef.check_param_writes(edges):
        run.ob("R3-shared-writes", f"{fi.fq}/writes-through-param-{p}", ok, f"{fi.module.rel}:{getattr(node, 'lineno', fi.lineno)}",
               f"{fi.qualname} mutates its parameter `{p}`: every caller hands it a node allocated in its own activation", why, mech="call-site freshness")
    run.ob("R3-shared-writes", "stores-census", ef.n_stores >= 40, "src/multidecoder", f"{ef.n_stores} stores / mutating calls on the scan path classified by owner",
           "fewer stores than on the reference tree", mech="census")
    # caches on the registry-build path make a later registry depend on the history of earlier builds
    for fi in sorted(build_path, key=lambda f: (f.module.name, f.lineno)):
        if isinstance(fi.node, ast.Lambda):
            continue
        for d in fi.decorators:
            dd = prog.dotted(fi.module, d.func if isinstance(d, ast.Call) else d)
            if dd in E.CACHE_DECORATORS:
                run.ob("R3-shared-writes", f"{fi.fq}/cache-decorator", False, f"{fi.module.rel}:{fi.lineno}",
                       "no function on the registry-build path is memoised", f"@{dd}: the result object is shared by every later build (history-dependent configuration)",
                       mech="decorator census")
    # self.decoders written only by __init__
    writers = []
    for fi in prog.all_funcs():
        for n in ast.walk(fi.node):
            if isinstance(n, ast.Attribute) and n.attr == "decoders" and isinstance(n.ctx, ast.Store):
                writers.append(fi.fq)
    run.ob("R3-shared-writes", "multidecoder.Multidecoder/decoders-writers", set(writers) <= {init.fq}, f"{init.module.rel}:{init.lineno}",
           "the registry attribute is assigned only by the constructor", f"writers: {sorted(set(writers))}", mech="store census")
    # module-level Node instances / mutable result caches
    for m in prog.modules.values():
        for name, v in m.assigns.items():
            if isinstance(v, ast.Call) and prog.is_node_ctor(m, None, v):
                run.ob("R3-shared-writes", f"{m.short}/module-level-node/{name}", False, f"{m.rel}:{v.lineno}",
                       "no Node object lives at module level (hits are fresh objects per scan)", f"{name} = Node(...) would be shared between trees", mech="census")

    # ---------------------------------------------------------------- R4 entropy
    ent = E.entropy_sources(prog, sorted(scan_path | view_path | build_path, key=lambda f: (f.module.name, f.lineno)))
    allowed = set()
    for f in ent:
        run.ob("R4-entropy", f.key, f.key in allowed, f"{f.fn.module.rel}:{getattr(f.node, 'lineno', 0)}",
               "no entropy source on the scan / registry path", f.what, mech="call census")
    run.ob("R4-entropy", "census", True, "src/multidecoder", f"{len(scan_path | view_path | build_path)} functions searched for random/time/uuid/os.environ/id/hash/...",
           mech="call census")

    # ---------------------------------------------------------------- R5 tie order
    frames.emit(run, lambda v: v.vc == "V2", rule_of=lambda v: "R5-tie-order")
    run.floor("R5-tie-order", 3)
