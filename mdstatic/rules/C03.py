"""C03 - the result is a well-formed tree over the input with in-bounds spans."""
from __future__ import annotations

import ast

from .. import frames, noderules, sites
from ..absint import ConstV
from ..core import norm_src
from ..lin import Lin
from ..model import bind_node_call, need, own_nodes
from . import common

EXPLANATION = (
    "Static analysis in four parts. (R1) the root handed to scan_node is Node('', data, '', 0, len(data)) with no parent/children "
    "(arguments bound through Node.__init__'s signature). (R2/R6) affine frame analysis of scan_node: it returns the root and every "
    "attached hit is re-based into [0, len(NODE.value)] and paired with its parent. (R3) every store into a children list anywhere "
    "in the package is paired with the child's parent pointer. (R4) Node.__iter__ is pre-order. (R5) span bounds: an abstract "
    "interpretation of every decoder over a linear-form domain (symbols for match spans, lengths, loop counters; facts discharged by "
    "Fourier-Motzkin) proves, for every Node a decoder returns on every path, 0 <= start <= end <= len(data), and for every child a "
    "decoder attaches itself, 0 <= start <= end <= len(parent value); helpers with many paths (parse_url, parse_authority) are used "
    "through a span contract that is itself checked with the helper as entry point. (R7) Node.original slices the parent's value."
)
TRUSTED = ["re/regex match spans lie inside the subject and group spans inside the match", "len() of bytes methods (lower/upper keep length; strip/split/replace-with-shorter/unquote shrink)",
           "urlsplit component layout for text without whitespace/control characters", "ntpath.normpath never lengthens a non-empty path; splitext partitions its argument",
           "pefile section header fields are unsigned"]


def span_obligations(run, rule, entries, A, only_children_of=None):
    """R5 for a list of entry functions. Returns number of hit instances examined."""
    n_inst = 0
    for fi in entries:
        hits, interp, nstates = A.run(fi)
        pname = A.bytes_param(fi)
        plen = Lin.sym(f"len({pname})")
        results = {}      # key -> [ok, where, what, detail]   (discharged obligations)
        failures = {}     # (key, canonical witness) -> (where, what, detail): one finding per distinct failing span expression

        def judge(h, limit, role, parent_key=""):
            nonlocal n_inst
            n_inst += 1
            s = h.state
            k0 = f"{fi.fq}/{parent_key}{h.key()}/{role}"
            ls, le = interp.as_lin(h.fields["start"]), interp.as_lin(h.fields["end"])
            where = f"{fi.module.rel if h.site is None else _rel(run.prog, h)}:{getattr(h.site, 'lineno', fi.lineno)}"
            checks = []
            if ls is None or le is None:
                checks.append(("span-is-int", False, f"start={h.fields['start']!r} end={h.fields['end']!r}"))
            else:
                checks.append(("start>=0", s.le(0, ls), f"start = {ls}"))
                checks.append(("start<=end", s.le(ls, le), f"start = {ls}, end = {le}"))
                if limit is None:
                    checks.append(("end<=len", False, f"end = {le}; the length of the enclosing value is unknown"))
                else:
                    checks.append(("end<=len", s.le(le, limit), f"end = {le}, limit = {limit}"))
            for name, ok, det in checks:
                key = f"{k0}/{name}"
                if ok:
                    results.setdefault(key, [True, where, _what(role, name), ""])
                else:
                    failures.setdefault((key, canon(det)), (where, _what(role, name), det + f" (path {'/'.join(h.trace[-6:])})"))
            vb = interp.as_bytes(h.fields["value"])
            for c in h.children:
                judge(c, vb.length if vb is not None else None, "child", parent_key=h.key() + ">")
        for h in hits:
            if h.contract_of:
                continue
            judge(h, plen, "hit")
        for key, (ok, where, what, det) in sorted(results.items()):
            run.ob(rule, key, ok, where, what, det, mech="abstract interpretation (E4) + Fourier-Motzkin entailment")
        for (key, wit), (where, what, det) in sorted(failures.items()):
            run.ob(rule, f"{key}[{wit}]", False, where, what, det, mech="abstract interpretation (E4) + Fourier-Motzkin entailment")
        run.analysed.setdefault("entry_functions", {})[fi.fq] = dict(return_partitions=nstates, hits=len(hits), steps=interp.steps,
                                                                       summaries_used=sorted(interp.summaries_used))
    return n_inst


def canon(text):
    """witness text without the per-run numbering of symbols"""
    import re
    t = re.sub(r"\bm\d+\.", "m.", text)
    t = re.sub(r"#\d+", "#", t)
    return t


def _rel(prog, h):
    fq = h.site_func.split("<")[0]
    try:
        return prog.fn(fq).module.rel
    except Exception:   # noqa: BLE001
        return "src/multidecoder"


def _what(role, name):
    tgt = "the scanned data" if role == "hit" else "its parent's value"
    return {"start>=0": f"{role} span start is non-negative on every path",
            "start<=end": f"{role} span is not inverted on every path",
            "end<=len": f"{role} span ends inside {tgt} on every path",
            "span-is-int": f"{role} span is an integer pair"}[name]


def check(run):
    prog = run.prog
    # ------------------------------------------------------------------ R1 root construction
    sc = prog.fn("multidecoder.Multidecoder.scan")
    mm = sc.module
    sn = prog.fn("multidecoder.Multidecoder.scan_node")
    DATA = sc.params[1]
    calls = [n for n in own_nodes(sc.node) if isinstance(n, ast.Call) and prog.callee(mm, sc, n).func is sn]
    need(len(calls) == 1, "anchor: scan calls scan_node once")
    root = common.call_arg(calls[0], sn, 1, sn.params[1])
    if isinstance(root, ast.Name):
        # root = Node(...); return self.scan_node(root, ...): a single-assignment temporary, not touched in between
        env0 = common.block_env(sc.body, common.enclosing_stmt(calls[0])) or {}
        uses = [x for x in ast.walk(sc.node) if isinstance(x, ast.Name) and x.id == root.id]
        if root.id in env0 and len(uses) == 2:
            root = env0[root.id]
    ok_ctor = isinstance(root, ast.Call) and prog.is_node_ctor(mm, sc, root)
    run.ob("R1-root", "multidecoder.scan/root-is-fresh-node", ok_ctor, f"{mm.rel}:{sc.lineno}", "scan hands scan_node a freshly constructed Node",
           f"passes `{norm_src(root) if root is not None else None}`", mech="constructor binding")
    if ok_ctor:
        site = bind_node_call(prog, mm, sc, root, lambda e: 2 if isinstance(e, ast.Call) and isinstance(e.func, ast.Attribute) and e.func.attr == "span" else None)
        P = dict(zip(["type", "value", "obfuscation", "start", "end", "parent", "children"], prog.node_class_params()))

        def val(k):
            a = site.args[P[k]]
            if isinstance(a, tuple) and a[0] == "default":
                return a[1]
            return a
        exp = {"type": lambda e: prog.try_fold(mm, e) == "", "value": lambda e: common.is_name(e, DATA),
               "obfuscation": lambda e: prog.try_fold(mm, e) == "", "start": lambda e: prog.try_fold(mm, e) == 0,
               "end": lambda e: norm_src(e) == f"len({DATA})", "parent": lambda e: isinstance(e, ast.Constant) and e.value is None,
               "children": lambda e: isinstance(e, ast.Constant) and e.value is None}
        stores = common.stores_to(sc.node, DATA)
        for k, pred in exp.items():
            e = val(k)
            ok = isinstance(e, ast.AST) and pred(e) and not stores
            run.ob("R1-root", f"multidecoder.scan/root-{k}", ok, f"{mm.rel}:{root.lineno}",
                   {"type": "root type is ''", "value": "root value is the unmodified input", "obfuscation": "root obfuscation is ''",
                    "start": "root start is 0", "end": "root end is len(input)", "parent": "root has no parent", "children": "root starts without children"}[k],
                   f"{k} = `{norm_src(e) if isinstance(e, ast.AST) else e}`", mech="constructor binding")
    rets = [n for n in own_nodes(sc.node) if isinstance(n, ast.Return)]
    ret_ok = len(rets) == 1 and rets[0].value is calls[0]
    if len(rets) == 1 and isinstance(rets[0].value, ast.Name):
        env1 = common.block_env(sc.body, rets[0]) or {}
        ret_ok = env1.get(rets[0].value.id) is calls[0]
    run.ob("R1-root", "multidecoder.scan/returns-scan_node-result", ret_ok, f"{mm.rel}:{sc.lineno}",
           "scan returns what scan_node returns", "", mech="return-shape match")

    # ------------------------------------------------------------------ R2 / R6 engine
    frames.emit(run, lambda v: v.vc in ("V9", "V7", "V2") or (v.vc == "V5" and v.key.startswith(("rebased-span", "shift-once", "Node.shift"))) or
                (v.vc == "V4" and v.key.startswith("inside-context")),
                rule_of=lambda v: "R2-return-root" if v.vc == "V9" else ("R3-pairing" if v.vc == "V7" else "R6-rebase-in-bounds"))
    fa = frames.analysis(prog)
    # a hit is also never left of its node: s >= A(NODE) follows from the sort order (V2, emitted above under R6: a hit visited out of
    # order is rebased against a context that starts after it, i.e. gets a negative start)
    # pop loop with an empty stack must be impossible: either the loop tests the stack or every hit is in bounds (R5)
    run.note("pop_loop_tests_stack", fa.has_stack_guard_in_pop_loop)

    # ------------------------------------------------------------------ R3 pairing at every attach site in the package
    noderules.check_init_pairing(run, "R3-pairing")
    n_attach = 0
    for fi in prog.all_funcs():
        if fi is sn or fi.fq == "node.Node.__init__":
            continue     # the engine's attach site is R6/V7; the constructor's own pairing loop is checked above
        nodes = own_nodes(fi.node) if not isinstance(fi.node, ast.Lambda) else ast.walk(fi.node)
        for n in nodes:
            tgt = None
            if isinstance(n, ast.Call) and isinstance(n.func, ast.Attribute) and n.func.attr in ("append", "extend", "insert") and \
                    isinstance(n.func.value, ast.Attribute) and n.func.value.attr == "children":
                tgt = ("call", n.func.value.value, n.args[-1] if n.args else None)
            elif isinstance(n, ast.Assign) and isinstance(n.targets[0], ast.Attribute) and n.targets[0].attr == "children":
                tgt = ("assign", n.targets[0].value, n.value)
            if tgt is None:
                continue
            n_attach += 1
            kind, owner, child = tgt
            ok, why = _paired(prog, fi, owner, child, n)
            run.ob("R3-pairing", f"{fi.fq}/children-{kind}/{norm_src(owner)}", ok, f"{fi.module.rel}:{n.lineno}",
                   f"nodes placed in `{norm_src(owner)}.children` have `{norm_src(owner)}` as parent", why, mech="attach-site pairing")
    run.note("attach_sites_outside_engine", n_attach)
    run.floor("R3-pairing", 14)

    # ------------------------------------------------------------------ R8 fresh nodes: a memoised function on the decoder path
    # hands the same Node objects to two parents (one parent pointer, two child lists; iteration yields them twice)
    from ..effects import CACHE_DECORATORS
    from ..model import call_graph, reachable
    edges_ = call_graph(prog, registry_targets=prog.decorated_decoders() + [prog.fn("keyword.find_keywords")])
    onpath = reachable(edges_, [prog.fn("multidecoder.Multidecoder.scan")])
    n_fresh = 0
    for fi in sorted(onpath, key=lambda f: f.fq):
        if isinstance(fi.node, ast.Lambda):
            continue
        memo = [d for d in fi.decorators if prog.dotted(fi.module, d.func if isinstance(d, ast.Call) else d) in CACHE_DECORATORS]
        if memo and not common.may_return_nodes(prog, fi):
            memo = []       # memoised predicate / bytes helper: its results contain no node
        n_fresh += 1
        if memo or fi in prog.decorated_decoders():
            run.ob("R8-fresh-nodes", f"{fi.fq}/not-memoised", not memo, f"{fi.module.rel}:{fi.lineno}",
                   "a function on the scan path builds its nodes afresh on every call (no memoising decorator), so no node is listed under two parents",
                   f"decorated with @{norm_src(memo[0])}: the cached Node objects are returned again for the same argument" if memo else "", mech="decorator census over the scan path")
    run.note("functions_on_scan_path", n_fresh)
    run.floor("R8-fresh-nodes", 25)

    # ------------------------------------------------------------------ R4 pre-order
    noderules.check_iter_preorder(run, "R4-preorder")
    # ------------------------------------------------------------------ R7 original
    noderules.check_original(run, "R7-original")

    # ------------------------------------------------------------------ R5 span bounds
    A = sites.analysis(prog)
    decs = prog.decorated_decoders()
    entries = decs + [prog.fn("keyword.find_keywords")]
    n_inst = span_obligations(run, "R5-span-bound", entries, A)
    # contracts of the helpers used through a summary
    for fi, pname in A.summaries.items():
        span_obligations(run, "R5-span-contract", [fi], A)
    run.note("node_construction_sites", A.n_sites)
    run.note("helpers_used_through_contract", {f.fq: p for f, p in A.summaries.items()})
    run.note("helpers_used_as_opaque_bytes", sorted(f.fq for f in A.opaque_bytes))
    run.note("hit_instances_judged", n_inst)
    need(A.n_sites >= 40, f"anchor: only {A.n_sites} Node(...) sites found")
    run.floor("R5-span-bound", 100)
    if run.tier == "thorough":
        extra = [f for f in prog.all_funcs() if A.returns_nodes(f) and f not in entries and f not in A.summaries and
                 not isinstance(f.node, ast.Lambda) and f.module.short.startswith("decoders.")]
        span_obligations(run, "R5-span-bound-helpers", extra, A)


def _paired(prog, fi, owner, child, node):
    """is the child's parent set to the owner of the list it is put in?"""
    if child is None:
        return False, "nothing appended"
    osrc = norm_src(owner)
    # children built by Node(...) with parent=<owner> / positional parent
    cands = [child]
    if isinstance(child, (ast.ListComp, ast.GeneratorExp)):
        cands = [child.elt]
    elif isinstance(child, (ast.List, ast.Tuple)):
        cands = list(child.elts)
    for c in cands:
        if isinstance(c, ast.Call) and prog.is_node_ctor(fi.module, fi, c):
            site = bind_node_call(prog, fi.module, fi, c, lambda e: 2 if isinstance(e, ast.Call) and isinstance(e.func, ast.Attribute) and e.func.attr == "span" else None)
            par = site.args[prog.node_class_params()[5]]
            if isinstance(par, ast.AST) and norm_src(par) == osrc:
                continue
            return False, f"`{common.short_src(c, 70)}` does not pass parent={osrc}"
        if isinstance(c, ast.Call):
            cal = prog.callee(fi.module, fi, c)
            if cal.kind == "repo" and cal.func is not None:
                # a repo function given the owner as its parent argument (as_node(child, node))
                if any(norm_src(a) == osrc for a in c.args[1:] + [k.value for k in c.keywords]):
                    continue
            return False, f"`{common.short_src(c, 70)}`: parent of the result not set to {osrc}"
        if isinstance(c, ast.Name):
            # explicit `child.parent = owner` next to the append, in the same block
            blk = getattr(common.enclosing_stmt(node), "_parent", None)
            body = []
            for f in ("body", "orelse", "finalbody"):
                b = getattr(blk, f, None)
                if isinstance(b, list) and common.enclosing_stmt(node) in b:
                    body = b
            ok = any(isinstance(s, ast.Assign) and common.is_attr(s.targets[0], c.id, "parent") and norm_src(s.value) == osrc for s in body)
            if ok:
                continue
            return False, f"no `{c.id}.parent = {osrc}` next to the attachment"
        return False, f"unrecognised child expression `{common.short_src(c, 60)}`"
    return True, ""
