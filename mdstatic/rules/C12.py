"""C12 - URL and Windows-path parts index into, and decode from, their parent's value (structural part)."""
from __future__ import annotations

import ast

from .. import guards as G
from .. import prov, sites
from ..absint import BytesV, ConstV, Ref, fmt_term
from ..core import norm_src
from ..lin import Lin
from ..model import need, own_nodes
from . import common
from .C03 import canon

EXPLANATION = (
    "Static analysis of parse_url / parse_authority / normalize_path / find_urls / find_windows_path. (R1) the text parse_url is given "
    "is the very expression that becomes the URL node's value. (R2) layout: on every presence path (the abstract interpreter partitions "
    "on which urlsplit components and separators are present) each part's start equals the position of its component in the text "
    "(sum of the preceding component lengths and separators actually present) and its length equals the component's length; the "
    "authority's parts are shifted by the authority's own start; inside the authority user name, password and host sit at the positions "
    "the rsplit('@') / split(':') structure implies. (R3) value provenance: each part's value is the decode of that same component. "
    "(R4) label guards: MixedCase iff the scheme text is neither the lower nor the upper-case scheme; url.dotpath iff a segment was "
    "removed; the '..' arm never removes the root segment of an absolute path (guard evaluated over the four shapes of the segment stack); "
    "windows.dotpath iff normalisation shortened the path. (R5) the Windows host child sits at the position of the segment its value came "
    "from (split-offset lemma with the prefix knowledge of the branch) and the file-name child is the last segment. urlsplit, "
    "unquote_to_bytes and ntpath.normpath are trusted."
)
TRUSTED = ["urllib.parse.urlsplit layout and scheme lower-casing", "unquote_to_bytes", "ntpath.normpath / splitext"]


def find_obj(s, cls):
    for oid, o in s.heap.items():
        if o["kind"] == "obj" and o.get("cls") == cls:
            return o
    return None


def true_starts(o):
    c, sep = o["attrs"], o["seps"]
    L = lambda k: c[k].length   # noqa: E731
    st = {"scheme": Lin(0)}
    st["netloc"] = L("scheme") + sep["scheme"] + sep["netloc"]
    st["path"] = st["netloc"] + L("netloc")
    st["query"] = st["path"] + L("path") + sep["query"]
    st["fragment"] = st["query"] + L("query") + sep["fragment"]
    return st


def check(run):
    prog = run.prog
    from . import common as _common
    _common.fresh_hits(run, "C12")
    # "host as canonical IP, labelled exactly when the text was not canonical": the IP parsers are C10's rules
    _common.delegate(run, "C10", lambda rule, key: rule == "R5-ip-label" or key.endswith("/value-is-compressed-form"), floor=6)
    nm = prog.mod("decoders.network")
    A = sites.analysis(prog)
    w = lambda n, m=nm: f"{m.rel}:{getattr(n, 'lineno', 1)}"   # noqa: E731
    pu = prog.fn("decoders.network.parse_url")
    pa = prog.fn("decoders.network.parse_authority")
    fu = prog.fn("decoders.network.find_urls")

    # ------------------------------------------------------------------ R1 same text
    sites_ = [n for n in own_nodes(fu.node) if isinstance(n, ast.Call) and prog.is_node_ctor(nm, fu, n)]
    need(len(sites_) == 1, "anchor: one Node(...) in find_urls")
    from ..model import bind_node_call
    s_ = bind_node_call(prog, nm, fu, sites_[0], lambda e: 2 if isinstance(e, ast.Call) else None)
    P = prog.node_class_params()
    val, ch = s_.args[P[1]], s_.args[P[6]]
    ok1 = False
    det = ""
    if isinstance(ch, ast.Call) and prog.callee(nm, fu, ch).func is pu and ch.args:
        arg = ch.args[0]
        vsrc = norm_src(val) if isinstance(val, ast.AST) else (f"{norm_src(val[1])}[{val[2]}]" if isinstance(val, tuple) and val[0] == "star" else "?")
        asrc = norm_src(arg)
        det = f"value = `{vsrc}`, parse_url({asrc})"
        ok1 = vsrc == asrc
        if not ok1 and isinstance(val, tuple) and val[0] == "star" and val[2] == 0:
            # Node(T, *normalize(X), ...) with parse_url(normalize(X)[0])
            ok1 = asrc == f"{norm_src(val[1])}[0]"
    run.ob("R1-same-text", "decoders.network.find_urls/children-over-the-value", ok1, w(sites_[0]), "the parts are computed over the text that becomes the URL node's value", det,
           mech="argument identity")

    # ------------------------------------------------------------------ R2 / R3 parse_url layout and provenance
    hits, interp, _n = A.run(pu)
    need(hits, "anchor: parse_url returns no node")
    comp_of = {"network.url.scheme": "scheme", "network.url.path": "path", "network.url.query": "query", "network.url.fragment": "fragment"}
    oks, fails = {}, {}
    for h in hits:
        s = h.state
        o = find_obj(s, "SplitResult")
        need(o is not None, "internal: no SplitResult object on the path")
        ts = true_starts(o)
        # precondition established by find_urls (is_url): the text has a scheme and a non-empty authority
        if not (s.le(1, o["attrs"]["scheme"].length) and s.le(1, o["attrs"]["netloc"].length)):
            continue
        ty = prov.const_field(h, "type")
        ls, le = interp.as_lin(h.fields["start"]), interp.as_lin(h.fields["end"])
        if h.contract_of:
            # authority part: start = cs + shift; the shift must be the authority's own start
            cs = [k for k in ls.t if k.startswith("cs#")]
            shift = ls - Lin.sym(cs[0]) if len(cs) == 1 else None
            key = "decoders.network.parse_url/authority-parts-shift"
            good = shift is not None and s.eq(shift, ts["netloc"])
            wit = f"shift = {shift}, authority starts at {ts['netloc']}"
        else:
            c = comp_of.get(ty)
            key = f"decoders.network.parse_url/{ty}/position"
            if c is None:
                fails[(key, "unknown part type")] = (h, f"type {ty!r}")
                continue
            clen = o["attrs"][c].length
            good = s.eq(ls, ts[c]) and s.eq(le - ls, clen)
            wit = f"span = ({ls}, {le}); component starts at {ts[c]} and has length {clen}"
        if good:
            oks[key] = h
        else:
            fails[(key, canon(presence(o, s) + ": " + wit))] = (h, f"{wit} on the path where {presence(o, s)}")
    for key, h in oks.items():
        if not any(k == key for k, _w in fails):
            run.ob("R2-layout", key, True, w(h.site), "the part's span selects its component inside the URL text on every presence path", mech="abstract interpretation (E4) over urlsplit's layout model")
    for (key, wit), (h, det) in sorted(fails.items()):
        run.ob("R2-layout", f"{key}[{wit}]", False, w(h.site), "the part's span selects its component inside the URL text on every presence path", det,
               mech="abstract interpretation (E4) over urlsplit's layout model")
    # provenance of the values
    seen = {}
    for h in hits:
        if h.contract_of:
            continue
        ty = prov.const_field(h, "type")
        t = prov.value_term(h)
        c = comp_of.get(ty, "?")
        if ty == "network.url.scheme":
            good = isinstance(t, tuple) and t[0] == "url.scheme"
        elif ty == "network.url.path":
            good = True    # normalize_path(url.path): checked at the call site below
        else:
            good = isinstance(t, tuple) and t[0] == "unquote_to_bytes" and isinstance(t[1], tuple) and t[1][0] == "url." + c
        seen[ty] = seen.get(ty, True) and good
        if not good:
            seen[(ty, "det")] = prov.canon_mid(fmt_term(t))
    for ty in comp_of:
        run.ob("R3-provenance", f"decoders.network.parse_url/{ty}/value", seen.get(ty, False), w(pu.node), f"the {ty} value is the decode of the {comp_of[ty]} component itself",
               str(seen.get((ty, "det"), "no such node on any path")), mech="provenance term")
    calls = [n for n in own_nodes(pu.node) if isinstance(n, ast.Call) and prog.callee(nm, pu, n).func is prog.fn("decoders.network.normalize_path")]
    run.ob("R3-provenance", "decoders.network.parse_url/path-normalised", len(calls) == 1 and norm_src(calls[0].args[0]).endswith(".path"), w(pu.node),
           "the path value is normalize_path(url.path)", "", mech="call-shape match")
    calls = [n for n in own_nodes(pu.node) if isinstance(n, ast.Call) and prog.callee(nm, pu, n).func is pa]
    run.ob("R3-provenance", "decoders.network.parse_url/authority-parsed", len(calls) == 1 and norm_src(calls[0].args[0]).endswith(".netloc"), w(pu.node),
           "user name, password and host come from parse_authority(url.netloc)", "", mech="call-shape match")

    # ------------------------------------------------------------------ R2 parse_authority layout
    hits, interp, _n = A.run(pa)
    AL = Lin.sym("len(authority)")
    oks, fails = {}, {}
    for h in hits:
        s = h.state
        ty = prov.const_field(h, "type")
        ls, le = interp.as_lin(h.fields["start"]), interp.as_lin(h.fields["end"])
        env = s.env

        def blen(name):
            v = interp.as_bytes(env.get(name))
            return v.length if v is not None else None
        key = f"decoders.network.parse_authority/{ty}/position"
        if ty == "network.url.username":
            good = s.eq(ls, 0) and blen("username") is not None and s.eq(le, blen("username"))
            wit = f"span = ({ls}, {le}); user name text has length {blen('username')}"
        elif ty == "network.url.password":
            good = blen("username") is not None and blen("password") is not None and s.eq(ls, blen("username") + 1) and s.eq(le - ls, blen("password"))
            wit = f"span = ({ls}, {le}); password follows user name ({blen('username')}) and ':'; its text has length {blen('password')}"
        elif ty in ("network.domain", "network.ip", "network.ipv6"):
            al = blen("address")
            exp = AL - al if al is not None else None
            if ty == "network.ipv6" and exp is not None:
                exp = exp + 1      # inside the brackets
            good = exp is not None and s.eq(ls, exp)
            wit = f"start = {ls}; the host text starts at {exp} (right after the last '@')"
            if good and ty == "network.domain":
                raw = interp.raw_of.get(str(interp.as_bytes(h.fields["value"]).length)) if interp.as_bytes(h.fields["value"]) is not None else None
                if raw is not None and not s.eq(le - ls, raw.length):
                    key2 = key.replace("/position", "/length")
                    fails[(key2, canon(f"end - start = {le - ls}, raw host length = {raw.length}"))] = (
                        h, f"the span is as long as the percent-decoded host ({le - ls}) while the host text in the URL has length {raw.length}")
        else:
            continue
        if good:
            oks[key] = h
        else:
            fails[(key, canon(wit))] = (h, wit + f" (path {'/'.join(h.trace[-5:])})")
    for key, h in oks.items():
        if not any(k == key for k, _w in fails):
            run.ob("R2-layout", key, True, w(h.site), "the authority part's span selects its text inside the authority on every path", mech="abstract interpretation (E4) with the split-sum axioms")
    for (key, wit), (h, det) in sorted(fails.items()):
        run.ob("R2-layout", f"{key}[{wit}]", False, w(h.site), "the authority part's span selects its text inside the authority on every path", det,
               mech="abstract interpretation (E4) with the split-sum axioms")
    run.assume("parse_url is analysed for texts with a scheme and a non-empty authority: find_urls only passes texts is_url accepted "
               "(C10-R1), and decoding unreserved escapes cannot create or remove a delimiter")
    run.floor("R2-layout", 6)

    # which occurrence of the delimiter separates the parts (RFC 3986 3.2.1): the user name ends at the FIRST ':' of the userinfo
    # (a password may contain ':'), the userinfo ends at the LAST '@' of the authority
    pa_ = prog.fn("decoders.network.parse_authority")
    hits_a, ip_a, _n = A.run(pa_)
    first_colon = last_at = None
    for h in hits_a:
        if prov.const_field(h, "type") != "network.url.username":
            continue
        t = prov.value_term(h)
        while isinstance(t, tuple) and t and t[0] in ("unquote_to_bytes", "decode", "lower"):
            t = t[1]
        # t: the user-name text; u: the userinfo text it was cut from
        if isinstance(t, tuple) and t[:2] == ("piece", 0) and isinstance(t[2], tuple) and t[2][:1] in (("piece",), ("rpartition",), ("partition",)):
            # (only the shape userinfo-piece-of-authority is unambiguous: a bare piece(0, authority) is the userinfo itself)
            u = t[2]
            ops = ip_a.split_ops.get(repr(u), set())
            colon = {n_ for n_, sp in ops if sp == b":"}
            first_colon = (colon == {"split"}) if first_colon is None else (first_colon and colon == {"split"})
        elif isinstance(t, tuple) and t[:2] in (("partition", 0), ("rpartition", 0)) and t[3:] == (("const", b":"),):
            u = t[2]
            first_colon = (t[0] == "partition") if first_colon is None else (first_colon and t[0] == "partition")
        else:
            continue
        if isinstance(u, tuple) and u[:2] == ("piece", 0):
            ops = ip_a.split_ops.get(repr(u[2]), set())
            at = {n_ for n_, sp in ops if sp == b"@"}
            last_at = (at == {"rsplit"}) if last_at is None else (last_at and at == {"rsplit"})
        elif isinstance(u, tuple) and u[:2] in (("partition", 0), ("rpartition", 0)) and u[3:] == (("const", b"@"),):
            last_at = (u[0] == "rpartition") if last_at is None else (last_at and u[0] == "rpartition")
    run.ob("R2-layout", "decoders.network.parse_authority/user-name-ends-at-first-colon", first_colon is True, w(pa_.node),
           "the user name is the userinfo up to its FIRST ':' (the password may contain ':')",
           "the userinfo is split at its last ':' (rsplit / rpartition) or the split was not recognised", mech="provenance term of the user-name value + split direction")
    run.ob("R2-layout", "decoders.network.parse_authority/userinfo-ends-at-last-at", last_at is True, w(pa_.node),
           "the userinfo is the authority up to its LAST '@'",
           "the authority is split at its first '@' (split / partition) or the split was not recognised", mech="provenance term of the user-name value + split direction")

    # ------------------------------------------------------------------ R4 label guards
    # MixedCase
    ok4 = False
    for n in own_nodes(pu.node):
        if isinstance(n, ast.IfExp) and "MixedCase" in (prog.try_fold(nm, n.body), prog.try_fold(nm, n.orelse)):
            U = pu.params[0]
            SPL = None
            for st in own_nodes(pu.node):
                if isinstance(st, ast.Assign) and isinstance(st.value, ast.Call) and prog.dotted(nm, st.value.func) == "urllib.parse.urlsplit":
                    SPL = st.targets[0].id
            envm = common.block_env(pu.body, common.enclosing_stmt(n)) or {}
            envm = {k: v for k, v in envm.items() if k not in (U, SPL)}
            az = G.Atomizer(rename={U: "TEXT", SPL: "URL"} if SPL else {}, subst=envm, rewrite=[("TEXT[0:", "TEXT[:")])
            cases = common.split_ifexp(n, az)
            got = G.f_or(*[c_ for c_, leaf in cases if prog.try_fold(nm, leaf) == "MixedCase"])
            got_e = G.f_or(*[c_ for c_, leaf in cases if prog.try_fold(nm, leaf) == ""]) if any(prog.try_fold(nm, leaf) == "" for _c, leaf in cases) else G.F
            spec = az.formula(common.spec_expr("TEXT[0:len(URL.scheme)] not in (URL.scheme, URL.scheme.upper())"))
            alt = az.formula(common.spec_expr("TEXT[:len(URL.scheme)] not in (URL.scheme, URL.scheme.upper())"))
            ok4 = (G.equivalent(got, spec)[0] or G.equivalent(got, alt)[0]) and (G.equivalent(got_e, G.f_not(spec))[0] or G.equivalent(got_e, G.f_not(alt))[0])
    run.ob("R4-labels", "decoders.network.parse_url/MixedCase-guard", ok4, w(pu.node), "the scheme is labelled MixedCase exactly when its text is neither the lower-case nor the upper-case scheme",
           "", mech="truth table")
    np_ = prog.fn("decoders.network.normalize_path")
    rets = [n for n in own_nodes(np_.node) if isinstance(n, ast.Return)]
    ok_dp = False
    # the kept-segment stack and the segment list may carry any name: the stack is what the '..' arm pops, the segments what the loop walks
    ren_dp = {}
    for n_ in own_nodes(np_.node):
        if isinstance(n_, ast.Call) and isinstance(n_.func, ast.Attribute) and n_.func.attr == "pop" and not n_.args and isinstance(n_.func.value, ast.Name):
            ren_dp[n_.func.value.id] = "dotless"
        if isinstance(n_, ast.Delete) and len(n_.targets) == 1 and isinstance(n_.targets[0], ast.Subscript) and isinstance(n_.targets[0].value, ast.Name):
            ren_dp[n_.targets[0].value.id] = "dotless"
    for n_ in np_.node.body:
        if isinstance(n_, ast.For) and isinstance(n_.iter, ast.Name) and any(isinstance(x, (ast.Call, ast.Delete)) for x in ast.walk(n_)):
            ren_dp[n_.iter.id] = "segments"
    for r in rets:
        if isinstance(r.value, ast.Tuple) and len(r.value.elts) == 2 and isinstance(r.value.elts[1], ast.IfExp):
            lab = r.value.elts[1]
            az = G.Atomizer(is_int=lambda e: True, rename=ren_dp)
            want_dp = az.formula(common.spec_expr("len(dotless) < len(segments)"))
            if prog.try_fold(nm, lab.body) == "url.dotpath" and prog.try_fold(nm, lab.orelse) == "":
                ok_dp = G.equivalent(az.formula(lab.test), want_dp, assuming=az.formula(common.spec_expr("len(dotless) <= len(segments)")))[0]
            elif prog.try_fold(nm, lab.body) == "" and prog.try_fold(nm, lab.orelse) == "url.dotpath":
                ok_dp = G.equivalent(G.f_not(az.formula(lab.test)), want_dp, assuming=az.formula(common.spec_expr("len(dotless) <= len(segments)")))[0]
    run.ob("R4-labels", "decoders.network.normalize_path/dotpath-guard", ok_dp, w(np_.node), "labelled url.dotpath exactly when a segment was removed", "", mech="truth table with integer theory")
    # root preservation: the '..' arm's pop guard over the four shapes of the segment stack
    class _Pop:      # `x.pop()` and `del x[-1]` both drop the last kept segment
        def __init__(self, node, stack):
            self.node, self.stack, self.lineno = node, stack, node.lineno
            self.func = ast.Attribute(value=stack, attr="pop", ctx=ast.Load())
            self._parent = getattr(node, "_parent", None)
    pops = [n for n in own_nodes(np_.node) if isinstance(n, ast.Call) and isinstance(n.func, ast.Attribute) and n.func.attr == "pop" and not n.args]
    dels = [n for n in own_nodes(np_.node) if isinstance(n, ast.Delete) and len(n.targets) == 1 and isinstance(n.targets[0], ast.Subscript) and norm_src(n.targets[0].slice) == "-1"]
    if not pops and len(dels) == 1:
        pops = [_Pop(dels[0], dels[0].targets[0].value)]
    ok_root = False
    det = "no pop in normalize_path"
    if len(pops) == 1:
        stk = norm_src(pops[0].func.value)
        guards_ = [p for p in common.parents(pops[0]) if isinstance(p, ast.If)]
        inner = guards_[0] if guards_ else None
        if inner is not None:
            res = {}
            try:
                for name, shape in (("empty", []), ("root-only", [b""]), ("root+segment", [b"", b"x"]), ("segment-only", [b"x"]),
                                    ("root+segment+empty", [b"", b"x", b""]), ("segment+empty", [b"x", b""]), ("root+empty", [b"", b""])):
                    res[name] = bool(_eval(inner.test, {stk: shape}))
                # an empty segment that is not the root (`/a//..`) is a segment like any other: '..' cancels it
                ok_root = res == {"empty": False, "root-only": False, "root+segment": True, "segment-only": True, "root+segment+empty": True, "segment+empty": True,
                                  "root+empty": True}
                det = f"pop guard `{norm_src(inner.test)}` evaluates to {res}; the root segment of an absolute path must stay (root-only -> False)"
            except ValueError as e:
                det = str(e)
    run.ob("R4-labels", "decoders.network.normalize_path/root-preserved", ok_root, w(pops[0]) if pops else w(np_.node),
           "a '..' segment cancels the nearest remaining segment but never the root of an absolute path", det, mech="exhaustive evaluation of the guard over the shapes of the segment stack")
    # the stack of kept segments changes only inside the loop over the segments (push of the segment itself, pop for '..'): anything
    # pushed or dropped afterwards alters both the joined value and the "a segment was removed" comparison
    if len(pops) == 1 and isinstance(pops[0].func.value, ast.Name):
        stk_n = pops[0].func.value.id
        loop_ = next((p for p in common.parents(pops[0]) if isinstance(p, ast.For)), None)
        muts = []
        for n in own_nodes(np_.node):
            if isinstance(n, ast.Call) and isinstance(n.func, ast.Attribute) and common.is_name(n.func.value, stk_n) and \
                    n.func.attr in ("append", "pop", "extend", "insert", "remove", "clear", "reverse", "sort"):
                muts.append(n)
            elif isinstance(n, ast.AugAssign) and common.is_name(n.target, stk_n):
                muts.append(n)
            elif isinstance(n, ast.Assign) and any(common.is_name(t, stk_n) or (isinstance(t, ast.Subscript) and common.is_name(t.value, stk_n)) for t in n.targets):
                if not (isinstance(n.value, ast.List) and not n.value.elts):
                    muts.append(n)
            elif isinstance(n, ast.AnnAssign) and common.is_name(n.target, stk_n) and n.value is not None and not (isinstance(n.value, ast.List) and not n.value.elts):
                muts.append(n)
            elif isinstance(n, ast.Delete) and any(isinstance(t, ast.Subscript) and common.is_name(t.value, stk_n) for t in n.targets):
                muts.append(n)
        outside = [m for m in muts if loop_ is None or loop_ not in common.parents(m)]
        pushes = [m for m in muts if isinstance(m, ast.Call) and m.func.attr == "append"]
        push_ok = loop_ is not None and isinstance(loop_.target, ast.Name) and bool(pushes) and all(len(m.args) == 1 and common.is_name(m.args[0], loop_.target.id) for m in pushes)
        run.ob("R4-labels", "decoders.network.normalize_path/stack-changes-inside-the-segment-loop", not outside and push_ok, w(outside[0]) if outside else w(np_.node),
               "the kept-segment stack is only changed inside the loop over the segments, and what is pushed is the segment itself",
               (f"`{norm_src(outside[0])}` changes `{stk_n}` outside the loop" if outside else "a push does not push the loop's segment"), mech="mutation census of the stack variable")
    # windows dotpath label
    fw = prog.fn("decoders.path.find_windows_path")
    pm = fw.module
    ok_w, det_w = False, "no conditional windows.dotpath label found"
    cand_fns = [fw] + [f_ for q_, f_ in pm.funcs.items() if q_.startswith("_") and not isinstance(f_.node, ast.Lambda)]
    for fn_w, n in [(f_, n_) for f_ in cand_fns for n_ in own_nodes(f_.node)]:
        lab_t = prog.try_fold(pm, n.body) if isinstance(n, ast.IfExp) else None
        lab_f = prog.try_fold(pm, n.orelse) if isinstance(n, ast.IfExp) else None
        if isinstance(n, ast.IfExp) and isinstance(lab_t, str) and isinstance(lab_f, str) and {lab_t, lab_f} == {"windows.dotpath", ""}:
            # the assignments of the enclosing block, in order, each read through the ones before it (the path variable is re-assigned)
            stmt_ = common.enclosing_stmt(n)
            par_ = getattr(stmt_, "_parent", None)
            blk_ = next((getattr(par_, f_) for f_ in ("body", "orelse") if isinstance(getattr(par_, f_, None), list) and stmt_ in getattr(par_, f_)), [])
            env_ = {}
            for st_ in blk_:
                if st_ is stmt_:
                    break
                if isinstance(st_, ast.Assign) and len(st_.targets) == 1 and isinstance(st_.targets[0], ast.Name):
                    env_[st_.targets[0].id] = common.inline(st_.value, env_)
            test_ = common.inline(n.test, env_)
            raws = [f"{m_}" for m_ in ("match.group()", "match.group(0)", "match[0]")]
            loop_var = next((p_.target.id for p_ in common.parents(n) if isinstance(p_, ast.For) and isinstance(p_.target, ast.Name)),
                            fn_w.params[0] if fn_w is not fw and fn_w.params else "match")
            raws = [r_.replace("match", loop_var) for r_ in raws]
            rw = [(f"len(ntpath.normpath({r_}))", "NORMLEN") for r_ in raws] + [(f"len({r_})", "RAWLEN") for r_ in raws]
            az_w = G.Atomizer(is_int=lambda e: True, rewrite=rw)
            f_ = az_w.formula(test_)
            if lab_t == "":
                f_ = G.f_not(f_)
            ok_w = G.equivalent(f_, G.Atomizer(is_int=lambda e: True).formula(common.spec_expr("NORMLEN < RAWLEN")),
                                assuming=G.Atomizer(is_int=lambda e: True).formula(common.spec_expr("NORMLEN <= RAWLEN")))[0]
            det_w = f"label test reads `{norm_src(test_)}`"
    run.ob("R4-labels", "decoders.path.find_windows_path/dotpath-guard", ok_w, f"{pm.rel}:{fw.lineno}", "labelled windows.dotpath exactly when normalisation shortened the path", det_w,
           mech="sequential inlining of the block's assignments + truth table with integer theory")

    # ------------------------------------------------------------------ R5 windows children
    hits, interp, _n = A.run(fw)
    oks, fails = {}, {}
    for h in hits:
        s = h.state
        pv = interp.as_bytes(h.fields["value"])
        for c in h.children:
            cs = c.state
            ty = prov.const_field(c, "type")
            ls, le = interp.as_lin(c.fields["start"]), interp.as_lin(c.fields["end"])
            if ty in ("network.domain", "network.ip"):
                key = f"decoders.path.find_windows_path/{prov.const_field(h, 'type')}/host-child-position"
                lst = None
                for oid, o in cs.heap.items():
                    if o["kind"] == "list" and o.get("pieces") and o.get("split_of") is not None and pv is not None and o["split_of"] == pv.term:
                        lst = o
                if lst is None:
                    fails[(key, "segments list not found")] = (c, "cannot relate the child to the path segments")
                    continue
                k = max(j for j in lst["pieces"] if j >= 0)
                st2 = cs.clone()
                lst_oid = next(oid for oid, o in cs.heap.items() if o is lst)
                lst2 = st2.mut(lst_oid)
                exp = Lin(k)
                for j in range(k):
                    exp = exp + interp.split_piece(lst2, j, st2).length
                good = st2.eq(ls, exp)
                wit = f"start = {ls}; segment {k} of the normalised path starts at {canon(str(exp))}"
                if good:
                    oks[key] = c
                else:
                    fails[(key, canon(wit))] = (c, wit + " (the constant offset assumes the lengths of the leading segments)")
            else:
                key = f"decoders.path.find_windows_path/{prov.const_field(h, 'type')}/file-name-child"
                vt = prov.value_term(c)
                good = isinstance(vt, tuple) and vt[0] == "piece" and vt[1] == -1 and pv is not None and vt[2] == pv.term and \
                    cs.eq(le, pv.length) and cs.eq(le - ls, interp.as_bytes(c.fields["value"]).length)
                wit = f"value {prov.canon_mid(fmt_term(vt))}, span ({ls}, {le})"
                if good:
                    oks[key] = c
                else:
                    fails[(key, canon(wit))] = (c, wit)
    for key, c in oks.items():
        if not any(k == key for k, _w in fails):
            run.ob("R5-windows", key, True, f"{pm.rel}:{c.site.lineno}", "the child indexes the text of its segment inside the normalised path", mech="split-offset lemma (E4)")
    for (key, wit), (c, det) in sorted(fails.items()):
        run.ob("R5-windows", f"{key}[{wit}]", False, f"{pm.rel}:{c.site.lineno}", "the child indexes the text of its segment inside the normalised path", det, mech="split-offset lemma (E4)")
    run.floor("R5-windows", 3)


def presence(o, s):
    out = []
    for c in ("scheme", "netloc", "query", "fragment"):
        ln = o["attrs"][c].length
        if s.le(1, ln):
            out.append(c)
        else:
            sp = o["seps"][c]
            out.append(f"no {c}" + ("" if isinstance(sp, Lin) and sp.is_const() else " (separator possibly present)"))
    return ", ".join(out)


def _eval(e, env):
    if isinstance(e, ast.BoolOp):
        v = None
        for x in e.values:            # short-circuit, like Python: `kept and kept[0]`
            v = _eval(x, env)
            if isinstance(e.op, ast.And) and not v:
                return v
            if isinstance(e.op, ast.Or) and v:
                return v
        return v
    if isinstance(e, ast.UnaryOp) and isinstance(e.op, ast.Not):
        return not _eval(e.operand, env)
    if isinstance(e, ast.Name):
        if e.id in env:
            return env[e.id]
        raise ValueError(f"unsupported name {e.id} in the pop guard")
    if isinstance(e, ast.Constant):
        return e.value
    if isinstance(e, ast.List):
        return [_eval(x, env) for x in e.elts]
    if isinstance(e, ast.Subscript):
        return _eval(e.value, env)[_eval(e.slice, env)]
    if isinstance(e, ast.Call) and isinstance(e.func, ast.Name) and e.func.id == "len" and len(e.args) == 1:
        return len(_eval(e.args[0], env))
    if isinstance(e, ast.UnaryOp) and isinstance(e.op, ast.USub):
        return -_eval(e.operand, env)
    if isinstance(e, ast.Compare):
        left = _eval(e.left, env)
        res = True
        import operator as op_
        table = {ast.Eq: op_.eq, ast.NotEq: op_.ne, ast.Lt: op_.lt, ast.LtE: op_.le, ast.Gt: op_.gt, ast.GtE: op_.ge}
        for o, r in zip(e.ops, e.comparators):
            right = _eval(r, env)
            if type(o) not in table:
                raise ValueError("unsupported comparison in the pop guard")
            res = res and table[type(o)](left, right)
            left = right
        return res
    raise ValueError(f"unsupported construct {type(e).__name__} in the pop guard")
