"""C05 - sibling results are laminar; raw hits inside a decoded region are suppressed.

V2 order key (start asc, end desc), V3 shadow test in one coordinate frame and its strictness, V4 strictness of
the containment test, V8 DEND updated in the decoded arm only, to the ABS end."""
from .. import frames

EXPLANATION = (
    "Affine abstract interpretation of scan_node's hit loop: the sort key is reduced to linear forms (start ascending, "
    "end descending), the shadow test is shown to compare two quantities of the same coordinate frame with the model's "
    "strictness, the pop test likewise, and DEND is shown to hold the absolute end of the last decoded hit. From these, "
    "per attach site, a later sibling has a strictly larger end and a start that is not smaller - the laminarity claim."
)
TRUSTED = ["Python semantics of sorted() (stable, ascending)", "linear arithmetic in mdstatic.lin"]


def check(run):
    def sel(v):
        if v.vc in ("V2", "V3"):
            return v.key != "generator-shape"
        if v.vc == "V4" and (v.key in ("pop-condition", "pop-before-shift", "pop-keeps-dend") or v.key.startswith("inside-context")):
            return True
        if v.vc == "V8" and v.key not in ("decoded-arm/recurse-on-hit",):
            # every kept hit is either decoded (DEND := its ABS end) or becomes the open context: both are needed for
            # "a later hit inside it is suppressed or nested, never a sibling"
            return True
        if v.vc == "V10" and v.key.startswith("role-"):
            return True
        return False
    frames.emit(run, sel)
    # the decoded/context decision reads hit.original, which reads the truth value of the parent node
    from .. import noderules
    noderules.check_original(run, "R-original")
    run.floor("V2", 2)
    run.floor("V3", 4)
    run.floor("V4", 4)
    run.floor("V8", 8)
