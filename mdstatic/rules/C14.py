"""C14 - character-escape decodings (XML refs, chr(), unescape(), UTF-16) are exact (structural part)."""
from __future__ import annotations

import ast

from spec import grammars as GR

from .. import strlang, prov, rx, sites
from ..absint import fmt_term
from ..core import norm_src
from ..model import need, own_nodes
from . import common

EXPLANATION = (
    "Static analysis of the four escape decoders: regex-automaton facts (repetition thresholds {5,} / {7,}; the XML reference group is "
    "decimal 0-255 or two hex digits - decided by enumerating the finite decimal alternative and by language containment for the hex one; "
    "UTF-16 matches are sequences of (Latin-1 byte, NUL) pairs whose first byte is not a C0/C1 control); the tokenisation lemma for "
    "unescape_xml (prefix '&#' and separator ';' share no byte with the group's alphabet, so replace+split enumerates exactly the "
    "references); provenance terms from the abstract interpreter (chr(int(group 1)).encode(), unquote_to_bytes(group 1), "
    "group0.decode('utf-16').encode('utf-8'), bytes(int(ref, 16|10))) over the match whose whole span is the node's span; the chr handler "
    "covers UnicodeEncodeError and skips the hit; label and type constants. int/chr/unquote/codecs themselves are trusted."
)
TRUSTED = ["int(), chr(), urllib.parse.unquote_to_bytes, the utf-16 / utf-8 codecs"]


def _is_last_in_loop(stmt):
    p = getattr(stmt, "_parent", None)
    return isinstance(p, (ast.For, ast.While)) and p.body and p.body[-1] is stmt


def check(run):
    prog = run.prog
    from . import common as _common
    _common.fresh_hits(run, "C14")
    _common.no_unsafe_cuts(run, "C14", "R0-no-cut", floor=3)
    A = sites.analysis(prog)
    xm = prog.mod("decoders.xml")
    # ------------------------------------------------------------------ XML
    xre = prog.const(xm, "XML_ESCAPE_RE")
    c = rx.compile_pattern(xre)
    w = f"{xm.rel}:1"
    ok, wt = rx.included(rx.dfa_of(GR.XML_RUN), c.dfa, witness=True)
    run.ob("R1-xml", "decoders.xml.XML_ESCAPE_RE/contains-documented", ok, w, "a run of five or more references (decimal 0-255 or two-digit hex) is matched as a whole",
           f"not matched: {wt!r}", mech="language containment")
    ok, wt = rx.included(c.dfa, rx.dfa_of(rb"(?:&#[^;&#]+;){5,}"), witness=True)
    run.ob("R1-xml", "decoders.xml.XML_ESCAPE_RE/threshold-5", ok, w, "nothing shorter than five references is matched", f"also matched: {wt!r}", mech="language containment")
    g = rx.group_language(xre, 1)
    hexpart = rx.product(g.dfa, rx.dfa_of(rb"[xX].*"), lambda a, b: a and b)
    decpart = rx.product(g.dfa, rx.complement(rx.dfa_of(rb"(?s)[xX].*")), lambda a, b: a and b)
    okh, wt = rx.included(hexpart, rx.dfa_of(rb"[xX][0-9a-fA-F]{2}"), witness=True)
    run.ob("R1-xml", "decoders.xml.XML_ESCAPE_RE/hex-alternative", okh, w, "a hexadecimal reference is x followed by exactly two hex digits (int(.., 16) is defined and < 256)",
           f"the reference group also admits {wt!r}", mech="language containment")
    words = rx.enumerate_words(decpart, limit=5000)
    okd = words is not None and all(wd.isdigit() and int(wd) <= 255 for wd in words) and len(words) > 0
    bad = None if words is None else next((wd for wd in words if not (wd.isdigit() and int(wd) <= 255)), None)
    run.ob("R1-xml", "decoders.xml.XML_ESCAPE_RE/decimal-alternative", okd, w, "a decimal reference is a number 0-255 (bytes() accepts it)",
           f"the reference group admits {bad!r}" if words is not None else "the decimal alternative is not a finite language", mech="finite-language enumeration")
    run.note("xml_decimal_words", len(words) if words else None)
    # tokenisation lemma and per-token conversion, read off the abstract interpretation of find_xml_hex: every int() conversion it
    # reaches (through whatever helpers) is applied to a piece of  <match>.replace(PREFIX, b"").split(SEP)[:-1]
    ux = prog.fn("decoders.xml.unescape_xml")
    fx = prog.fn("decoders.xml.find_xml_hex")
    _hits, ixml, _n = sites.analysis(prog).run(fx)
    ints = [r for r in ixml.conv_uses if r[2] == "int"]
    pre = sep = None
    shapes = set()
    conv = {}
    det = "no int() conversion of a split piece of the match is reached from find_xml_hex"
    for r in ints:
        a0 = r[3][0] if r[3] else None
        t = getattr(a0, "term", None)
        bv = r[3][1] if len(r[3]) > 1 else r[4].get("base")
        base = 10 if bv is None else getattr(bv, "value", None)
        sl = False
        if isinstance(t, tuple) and t[:1] == ("slice",) and len(t) == 4 and strlang._ci(t[2]) == 1 and t[3] is None:
            t, sl = t[1], True
        ok_piece = isinstance(t, tuple) and t[:2] == ("piece", "split") and t[3:] == ("nonlast",)
        inner = t[2] if ok_piece else None
        ok_repl = isinstance(inner, tuple) and inner[:1] == ("replace",) and len(inner) == 4 and inner[1][:1] == ("group",) and inner[1][2] == 0 and \
            inner[2][:1] == ("const",) and inner[3] == ("const", b"")
        if not (ok_piece and ok_repl):
            shapes.add(prov.canon_mid(str(getattr(a0, "term", a0)))[:90])
            continue
        pre = inner[2][1]
        sep = ixml.piece_sep.get(repr(inner))
        known = getattr(r[5], "prefixes", {}) or {}
        pos = known.get(repr(t))
        neg = known.get("!" + repr(t))
        conv[(sl, base)] = (pos, neg)
    tok_ok = False
    if shapes:
        det = f"int() is applied to {sorted(shapes)}: not a piece of <match>.replace(PREFIX, b'').split(SEP)[:-1]"
    if isinstance(pre, bytes) and isinstance(sep, bytes) and pre and sep and not shapes:
        alpha = rx.alphabet(g.dfa)
        shape = rx.dfa_of(rb"(?s)(?:" + _lit(pre) + rb"[^" + _cls(pre + sep) + rb"]+" + _lit(sep) + rb")+")
        in_shape = rx.included(c.dfa, shape)
        disjoint = alpha & rx.mask_of(pre + sep) == 0
        tok_ok = in_shape and disjoint
        det = f"prefix {pre!r}, separator {sep!r}: match language inside (prefix token separator)+ = {in_shape}; token alphabet disjoint from them = {disjoint}"
    run.ob("R2-xml-tokens", "decoders.xml.unescape_xml/tokenisation-lemma", tok_ok, f"{xm.rel}:{ux.lineno}",
           "removing the prefix and splitting at the separator enumerates exactly the references of the matched run", det,
           mech="provenance terms of the conversions + regex shape + alphabet disjointness")
    hexc = conv.get((True, 16))
    decc = conv.get((False, 10))
    conv_ok = set(conv) == {(True, 16), (False, 10)} and hexc is not None and decc is not None and \
        hexc[0] is not None and set(hexc[0]) == {b"x", b"X"} and decc[1] is not None and set(decc[1]) == {b"x", b"X"}
    run.ob("R2-xml-tokens", "decoders.xml.unescape_xml/conversion", conv_ok, f"{xm.rel}:{ux.lineno}",
           "a reference starting with x/X is read as hexadecimal after the x, any other as decimal",
           f"conversions reached: {sorted((('after the first byte' if k[0] else 'whole token'), k[1], v) for k, v in conv.items())}",
           mech="int() records of the abstract interpreter with their dominating startswith knowledge")

    # ------------------------------------------------------------------ provenance of the four decoders
    table = [
        ("decoders.xml.find_xml_hex", "bytes-of", "", "unescape.xml", 0),
        ("decoders.chr.find_chr", "chr", "string", "function.chr", 1),
        ("decoders.javascript.find_unescape", "unquote", "string", "function.unescape", 1),
        ("decoders.codec.find_utf16", "utf16", "", "codec.uft-16", 0),
    ]
    for fq, kind, typ, label, grp in table:
        fi = prog.fn(fq)
        hits, interp, _n = A.run(fi)
        need(hits, f"anchor: {fq} returns no hit on any path")
        oks = dict(span=True, value=True, labels=True)
        dets = {}
        for h in hits:
            sp = prov.span_of(h, interp)
            term = prov.value_term(h)
            gs = prov.find_groups(term)
            if not (sp[0] == "match" and sp[2] == 0):
                oks["span"] = False
                dets["span"] = prov.canon_mid(str(sp))
            good = bool(gs) and all(gm == sp[1] and gk == grp for _t, gm, gk in gs) if sp[0] == "match" else False
            t = fmt_term(term)
            if kind == "chr":
                good = good and isinstance(term, tuple) and term[0] == "encode" and term[1][0] == "chr" and term[1][1][0] == "int" and term[1][1][2] == 10
            elif kind == "unquote":
                good = good and term[0] == "unquote_to_bytes" and term[1][0] == "group"
            elif kind == "utf16":
                good = good and term[0] == "encode" and term[1][0] == "decode" and term[1][1][0] == "group" and term[1][2] == ("utf-16",) and term[1][3] == ()
            elif kind == "bytes-of":
                good = good and term[0] == "bytes-of" and isinstance(term[1], tuple) and term[1][0] == "int"
            if not good:
                oks["value"] = False
                dets["value"] = prov.canon_mid(t)
            if prov.const_field(h, "type") != typ or prov.const_field(h, "obfuscation") != label:
                oks["labels"] = False
                dets["labels"] = f"type={prov.const_field(h, 'type')!r} obfuscation={prov.const_field(h, 'obfuscation')!r}"
        where = f"{fi.module.rel}:{fi.lineno}"
        run.ob("R3-provenance", f"{fq}/span-is-whole-match", oks["span"], where, "the node covers exactly the escaped expression (group 0 of the match)", dets.get("span", ""),
               mech="span linear forms")
        run.ob("R3-provenance", f"{fq}/value", oks["value"], where,
               {"chr": "value is chr(int(<group 1>)).encode() - the UTF-8 encoding of the code point", "unquote": "value is unquote_to_bytes(<group 1>), the text between the quotes",
                "utf16": "value is <match>.decode('utf-16').encode('utf-8') with strict error handling", "bytes-of": "value is bytes(int(ref) for each reference of the match)"}[kind],
               dets.get("value", ""), mech="provenance term from abstract interpretation")
        run.ob("R3-provenance", f"{fq}/labels", oks["labels"], where, f"type {typ!r} and label {label!r}", dets.get("labels", ""), mech="constant fields")
    run.floor("R3-provenance", 12)

    # ------------------------------------------------------------------ chr: unencodable code points are not reported
    fc = prog.fn("decoders.chr.find_chr")
    cm = fc.module
    tries = [n for n in own_nodes(fc.node) if isinstance(n, ast.Try)]
    ok_h = False
    det = "no try around the conversion"
    if len(tries) == 1:
        t = tries[0]
        conv_in = any(isinstance(x, ast.Call) and isinstance(x.func, ast.Attribute) and x.func.attr == "encode" for b in t.body for x in ast.walk(b))
        names = set()
        skip = True
        for h in t.handlers:
            ts = h.type.elts if isinstance(h.type, ast.Tuple) else ([h.type] if h.type is not None else [])
            for x in ts:
                names.add(norm_src(x))
            if h.type is None:
                names.add("BaseException")
            appends_here = any(isinstance(y, ast.Call) and isinstance(y.func, ast.Attribute) and y.func.attr == "append" for b in h.body for y in ast.walk(b))
            # the handler skips the hit: it continues, or it falls through while the only append sits in the try's else clause
            falls_to_loop_end = t.orelse and any(isinstance(y, ast.Call) and isinstance(y.func, ast.Attribute) and y.func.attr == "append"
                                                 for b in t.orelse for y in ast.walk(b)) and _is_last_in_loop(t) and \
                not any(isinstance(y, (ast.Return, ast.Break, ast.Raise)) for b in h.body for y in ast.walk(b))
            # ... or it stores a None sentinel and every append of the loop is guarded by `<target> is not None`
            sentinel = False
            if len(h.body) == 1 and isinstance(h.body[0], ast.Assign) and len(h.body[0].targets) == 1 and isinstance(h.body[0].targets[0], ast.Name) and \
                    isinstance(h.body[0].value, ast.Constant) and h.body[0].value.value is None:
                tv_ = h.body[0].targets[0].id
                apps_ = [y for y in own_nodes(fc.node) if isinstance(y, ast.Call) and isinstance(y.func, ast.Attribute) and y.func.attr == "append"]
                sentinel = bool(apps_) and all(any(isinstance(p_, ast.If) and norm_src(p_.test) in (f"{tv_} is not None", f"{tv_} != None") and
                                                   any(y is z for b_ in p_.body for z in ast.walk(b_)) for p_ in common.parents(y)) for y in apps_)
            if not ((h.body and isinstance(h.body[-1], ast.Continue)) or falls_to_loop_end or sentinel) or appends_here:
                skip = False
        covers = bool(names & {"UnicodeEncodeError", "UnicodeError", "ValueError", "Exception", "BaseException"})
        app_after = any(isinstance(y, ast.Call) and isinstance(y.func, ast.Attribute) and y.func.attr == "append" for b in t.finalbody for y in ast.walk(b))
        ok_h = conv_in and covers and skip and not app_after
        det = f"handlers {sorted(names)}, handler skips the hit = {skip}"
    run.ob("R4-chr", "decoders.chr.find_chr/unencodable-skipped", ok_h, f"{cm.rel}:{fc.lineno}",
           "a code point that cannot be encoded (a lone surrogate) raises inside the try and the hit is skipped", det, mech="handler census")
    cre = prog.const(cm, "CHR_RE")
    g1 = rx.group_language(cre, 1)
    run.ob("R4-chr", "decoders.chr.CHR_RE/group-digits", rx.alphabet(g1.dfa) & ~rx.DIGIT == 0 and rx.minlen(g1.dfa) >= 1, f"{cm.rel}:1",
           "the argument group is a non-empty string of decimal digits", "", mech="alphabet of the group language")
    okc, wt = rx.included(rx.dfa_of(rb"(?:[cC][hH][rR][bBwW]?)\(0*[0-9]{1,5}\)"), rx.dfa_of(cre), witness=True)
    run.ob("R4-chr", "decoders.chr.CHR_RE/contains-documented", okc, f"{cm.rel}:1", "chr/chrw/chrb(n) for n up to 99999 with leading zeros is matched", f"not matched: {wt!r}",
           mech="language containment")
    # ------------------------------------------------------------------ unescape
    jm = prog.mod("decoders.javascript")
    ure = prog.const(jm, "UNESCAPE_RE")
    okc, wt = rx.included(rx.dfa_of(rb"unescape\('[^']*'\)"), rx.dfa_of(ure), witness=True)
    oku, wt2 = rx.included(rx.dfa_of(ure), rx.dfa_of(rb"(?s)unescape\('[^']*'\)"), witness=True)
    run.ob("R5-unescape", "decoders.javascript.UNESCAPE_RE/shape", okc and oku, f"{jm.rel}:1", "the pattern is exactly unescape('<anything but a quote>')",
           f"not matched {wt!r} / also matched {wt2!r}", mech="language equality")
    g1 = rx.group_language(ure, 1)
    run.ob("R5-unescape", "decoders.javascript.UNESCAPE_RE/group-is-argument", rx.equal(g1.dfa, rx.dfa_of(rb"(?s)[^']*")), f"{jm.rel}:1", "group 1 is everything between the quotes", "",
           mech="group language")
    # ------------------------------------------------------------------ UTF-16
    km = prog.mod("decoders.codec")
    u16 = prog.const(km, "UTF16_RE")
    du = rx.dfa_of(u16)
    run.ob("R6-utf16", "decoders.codec.UTF16_RE/pairs", rx.included(du, rx.dfa_of(rb"(?s)(?:.\x00)*")), f"{km.rel}:1", "every match is a sequence of (byte, NUL) pairs: decodable as UTF-16LE Latin-1", "",
           mech="language containment")
    run.ob("R6-utf16", "decoders.codec.UTF16_RE/threshold-7", rx.minlen(du) == 14, f"{km.rel}:1", "seven characters (14 bytes) are needed and enough", f"minimum match length {rx.minlen(du)}",
           mech="shortest path in the DFA")
    doc = rb"(?s)(?:[^\x00-\x08\x0e-\x1f\x7f-\x9f]\x00){7,}"
    okc, wt = rx.included(rx.dfa_of(doc), du, witness=True)
    run.ob("R6-utf16", "decoders.codec.UTF16_RE/contains-documented", okc, f"{km.rel}:1", "a run of seven or more printable Latin-1 characters in UTF-16LE is matched as a whole", f"not matched: {wt!r}",
           mech="language containment")
    first = rx.first_bytes(du)
    ctrl = rx.rng(0, 8) | rx.rng(0x0e, 0x1f) | rx.rng(0x7f, 0x9f)
    run.ob("R6-utf16", "decoders.codec.UTF16_RE/no-controls", first & ctrl == 0, f"{km.rel}:1", "a match does not start with a C0/C1 control character", rx.describe_mask(first & ctrl),
           mech="first-byte set")


def _lit(b: bytes) -> bytes:
    return b"".join(b"\\x%02x" % c for c in b)


def _cls(b: bytes) -> bytes:
    return b"".join(b"\\x%02x" % c for c in sorted(set(b)))
