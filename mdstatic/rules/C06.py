"""C06 - the scan engine conforms to the interval-nesting model for any registry.

All verification conditions V1-V10 of the affine frame analysis, each the image of one clause of the reference
procedure, plus the children arm (descend only into supplied sub-structure)."""
from .. import frames, noderules

EXPLANATION = (
    "Every clause of the reference procedure (order; drop inside a decoded span; attach to the innermost open "
    "containing context; drop a hit restating its parent; recurse with one less depth; descend only into supplied "
    "sub-structure; nothing else dropped or moved) is matched with a verification condition decided on scan_node's "
    "source by affine abstract interpretation and truth-table comparison of guards. A list of soundly checked "
    "necessary conditions, not a mechanised equivalence proof with the reference procedure."
)
TRUSTED = ["Python semantics of the statements in the loop", "linear arithmetic in mdstatic.lin"]


def check(run):
    fa = frames.emit(run, lambda v: True)
    for vc, n in (("V1", 3), ("V2", 3), ("V3", 4), ("V4", 6), ("V5", 6), ("V6", 3), ("V7", 6), ("V8", 9), ("V8c", 3), ("V9", 1)):
        run.floor(vc, n)
    noderules.check_original(run, "R-original")
    run.assume("decoders return non-empty, in-bounds hits (premise of the property)")
    _ = fa
