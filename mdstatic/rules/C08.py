"""C08 - sub-results of a decoded node are exactly a scan of its decoded value (structural part)."""
from __future__ import annotations

import ast

from .. import core, frames, sites
from ..core import norm_src
from ..model import call_graph, need, own_nodes, reachable
from . import common

EXPLANATION = (
    "Static analysis of scan_node: (R1) a decoded hit is recursed into - the decoded/context test is, by truth table, 'value differs "
    "from the original ignoring ASCII case, or decoder-supplied children' - and the recursive call receives the hit itself; the "
    "loop state (stack, offset, decode_end) is allocated and initialised inside every activation, is no parameter, default, attribute "
    "or closure, so nothing crosses the call. (R2) read set: of the node it is given, scan_node reads only value, type and children; "
    "start is read only inside the context-pop loop, which cannot run for the root because every hit of every shipped decoder ends "
    "inside the scanned value (span-bound certificate of the abstract interpreter) - so position, parent and surroundings of the "
    "decoded node cannot influence its sub-scan. (R3) decoders receive NODE.value and nothing else, and write no shared state "
    "(effect analysis), so what they find depends on the value alone. Equality of the two child lists as values is the paper "
    "consequence of R1-R3 plus determinism (C09)."
)
TRUSTED = ["Python call semantics (fresh locals per activation)"]


def check(run):
    prog = run.prog
    fa = frames.emit(run, lambda v: v.vc == "V1" or (v.vc == "V8" and v.key in ("decoded-test", "decoded-arm/recurse-on-hit", "two-arms", "decoded-arm/keeps-node")) or
                     (v.vc == "V2" and v.key == "generator-shape") or (v.vc == "V6") or v.vc == "V8c",
                     rule_of=lambda v: "R1-fresh-recursive-scan" if v.vc in ("V1", "V8", "V8c") else ("R3-value-only" if v.vc == "V2" else "R2-read-set"))
    # the decoded test compares the hit with hit.original: `original` must mean "the covered slice of the parent" for every parent
    from .. import noderules
    noderules.check_original(run, "R1-fresh-recursive-scan")
    # "with the remaining depth": the depth handed to the rescan is DEPTH - 1 whatever surrounds the hit (C07's linear-form rule);
    # a depth that also counts the open contexts makes what is found inside a blob depend on what encloses it (seed u04)
    from . import common as _common
    _common.delegate(run, "C07", lambda rule, key: rule == "R2-decrement", floor=2)
    sn = fa.sn
    mod = sn.module
    N = fa.R.NODE
    w = lambda n: f"{mod.rel}:{getattr(n, 'lineno', sn.lineno)}"   # noqa: E731
    # role variables are plain locals (not attributes of self, not module globals)
    for role in ("STACK", "OFFSET", "DEND"):
        name = getattr(fa.R, role)
        ok = bool(name) and name.isidentifier() and name not in sn.params and not any(isinstance(n, (ast.Global, ast.Nonlocal)) and name in n.names for n in own_nodes(sn.node))
        run.ob("R1-fresh-recursive-scan", f"multidecoder.scan_node/{role}-is-a-local", ok, w(sn.node), f"the {role} of the hit loop is a local of the activation",
               f"`{name}` is shared beyond the activation", mech="binding census")
    # recursive calls pass nothing but the node and the depth
    rec = [n for n in own_nodes(sn.node) if isinstance(n, ast.Call) and prog.callee(mod, sn, n).func is sn]
    for i, c in enumerate(rec, 1):
        extra = [a for a in c.args[2:]] + [k for k in c.keywords if k.arg not in (sn.params[1], sn.params[2])]
        run.ob("R1-fresh-recursive-scan", f"multidecoder.scan_node/recursive-call#{i}/no-state-passed", not extra and len(sn.params) == 3, w(c),
               "a recursive scan receives only the node and the remaining depth", f"extra arguments {[norm_src(x) for x in extra]} / parameters {sn.params}", mech="argument census")
    # ------------------------------------------------------------------ R2 read set
    allowed = {"value", "type", "children"}
    reads = {}
    in_pop = {id(x) for x in ast.walk(fa.pop_loop)} if fa.pop_loop is not None else set()
    for n in own_nodes(sn.node):
        if isinstance(n, ast.Attribute) and common.is_name(n.value, N) and isinstance(n.ctx, ast.Load):
            reads.setdefault(n.attr, []).append(n)
    for sub in ast.walk(sn.node):
        if isinstance(sub, ast.Lambda):
            for n in ast.walk(sub):
                if isinstance(n, ast.Attribute) and common.is_name(n.value, N):
                    reads.setdefault(n.attr, []).append(n)
    for attr, nodes in sorted(reads.items()):
        if attr in allowed:
            run.ob("R2-read-set", f"multidecoder.scan_node/reads-NODE.{attr}", True, w(nodes[0]), f"scan_node reads .{attr} of its node ({len(nodes)} site(s))", mech="attribute-load census")
        else:
            outside = [n for n in nodes if id(n) not in in_pop]
            run.ob("R2-read-set", f"multidecoder.scan_node/reads-NODE.{attr}", not outside, w((outside or nodes)[0]),
                   f".{attr} of the current node is read only inside the context-pop loop (never for the node scan_node was given)",
                   f"`{common.short_src(common.enclosing_stmt((outside or nodes)[0]), 70)}` reads .{attr} outside the pop loop: the position / surroundings of a decoded node would influence its sub-scan",
                   mech="attribute-load census")
    # pop loop unreachable for the root: stack guard in the loop, or the in-bounds certificate
    if fa.has_stack_guard_in_pop_loop:
        run.ob("R2-read-set", "multidecoder.scan_node/pop-loop-never-runs-for-the-root", True, w(fa.pop_loop), "the pop loop tests the stack, so it never runs with the root as current node", mech="loop condition")
    else:
        from .C03 import span_obligations
        A = sites.analysis(prog)
        decs = prog.decorated_decoders() + [prog.fn("keyword.find_keywords")]
        sub = core.Run("C08", run.tier, prog)
        span_obligations(sub, "cert", decs, A)
        bad = [o for o in sub.obligations if not o["ok"] and "/hit/end<=len" in o["key"]]
        n_ok = len([o for o in sub.obligations if "/hit/end<=len" in o["key"] and o["ok"]])
        run.ob("R2-read-set", "multidecoder.scan_node/pop-loop-never-runs-for-the-root", not bad and n_ok >= 30, w(fa.pop_loop) if fa.pop_loop is not None else w(sn.node),
               f"every hit of the {len(decs)} registered searchers ends inside the scanned value ({n_ok} site obligations), so with the root as current node (offset 0) the pop condition is false",
               "; ".join(o["key"].split("/")[-3] + ": " + o["detail"][:90] for o in bad[:3]), mech="span-bound certificate (abstract interpretation E4)")
    # ------------------------------------------------------------------ R3 decoders depend on the value only: no shared writes on the decoder path
    from .. import effects as E
    decs = prog.decorated_decoders()
    fk = prog.fn("keyword.find_keywords")
    edges = call_graph(prog, registry_targets=decs + [fk])
    path = reachable(edges, decs + [fk])
    ef = E.Effects(prog, sorted(path, key=lambda f: (f.module.name, f.lineno)))
    seen = set()
    for f in ef.findings:
        if f.key in seen:
            continue
        seen.add(f.key)
        run.ob("R3-value-only", f.key, False, f"{f.fn.module.rel}:{getattr(f.node, 'lineno', 0)}", "decoders keep no state between calls", f.what, mech="effect analysis (E8)")
    run.ob("R3-value-only", "decoders/effect-free", not ef.findings, "src/multidecoder/decoders", f"{len(path)} functions on the decoder path write no shared state ({ef.n_stores} stores classified)", "",
           mech="effect analysis (E8)")
    ent = E.entropy_sources(prog, sorted(path, key=lambda f: (f.module.name, f.lineno)))
    run.ob("R3-value-only", "decoders/no-entropy", not ent, "src/multidecoder/decoders", "decoders consult no entropy source", "; ".join(f.what for f in ent[:3]), mech="call census")
    run.floor("R1-fresh-recursive-scan", 10)
    run.floor("R2-read-set", 4)
