"""Helpers shared by the property rules."""
from __future__ import annotations

import ast

from ..core import norm_src, short
from ..model import FuncInfo, need, own_nodes

PURE_CALLS = {"len", "min", "max", "abs", "int", "bool", "ord"}


def short_src(n, k=90):
    return short(norm_src(n), k)


def enclosing_stmt(n):
    p = n
    while p is not None and not isinstance(p, ast.stmt):
        p = getattr(p, "_parent", None)
    return p if p is not None else n


def stmt_kind(s):
    return type(s).__name__


def parents(n):
    p = getattr(n, "_parent", None)
    while p is not None:
        yield p
        p = getattr(p, "_parent", None)


def stores_to(fn_node, name):
    return [n for n in own_nodes(fn_node) if isinstance(n, ast.Name) and n.id == name and isinstance(n.ctx, ast.Store)]


def attr_stores(fn_node):
    """attribute names that are stored to (x.attr = ..., x.attr += ...) anywhere in the function."""
    out = set()
    for n in own_nodes(fn_node):
        if isinstance(n, ast.Attribute) and isinstance(n.ctx, ast.Store):
            out.add(n.attr)
    return out


def single_assignment_temps(fn_node) -> dict[str, ast.expr]:
    """Locals assigned exactly once by `name = expr` whose right-hand side can be inlined at every use:
    it mentions only parameters / other never-rebound names, constants, arithmetic, pure builtins and
    attribute loads of attributes the function never stores to (and never shifts)."""
    params = set()
    a = fn_node.args
    for x in a.posonlyargs + a.args + a.kwonlyargs:
        params.add(x.arg)
    counts = {}
    rhs = {}
    for n in own_nodes(fn_node):
        if isinstance(n, ast.Name) and isinstance(n.ctx, ast.Store):
            counts[n.id] = counts.get(n.id, 0) + 1
            par = getattr(n, "_parent", None)
            if isinstance(par, ast.Assign) and len(par.targets) == 1 and par.targets[0] is n:
                rhs[n.id] = par.value
            elif isinstance(par, ast.AnnAssign) and par.target is n and par.value is not None:
                rhs[n.id] = par.value
    stored_attrs = attr_stores(fn_node)
    shifts = any(isinstance(n, ast.Call) and isinstance(n.func, ast.Attribute) and n.func.attr in ("shift",)
                 for n in own_nodes(fn_node))
    if shifts:
        stored_attrs |= {"start", "end"}
    never_rebound = {p for p in params if counts.get(p, 0) == 0}
    out = {}
    changed = True
    while changed:
        changed = False
        for name, val in rhs.items():
            if name in out or counts.get(name) != 1 or name in params:
                continue
            ok = True
            for x in ast.walk(val):
                if isinstance(x, ast.Name):
                    if isinstance(x.ctx, ast.Store):
                        ok = False
                    elif x.id not in never_rebound and x.id not in out and x.id not in PURE_CALLS:
                        ok = False
                elif isinstance(x, ast.Attribute):
                    if x.attr in stored_attrs:
                        ok = False
                elif isinstance(x, ast.Call):
                    if not (isinstance(x.func, ast.Name) and x.func.id in PURE_CALLS):
                        ok = False
                elif isinstance(x, (ast.Lambda, ast.ListComp, ast.GeneratorExp, ast.SetComp, ast.DictComp, ast.Await,
                                    ast.Yield, ast.YieldFrom, ast.NamedExpr)):
                    ok = False
            if ok:
                out[name] = val
                changed = True
    return out


def decoder_invocations(prog, fn: FuncInfo):
    """Calls `v(...)` where v is bound by a for/comprehension over `<self>.decoders` (or a local alias of it)."""
    selfname = fn.params[0] if fn.params else None
    registry_names = set()

    def is_registry(e):
        if isinstance(e, ast.Attribute) and e.attr == "decoders" and isinstance(e.value, ast.Name) and e.value.id == selfname:
            return True
        if isinstance(e, ast.Name) and e.id in registry_names:
            return True
        if isinstance(e, ast.Call) and isinstance(e.func, ast.Name) and e.func.id in ("list", "tuple", "iter", "reversed", "sorted") and e.args:
            return is_registry(e.args[0])
        return False
    for n in own_nodes(fn.node):
        if isinstance(n, ast.Assign) and len(n.targets) == 1 and isinstance(n.targets[0], ast.Name) and is_registry(n.value):
            registry_names.add(n.targets[0].id)
    loopvars = {}
    for n in own_nodes(fn.node):
        if isinstance(n, ast.comprehension) and is_registry(n.iter) and isinstance(n.target, ast.Name):
            loopvars[n.target.id] = n
        elif isinstance(n, ast.For) and is_registry(n.iter) and isinstance(n.target, ast.Name):
            loopvars[n.target.id] = n
    out = []
    for n in own_nodes(fn.node):
        if isinstance(n, ast.Call) and isinstance(n.func, ast.Name) and n.func.id in loopvars:
            out.append(n)
    return out


def call_arg(call: ast.Call, callee: FuncInfo, index: int, name: str):
    """Argument bound to parameter #index (0 = self for methods called as self.m(...)) / keyword `name`."""
    pos = index
    if isinstance(call.func, ast.Attribute):
        pos = index - 1   # bound method: self is implicit
    if 0 <= pos < len(call.args) and not any(isinstance(a, ast.Starred) for a in call.args[: pos + 1]):
        return call.args[pos]
    for kw in call.keywords:
        if kw.arg == name:
            return kw.value
    return None


def param_default(fn: FuncInfo, name: str):
    a = fn.node.args
    names = [x.arg for x in a.posonlyargs + a.args]
    defs = a.defaults
    off = len(names) - len(defs)
    if name in names:
        i = names.index(name)
        if i >= off:
            return defs[i - off]
    for x, d in zip(a.kwonlyargs, a.kw_defaults):
        if x.arg == name:
            return d
    return None


def find_one(nodes, pred, what):
    xs = [n for n in nodes if pred(n)]
    need(len(xs) == 1, f"anchor: expected exactly one {what}, found {len(xs)}")
    return xs[0]


def is_name(e, name):
    return isinstance(e, ast.Name) and e.id == name


def is_attr(e, base, attr):
    return isinstance(e, ast.Attribute) and e.attr == attr and isinstance(e.value, ast.Name) and e.value.id == base


def const_value(prog, module, e):
    return prog.try_fold(module, e)


def block_env(stmts, target, env=None, unpack=False):
    """Reaching simple definitions `name = expr` at `target` inside a statement list (descending into
    the compound statement that contains the target). A definition is dropped as soon as one of the names
    its right-hand side mentions (or the name itself) is stored again. Returns {name: expr} or None."""
    from ..guards import contains
    env = dict(env or {})

    def kill(names):
        for k in list(env):
            if k in names or any(isinstance(x, ast.Name) and x.id in names for x in ast.walk(env[k])):
                del env[k]
    for s in stmts:
        if s is target or (not isinstance(s, (ast.If, ast.For, ast.While, ast.With, ast.Try)) and contains(s, target)):
            return env
        if contains(s, target):
            # stores in loop bodies may reach the head again: kill everything the loop stores first
            if isinstance(s, (ast.For, ast.While)):
                kill({x.id for x in ast.walk(s) if isinstance(x, ast.Name) and isinstance(x.ctx, ast.Store)})
            for blk in ("body", "orelse", "finalbody"):
                b = getattr(s, blk, None) or []
                if any(contains(x, target) for x in b):
                    return block_env(b, target, env, unpack)
            for h in getattr(s, "handlers", []) or []:
                if any(contains(x, target) for x in h.body):
                    return block_env(h.body, target, env, unpack)
            return env
        stored = {x.id for x in ast.walk(s) if isinstance(x, ast.Name) and isinstance(x.ctx, ast.Store)}
        if isinstance(s, ast.Assign) and len(s.targets) == 1 and isinstance(s.targets[0], ast.Name):
            kill(stored)
            if not any(isinstance(x, ast.Name) and x.id == s.targets[0].id for x in ast.walk(s.value)):
                env[s.targets[0].id] = s.value
        elif isinstance(s, ast.AnnAssign) and isinstance(s.target, ast.Name) and s.value is not None:
            kill(stored)
            env[s.target.id] = s.value
        elif (unpack and isinstance(s, ast.Assign) and len(s.targets) == 1 and isinstance(s.targets[0], ast.Tuple)
              and all(isinstance(e, ast.Name) for e in s.targets[0].elts)):
            # a, b = expr  ->  a = expr[0], b = expr[1]   (a, b = x, y  ->  a = x, b = y)
            kill(stored)
            names = [e.id for e in s.targets[0].elts]
            if not any(isinstance(x, ast.Name) and x.id in names for x in ast.walk(s.value)):
                for i, nm in enumerate(names):
                    if isinstance(s.value, ast.Tuple) and len(s.value.elts) == len(names):
                        env[nm] = s.value.elts[i]
                    else:
                        env[nm] = ast.Subscript(value=s.value, slice=ast.Constant(value=i), ctx=ast.Load())
        else:
            kill(stored)
    return None


def spec_expr(text):
    return ast.parse(text, mode="eval").body


def split_ifexp(e, az):
    """[(condition formula, leaf expression)] of a (possibly nested) conditional expression; a plain expression is one case"""
    from .. import guards as G
    if isinstance(e, ast.IfExp):
        c = az.formula(e.test)
        return [(G.f_and(c, c2), leaf) for c2, leaf in split_ifexp(e.body, az)] + \
               [(G.f_and(G.f_not(c), c2), leaf) for c2, leaf in split_ifexp(e.orelse, az)]
    return [(G.T, e)]


def label_conditions(prog, mod, fi, label, az_factory, pos=1):
    """For a function returning tuples: (formula under which element `pos` is `label`, formula under which it is "", anything else
    returned?).  Works for `return v, L if c else ""`, the arms the other way round, and if/return statements."""
    from .. import guards as G
    from ..model import own_nodes
    f_lab, f_empty, other = [], [], False
    for r in own_nodes(fi.node):
        if not isinstance(r, ast.Return):
            continue
        if not (isinstance(r.value, ast.Tuple) and len(r.value.elts) > pos):
            other = True
            continue
        env = block_env(fi.body, r) or {}
        az = az_factory(env)
        pc = G.reach(fi.body, r, az)
        if pc is None:
            other = True
            continue
        for c, leaf in split_ifexp(az.inline(r.value.elts[pos]), az):
            k = prog.try_fold(mod, leaf)
            if k == label:
                f_lab.append(G.f_and(pc, c))
            elif k == "":
                f_empty.append(G.f_and(pc, c))
            else:
                other = True
    return (G.f_or(*f_lab) if f_lab else G.F), (G.f_or(*f_empty) if f_empty else G.F), other
