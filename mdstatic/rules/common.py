"""Helpers shared by the property rules."""
from __future__ import annotations

import ast

from ..core import norm_src, short
from ..model import FuncInfo, need, own_nodes

PURE_CALLS = {"len", "min", "max", "abs", "int", "bool", "ord"}


def short_src(n, k=90):
    return short(norm_src(n), k)


def enclosing_stmt(n):
    p = n
    while p is not None and not isinstance(p, ast.stmt):
        p = getattr(p, "_parent", None)
    return p if p is not None else n


def stmt_kind(s):
    return type(s).__name__


def parents(n):
    p = getattr(n, "_parent", None)
    while p is not None:
        yield p
        p = getattr(p, "_parent", None)


def stores_to(fn_node, name):
    return [n for n in own_nodes(fn_node) if isinstance(n, ast.Name) and n.id == name and isinstance(n.ctx, ast.Store)]


def attr_stores(fn_node):
    """attribute names that are stored to (x.attr = ..., x.attr += ...) anywhere in the function."""
    out = set()
    for n in own_nodes(fn_node):
        if isinstance(n, ast.Attribute) and isinstance(n.ctx, ast.Store):
            out.add(n.attr)
    return out


def single_assignment_temps(fn_node) -> dict[str, ast.expr]:
    """Locals assigned exactly once by `name = expr` whose right-hand side can be inlined at every use:
    it mentions only parameters / other never-rebound names, constants, arithmetic, pure builtins and
    attribute loads of attributes the function never stores to (and never shifts)."""
    params = set()
    a = fn_node.args
    for x in a.posonlyargs + a.args + a.kwonlyargs:
        params.add(x.arg)
    counts = {}
    rhs = {}
    for n in own_nodes(fn_node):
        if isinstance(n, ast.Name) and isinstance(n.ctx, ast.Store):
            counts[n.id] = counts.get(n.id, 0) + 1
            par = getattr(n, "_parent", None)
            if isinstance(par, ast.Assign) and len(par.targets) == 1 and par.targets[0] is n:
                rhs[n.id] = par.value
            elif isinstance(par, ast.AnnAssign) and par.target is n and par.value is not None:
                rhs[n.id] = par.value
    stored_attrs = attr_stores(fn_node)
    shifts = any(isinstance(n, ast.Call) and isinstance(n.func, ast.Attribute) and n.func.attr in ("shift",)
                 for n in own_nodes(fn_node))
    if shifts:
        stored_attrs |= {"start", "end"}
    never_rebound = {p for p in params if counts.get(p, 0) == 0}
    out = {}
    changed = True
    while changed:
        changed = False
        for name, val in rhs.items():
            if name in out or counts.get(name) != 1 or name in params:
                continue
            ok = True
            for x in ast.walk(val):
                if isinstance(x, ast.Name):
                    if isinstance(x.ctx, ast.Store):
                        ok = False
                    elif x.id not in never_rebound and x.id not in out and x.id not in PURE_CALLS:
                        ok = False
                elif isinstance(x, ast.Attribute):
                    if x.attr in stored_attrs:
                        ok = False
                elif isinstance(x, ast.Call):
                    if not (isinstance(x.func, ast.Name) and x.func.id in PURE_CALLS):
                        ok = False
                elif isinstance(x, (ast.Lambda, ast.ListComp, ast.GeneratorExp, ast.SetComp, ast.DictComp, ast.Await,
                                    ast.Yield, ast.YieldFrom, ast.NamedExpr)):
                    ok = False
            if ok:
                out[name] = val
                changed = True
    return out


def decoder_invocations(prog, fn: FuncInfo):
    """Calls `v(...)` where v is bound by a for/comprehension over `<self>.decoders` (or a local alias of it)."""
    selfname = fn.params[0] if fn.params else None
    registry_names = set()

    def is_registry(e):
        if isinstance(e, ast.Attribute) and e.attr == "decoders" and isinstance(e.value, ast.Name) and e.value.id == selfname:
            return True
        if isinstance(e, ast.Name) and e.id in registry_names:
            return True
        if isinstance(e, ast.Call) and isinstance(e.func, ast.Name) and e.func.id in ("list", "tuple", "iter", "reversed", "sorted") and e.args:
            return is_registry(e.args[0])
        return False
    for n in own_nodes(fn.node):
        if isinstance(n, ast.Assign) and len(n.targets) == 1 and isinstance(n.targets[0], ast.Name) and is_registry(n.value):
            registry_names.add(n.targets[0].id)
    loopvars = {}
    for n in own_nodes(fn.node):
        if isinstance(n, ast.comprehension) and is_registry(n.iter) and isinstance(n.target, ast.Name):
            loopvars[n.target.id] = n
        elif isinstance(n, ast.For) and is_registry(n.iter) and isinstance(n.target, ast.Name):
            loopvars[n.target.id] = n
    out = []
    for n in own_nodes(fn.node):
        if isinstance(n, ast.Call) and isinstance(n.func, ast.Name) and n.func.id in loopvars:
            out.append(n)
    return out


def call_arg(call: ast.Call, callee: FuncInfo, index: int, name: str):
    """Argument bound to parameter #index (0 = self for methods called as self.m(...)) / keyword `name`."""
    pos = index
    if isinstance(call.func, ast.Attribute):
        pos = index - 1   # bound method: self is implicit
    if 0 <= pos < len(call.args) and not any(isinstance(a, ast.Starred) for a in call.args[: pos + 1]):
        return call.args[pos]
    for kw in call.keywords:
        if kw.arg == name:
            return kw.value
    return None


def param_default(fn: FuncInfo, name: str):
    a = fn.node.args
    names = [x.arg for x in a.posonlyargs + a.args]
    defs = a.defaults
    off = len(names) - len(defs)
    if name in names:
        i = names.index(name)
        if i >= off:
            return defs[i - off]
    for x, d in zip(a.kwonlyargs, a.kw_defaults):
        if x.arg == name:
            return d
    return None


def find_one(nodes, pred, what):
    xs = [n for n in nodes if pred(n)]
    need(len(xs) == 1, f"anchor: expected exactly one {what}, found {len(xs)}")
    return xs[0]


def is_name(e, name):
    return isinstance(e, ast.Name) and e.id == name


def is_attr(e, base, attr):
    return isinstance(e, ast.Attribute) and e.attr == attr and isinstance(e.value, ast.Name) and e.value.id == base


def const_value(prog, module, e):
    return prog.try_fold(module, e)


def block_env(stmts, target, env=None, unpack=False):
    """Reaching simple definitions `name = expr` at `target` inside a statement list (descending into
    the compound statement that contains the target). A definition is dropped as soon as one of the names
    its right-hand side mentions (or the name itself) is stored again. Returns {name: expr} or None."""
    from ..guards import contains
    env = dict(env or {})

    def kill(names):
        for k in list(env):
            if k in names or any(isinstance(x, ast.Name) and x.id in names for x in ast.walk(env[k])):
                del env[k]
    for s in stmts:
        if s is target or (not isinstance(s, (ast.If, ast.For, ast.While, ast.With, ast.Try)) and contains(s, target)):
            return env
        if contains(s, target):
            # stores in loop bodies may reach the head again: kill everything the loop stores first
            if isinstance(s, (ast.For, ast.While)):
                kill({x.id for x in ast.walk(s) if isinstance(x, ast.Name) and isinstance(x.ctx, ast.Store)})
            for blk in ("body", "orelse", "finalbody"):
                b = getattr(s, blk, None) or []
                if any(contains(x, target) for x in b):
                    return block_env(b, target, env, unpack)
            for h in getattr(s, "handlers", []) or []:
                if any(contains(x, target) for x in h.body):
                    return block_env(h.body, target, env, unpack)
            return env
        stored = {x.id for x in ast.walk(s) if isinstance(x, ast.Name) and isinstance(x.ctx, ast.Store)}
        if isinstance(s, ast.Assign) and len(s.targets) == 1 and isinstance(s.targets[0], ast.Name):
            kill(stored)
            if not any(isinstance(x, ast.Name) and x.id == s.targets[0].id for x in ast.walk(s.value)):
                env[s.targets[0].id] = s.value
        elif isinstance(s, ast.AnnAssign) and isinstance(s.target, ast.Name) and s.value is not None:
            kill(stored)
            env[s.target.id] = s.value
        elif (unpack and isinstance(s, ast.Assign) and len(s.targets) == 1 and isinstance(s.targets[0], ast.Tuple)
              and all(isinstance(e, ast.Name) for e in s.targets[0].elts)):
            # a, b = expr  ->  a = expr[0], b = expr[1]   (a, b = x, y  ->  a = x, b = y)
            kill(stored)
            names = [e.id for e in s.targets[0].elts]
            if not any(isinstance(x, ast.Name) and x.id in names for x in ast.walk(s.value)):
                for i, nm in enumerate(names):
                    if isinstance(s.value, ast.Tuple) and len(s.value.elts) == len(names):
                        env[nm] = s.value.elts[i]
                    else:
                        env[nm] = ast.Subscript(value=s.value, slice=ast.Constant(value=i), ctx=ast.Load())
        else:
            kill(stored)
    return None


def inline(e, env):
    """copy of expression `e` with the names bound in env (name -> expression) replaced, transitively"""
    from ..normalise import _clone

    class T(ast.NodeTransformer):
        def visit_Name(self, n):
            if isinstance(n.ctx, ast.Load) and n.id in env and env[n.id] is not None:
                return T().visit(_clone(env[n.id]))
            return n
    return ast.fix_missing_locations(T().visit(_clone(e)))


def spec_expr(text):
    return ast.parse(text, mode="eval").body


def split_ifexp(e, az):
    """[(condition formula, leaf expression)] of a (possibly nested) conditional expression; a plain expression is one case"""
    from .. import guards as G
    if isinstance(e, ast.IfExp):
        c = az.formula(e.test)
        return [(G.f_and(c, c2), leaf) for c2, leaf in split_ifexp(e.body, az)] + \
               [(G.f_and(G.f_not(c), c2), leaf) for c2, leaf in split_ifexp(e.orelse, az)]
    return [(G.T, e)]


def label_conditions(prog, mod, fi, label, az_factory, pos=1):
    """For a function returning tuples: (formula under which element `pos` is `label`, formula under which it is "", anything else
    returned?).  Works for `return v, L if c else ""`, the arms the other way round, and if/return statements."""
    from .. import guards as G
    from ..model import own_nodes
    f_lab, f_empty, other = [], [], False
    for r in own_nodes(fi.node):
        if not isinstance(r, ast.Return):
            continue
        if not (isinstance(r.value, ast.Tuple) and len(r.value.elts) > pos):
            other = True
            continue
        env = block_env(fi.body, r) or {}
        az = az_factory(env)
        pc = G.reach(fi.body, r, az)
        if pc is None:
            other = True
            continue
        for c, leaf in split_ifexp(az.inline(r.value.elts[pos]), az):
            k = prog.try_fold(mod, leaf)
            if k == label:
                f_lab.append(G.f_and(pc, c))
            elif k == "":
                f_empty.append(G.f_and(pc, c))
            else:
                other = True
    return (G.f_or(*f_lab) if f_lab else G.F), (G.f_or(*f_empty) if f_empty else G.F), other


class Via:
    """Runs another property's rule module and forwards the obligations `keep(rule, key)` selects, re-keyed under this run."""

    def __init__(self, run, tag, keep, prefix="via"):
        self._run, self._tag, self._keep, self._prefix = run, tag, keep, prefix
        self.prog, self.tier, self.selftest = run.prog, run.tier, getattr(run, "selftest", False)
        self.extra = {}
        self.analysed = {}
        self.prop = run.prop
        self.n = 0

    def ob(self, rule, key, ok, where, what, detail="", mech=""):
        if self._keep(rule, key):
            self.n += 1
            return self._run.ob(f"{self._prefix}-{self._tag}.{rule}", key, ok, where, what, detail, mech)
        return bool(ok)

    def floor(self, rule, n):
        pass

    def note(self, k, v):
        pass

    def assume(self, text):
        self._run.assume(text)

    def exempt(self, key, reason, condition):
        self._run.exempt(key, reason, condition)


def delegate(run, tag, keep, floor=1, prefix="via"):
    """forward the selected obligations of rules/<tag>.py; the anchor fails when fewer than `floor` were produced"""
    import importlib

    from ..model import need
    via = Via(run, tag, keep, prefix)
    importlib.import_module(f"mdstatic.rules.{tag}").check(via)
    if not run.failures():
        need(via.n >= floor, f"anchor: {tag} contributed {via.n} obligations, fewer than the {floor} confirmed on the reference tree")
    return via.n


_MRN = {}


def may_return_nodes(prog, fi):
    """can a result of `fi` contain a Node?  (a Node construction is reachable from it, or its return annotation names Node).
    Memoising a function for which this is false - a predicate, a bytes -> bytes normaliser - is not observable."""
    from ..model import call_graph, own_nodes, reachable
    if id(prog) not in _MRN:
        _MRN.clear()
        _MRN[id(prog)] = (call_graph(prog), {})
    edges, memo = _MRN[id(prog)]
    if fi not in memo:
        ret = getattr(fi.node, "returns", None)
        hit = ret is not None and "Node" in ast.unparse(ret)
        if not hit:
            for g in reachable(edges, [fi]):
                nodes = ast.walk(g.node.body) if isinstance(g.node, ast.Lambda) else own_nodes(g.node)
                if any(isinstance(n, ast.Call) and prog.is_node_ctor(g.module, g, n) for n in nodes):
                    hit = True
                    break
        memo[fi] = hit
    return memo[fi]


def check_not_memoised(run, rule, roots, what):
    """No function reachable from `roots` (FuncInfo list) carries a caching decorator: a memoised helper hands out the SAME Node
    objects (or lists of them) again, and the engine shifts / re-parents hits in place."""
    from ..effects import CACHE_DECORATORS
    from ..model import call_graph, reachable
    prog = run.prog
    edges = call_graph(prog)
    n = 0
    for fi in sorted(reachable(edges, roots), key=lambda f: f.fq):
        if isinstance(fi.node, ast.Lambda):
            continue
        memo = [d for d in fi.decorators if prog.dotted(fi.module, d.func if isinstance(d, ast.Call) else d) in CACHE_DECORATORS]
        if memo and not may_return_nodes(prog, fi):
            memo = []       # a memoised pure helper whose results hold no node: nothing shared that the engine mutates
        if memo or fi in roots:
            n += 1
            run.ob(rule, f"{fi.fq}/not-memoised", not memo, f"{fi.module.rel}:{fi.lineno}", what,
                   f"decorated with @{ast.unparse(memo[0])}: the cached nodes are returned again for the same argument and mutated in place by the engine"
                   if memo else "", mech="decorator census over the functions reachable from the property's decoders")
    # the functional spelling: ALIAS = lru_cache(...)(f) / ALIAS = cache(f) anywhere in a module, with ALIAS used by a reachable function
    reach = set(reachable(edges, roots)) | set(roots)
    for m in sorted(prog.modules.values(), key=lambda m: m.rel):
        for st in ast.walk(m.tree):
            if not (isinstance(st, ast.Assign) and len(st.targets) == 1 and isinstance(st.targets[0], ast.Name) and isinstance(st.value, ast.Call)):
                continue
            v = st.value
            dec = v.func.func if isinstance(v.func, ast.Call) else v.func
            if prog.dotted(m, dec) not in CACHE_DECORATORS or len(v.args) != 1 or not isinstance(v.args[0], (ast.Name, ast.Attribute)):
                continue
            c = prog.resolve_func_name(m, v.args[0].id, None) if isinstance(v.args[0], ast.Name) else None
            target = getattr(c, "func", None)
            if target is None or isinstance(target.node, ast.Lambda) or not may_return_nodes(prog, target):
                continue
            alias = st.targets[0].id
            users = [g for g in reach if g.module is m and not isinstance(g.node, ast.Lambda)
                     and any(isinstance(x, ast.Name) and x.id == alias and isinstance(x.ctx, ast.Load) for x in ast.walk(g.node))]
            if users:
                n += 1
                run.ob(rule, f"{target.fq}/not-memoised", False, f"{m.rel}:{st.lineno}", what,
                       f"`{alias} = {ast.unparse(v)}` wraps a node-returning function in a cache and {users[0].fq} uses it: the cached nodes are returned "
                       "again for the same argument and mutated in place by the engine", mech="cache-wrapper census over the modules of the functions reachable from the property's decoders")
    return n


def fresh_hits(run, pid, rule="R0-fresh-hits"):
    """The spans a property states are relative to the data of THAT call; scan_node shifts and re-parents the returned nodes in
    place, so the decoders anchored for the property (and their helpers) must not be memoised."""
    import json
    from pathlib import Path

    from ..model import need
    prog = run.prog
    files = set()
    for line in (Path(__file__).resolve().parents[2] / "properties.jsonl").read_text().splitlines():
        if line.strip():
            d = json.loads(line)
            if d["id"] == pid:
                files = set(d["anchors"]["files"])
    mods = [m for m in prog.modules.values() if m.rel in files]
    need(mods, f"anchor: none of the anchor files of {pid} was parsed")
    roots = [fi for fi in prog.decorated_decoders() if fi.module in mods]
    if any(m.rel.endswith("/keyword.py") for m in mods):
        roots.append(prog.fn("keyword.find_keywords"))
    need(roots, f"anchor: no decoder entry point in the anchor files of {pid}")
    n = check_not_memoised(run, rule, roots, "every call of the decoder (and of its helpers) builds its nodes afresh, so the reported span is the one of this call")
    run.floor(rule, len(roots))
    return n



def regex_patterns(prog):
    """every pattern the program can hand to the regex engine that folds to a constant: module-level *_RE constants and the
    constant pattern arguments of regex / re calls.  [(key, where, pattern)] keyed by constant name or by function and ordinal."""
    out, seen = [], set()
    for m in sorted(prog.modules.values(), key=lambda m: m.rel):
        for st in m.tree.body:
            if isinstance(st, (ast.Assign, ast.AnnAssign)) and st.value is not None:
                tg = st.targets[0] if isinstance(st, ast.Assign) else st.target
                if isinstance(tg, ast.Name) and ("RE" in tg.id.split("_") or "REGEX" in tg.id.split("_")):
                    v = prog.try_fold(m, st.value)
                    if isinstance(v, (bytes, str)):
                        out.append((f"{m.short}.{tg.id}", f"{m.rel}:{st.lineno}", v))
                        seen.add(v if isinstance(v, bytes) else v.encode("latin-1"))
        ordinals = {}
        for node in ast.walk(m.tree):
            if isinstance(node, ast.Call) and node.args:
                d = prog.dotted(m, node.func) or ""
                if d.split(".")[0] in ("regex", "re") and d.split(".")[-1] in ("compile", "search", "match", "fullmatch", "finditer", "findall", "sub", "subn", "split"):
                    v = prog.try_fold(m, node.args[0])
                    if isinstance(v, (bytes, str)):
                        vb = v if isinstance(v, bytes) else v.encode("latin-1")
                        if vb in seen:
                            continue
                        fi = m.func_of_node(node)
                        owner = fi.fq if fi else m.short
                        ordinals[owner] = ordinals.get(owner, 0) + 1
                        out.append((f"{owner}/pattern#{ordinals[owner]}", f"{m.rel}:{node.lineno}", v))
    return out


def anchor_modules(prog, pid):
    import json
    from pathlib import Path
    files = set()
    for line in (Path(__file__).resolve().parents[2] / "properties.jsonl").read_text().splitlines():
        if line.strip():
            d = json.loads(line)
            if d["id"] == pid:
                files = set(d["anchors"]["files"])
    return [m for m in prog.modules.values() if m.rel in files]


def no_unsafe_cuts(run, pid, rule, floor=1):
    """no pattern of the property's anchor files uses a possessive / atomic construct where it can change what is matched"""
    from .. import rx
    prog = run.prog
    rels = {m.rel for m in anchor_modules(prog, pid)}
    n = 0
    for key, where, pat in regex_patterns(prog):
        if where.rsplit(":", 1)[0] not in rels:
            continue
        try:
            cs = rx.cuts(pat)
        except rx.RxError:
            continue
        n += 1
        run.ob(rule, f"{key}/no-backtracking-cut", not cs, where, "the pattern has no possessive / atomic construct that can make the search miss or shorten a text its language contains",
               f"uses {cs}", mech="regex parse tree: cut constructs x first bytes of the continuation")
    from ..model import need
    need(n >= floor, f"anchor: {n} patterns found in the anchor files of {pid}, fewer than {floor}")
    return n


def comp_as_loop(fn_node, acc="hits__comp"):
    """body of a function that ends in `return [E for v in IT if c1 if c2]` (one generator) as the equivalent accumulate-in-a-loop
    statements; None when the function has another shape.  Used by rules that judge a loop body, so that the comprehension spelling
    of the same loop is judged by the same rule."""
    from ..normalise import _clone
    body = list(fn_node.body)
    if not body or not isinstance(body[-1], ast.Return) or not isinstance(body[-1].value, ast.ListComp) or len(body[-1].value.generators) != 1:
        return None
    if any(isinstance(st, (ast.For, ast.While)) for st in body[:-1]):
        return None
    lc = body[-1].value
    g = lc.generators[0]
    app = ast.Expr(value=ast.Call(func=ast.Attribute(value=ast.Name(id=acc, ctx=ast.Load()), attr="append", ctx=ast.Load()), args=[_clone(lc.elt)], keywords=[]))
    inner = [app]
    if g.ifs:
        test = _clone(g.ifs[0]) if len(g.ifs) == 1 else ast.BoolOp(op=ast.And(), values=[_clone(x) for x in g.ifs])
        inner = [ast.If(test=test, body=[app], orelse=[])]
    loop = ast.For(target=_clone(g.target), iter=_clone(g.iter), body=inner, orelse=[])
    init = ast.Assign(targets=[ast.Name(id=acc, ctx=ast.Store())], value=ast.List(elts=[], ctx=ast.Load()))
    ret = ast.Return(value=ast.Name(id=acc, ctx=ast.Load()))
    out = body[:-1] + [init, loop, ret]
    for st in (init, loop, ret):
        for n in ast.walk(st):
            if isinstance(n, (ast.expr, ast.stmt)):
                n.lineno = body[-1].lineno
                n.col_offset = 0
                n.end_lineno = body[-1].lineno
                n.end_col_offset = 0
        for n in ast.walk(st):
            for c in ast.iter_child_nodes(n):
                c._parent = n
    return out


def reverse_slices_do_not_wrap(run, rule, fis):
    """`x[i - c::-1]` starts at index -1 .. -c when i < c, i.e. at the END of x: every reverse slice whose start is `name - constant`
    must sit under a condition that implies name >= constant."""
    from .. import guards as G
    n = 0
    for fi in fis:
        for sub in [x for x in ast.walk(fi.node) if isinstance(x, ast.Subscript) and isinstance(x.slice, ast.Slice)]:
            sl = sub.slice
            if not (isinstance(sl.step, ast.UnaryOp) and isinstance(sl.step.op, ast.USub) and isinstance(sl.step.operand, ast.Constant) and sl.step.operand.value == 1):
                continue
            n += 1
            lo = sl.lower
            ok, det = True, ""
            if isinstance(lo, ast.BinOp) and isinstance(lo.op, ast.Sub) and isinstance(lo.right, ast.Constant) and isinstance(lo.right.value, int) and lo.right.value > 0:
                az = G.Atomizer(is_int=lambda e: True)
                st = enclosing_stmt(sub)
                pc = G.reach(fi.node.body, st, az)
                want = az.formula(ast.Compare(left=lo.left, ops=[ast.GtE()], comparators=[lo.right]))
                ok = pc is not None and G.implies(pc, want)[0]
                det = f"`{ast.unparse(sub)}` starts at index {ast.unparse(lo)}, which is negative (counted from the end) when {ast.unparse(lo.left)} < {lo.right.value}"
            run.ob(rule, f"{fi.fq}/reverse-slice-start/{ast.unparse(lo) if lo is not None else 'end'}", ok, f"{fi.module.rel}:{sub.lineno}",
                   "a backwards slice starts at a non-negative index (a negative start wraps to the end of the text)", det, mech="slice census + reaching condition")
    return n
