"""C20 - JSON serialisation is lossless and the CLI reports exactly the library's tree."""
from __future__ import annotations

import ast
import inspect
import json

from .. import guards as G
from ..core import norm_src
from ..model import need, own_nodes
from . import common

EXPLANATION = (
    "Static agreement tables: the record fields of Node (__slots__ minus parent) against the keys written by "
    "node_to_dict, the keys read by as_node and the fields compared (conjunctively) by Node.__eq__; value transforms "
    "checked to be inverse pairs (.hex() / bytes.fromhex); every keyword passed to json.dumps / json.loads is looked up in "
    "the signature of that stdlib callable (and of the class it forwards **kw to); dataflow of the CLI from the bytes "
    "read to the tree printed; shape of string_summary / make_label. json itself is trusted."
)
TRUSTED = ["json.dumps/json.loads", "bytes.hex / bytes.fromhex are inverse", "inspect.signature of stdlib callables (not of repository code)"]


def check(run):
    prog = run.prog
    # the query views (make_label, string_summary) walk parent links: every attached child must point back at its owner (C03's pairing rule)
    from . import common as _common
    _common.delegate(run, "C03", lambda rule, key: rule == "R3-pairing", floor=14)
    # --replace prints squash_replace(data, tree.children): it must substitute exactly what flatten substitutes (C19's tiling cases for it)
    _common.delegate(run, "C19", lambda rule, key: rule == "R-tiling" and "squash_replace" in key, floor=4)
    nm = prog.mod("node")
    jm = prog.mod("json_conversion")
    w = lambda n, m: f"{m.rel}:{getattr(n, 'lineno', 0)}"   # noqa: E731

    # ------------------------------------------------------------------ R1 field agreement
    need("Node" in nm.classes, "anchor: class Node")
    cls = nm.classes["Node"]
    slots = None
    for st in cls.body:
        if isinstance(st, ast.Assign) and common.is_name(st.targets[0], "__slots__"):
            slots = prog.try_fold(nm, st.value)
    need(slots, "anchor: Node.__slots__ is a constant tuple")
    slots = list(slots) if not isinstance(slots, str) else [slots]
    record = [s for s in slots if s != "parent"]
    run.note("record_fields", record)
    # node_to_dict
    n2d = prog.fn("json_conversion.node_to_dict")
    P = n2d.params[0]
    rets = [n for n in own_nodes(n2d.node) if isinstance(n, ast.Return)]
    need(len(rets) == 1, "anchor: node_to_dict has one return")
    d = rets[0].value
    enc = {}
    if isinstance(d, ast.Name):
        # the record built step by step: name = {...} followed by name["key"] = value
        acc = d.id
        for st_ in n2d.node.body:
            tgt_ = st_.targets[0] if isinstance(st_, ast.Assign) and len(st_.targets) == 1 else (st_.target if isinstance(st_, ast.AnnAssign) and st_.value is not None else None)
            if isinstance(tgt_, ast.Name) and tgt_.id == acc and isinstance(st_.value, (ast.Dict, ast.Call)):
                d = st_.value
            elif isinstance(tgt_, ast.Subscript) and common.is_name(tgt_.value, acc):
                enc[prog.try_fold(jm, tgt_.slice)] = st_.value
    if isinstance(d, ast.Dict):
        for k, v in zip(d.keys, d.values):
            enc[prog.try_fold(jm, k)] = v
    elif isinstance(d, ast.Call) and common.is_name(d.func, "dict"):
        for kw in d.keywords:
            enc[kw.arg] = kw.value
    run.ob("R1-fields", "json_conversion.node_to_dict/keys", sorted(enc) == sorted(record), w(rets[0], jm),
           "the encoder writes exactly the record fields (every slot except parent)", f"encoder keys {sorted(map(str, enc))} vs record fields {sorted(record)}",
           mech="set comparison slots vs dict keys")
    transforms = {}
    for k in record:
        v = enc.get(k)
        if v is None:
            continue
        src = norm_src(v)
        if k == "children":
            ok = isinstance(v, ast.ListComp) and len(v.generators) == 1 and common.is_attr(v.generators[0].iter, P, "children") and not v.generators[0].ifs \
                and isinstance(v.elt, ast.Call) and prog.callee(jm, n2d, v.elt).func is n2d and len(v.elt.args) == 1 and \
                common.is_name(v.elt.args[0], v.generators[0].target.id)
            if not ok and isinstance(v, ast.Name):
                # the same list filled by a loop: acc = []; for child in node.children: acc.append(node_to_dict(child))
                inits = [st_ for st_ in n2d.node.body if isinstance(st_, (ast.Assign, ast.AnnAssign)) and common.is_name(st_.targets[0] if isinstance(st_, ast.Assign) else st_.target, v.id)]
                loops_ = [st_ for st_ in n2d.node.body if isinstance(st_, ast.For) and any(isinstance(x, ast.Name) and x.id == v.id for x in ast.walk(st_))]
                other_ = [x for x in own_nodes(n2d.node) if isinstance(x, ast.Call) and isinstance(x.func, ast.Attribute) and common.is_name(x.func.value, v.id) and x.func.attr != "append"]
                if len(inits) == 1 and isinstance(inits[0].value, ast.List) and not inits[0].value.elts and len(loops_) == 1 and not other_:
                    lp_ = loops_[0]
                    b_ = lp_.body
                    ok = common.is_attr(lp_.iter, P, "children") and isinstance(lp_.target, ast.Name) and len(b_) == 1 and isinstance(b_[0], ast.Expr) and \
                        isinstance(b_[0].value, ast.Call) and isinstance(b_[0].value.func, ast.Attribute) and b_[0].value.func.attr == "append" and \
                        common.is_name(b_[0].value.func.value, v.id) and len(b_[0].value.args) == 1 and isinstance(b_[0].value.args[0], ast.Call) and \
                        prog.callee(jm, n2d, b_[0].value.args[0]).func is n2d and len(b_[0].value.args[0].args) == 1 and \
                        common.is_name(b_[0].value.args[0].args[0], lp_.target.id) and not lp_.orelse
            transforms[k] = "recursive"
        elif src == f"{P}.{k}":
            ok = True
            transforms[k] = "identity"
        elif src == f"{P}.{k}.hex()":
            ok = True
            transforms[k] = "hex"
        else:
            ok = False
            transforms[k] = "?"
        run.ob("R1-fields", f"json_conversion.node_to_dict/{k}", ok, w(v, jm), f"key '{k}' holds the node's own .{k}" + (" (hex)" if transforms[k] == "hex" else ""),
               f"'{k}': {src}", mech="key -> same-named attribute")
    # as_node
    asn = prog.fn("json_conversion.as_node")
    need(len(asn.params) >= 2, "anchor: as_node(d, parent)")
    Dd, PAR = asn.params[0], asn.params[1]
    ctor = [n for n in own_nodes(asn.node) if isinstance(n, ast.Call) and prog.is_node_ctor(jm, asn, n)]
    need(len(ctor) == 1, "anchor: one Node(...) in as_node")
    from ..model import bind_node_call
    site = bind_node_call(prog, jm, asn, ctor[0], lambda e: None)
    params = prog.node_class_params()
    pmap = dict(zip(["type", "value", "obfuscation", "start", "end", "parent", "children"], params))
    read = set()

    def key_read(e):
        """d['k'] -> k ; bytes.fromhex(d['k']) -> ('hex', k)"""
        if isinstance(e, ast.Subscript) and common.is_name(e.value, Dd):
            k = prog.try_fold(jm, e.slice)
            return ("identity", k)
        if isinstance(e, ast.Call) and norm_src(e.func) == "bytes.fromhex" and len(e.args) == 1:
            k = key_read(e.args[0])
            if k and k[0] == "identity":
                return ("hex", k[1])
        return None
    for fld in ("type", "value", "obfuscation", "start", "end"):
        a = site.args.get(pmap[fld])
        kr = key_read(a) if isinstance(a, ast.AST) else None
        ok = kr is not None and kr[1] == fld and kr[0] == transforms.get(fld, "identity")
        if kr:
            read.add(kr[1])
        run.ob("R1-fields", f"json_conversion.as_node/{fld}", ok, w(ctor[0], jm),
               f"the decoder rebuilds .{fld} from key '{fld}' with the inverse transform",
               f"{pmap[fld]} = {norm_src(a) if isinstance(a, ast.AST) else a}; encoder transform is {transforms.get(fld)}", mech="writer/reader agreement")
    a = site.args.get(pmap["parent"])
    run.ob("R1-fields", "json_conversion.as_node/parent", isinstance(a, ast.AST) and common.is_name(a, PAR), w(ctor[0], jm),
           "the decoded node's parent is the node being rebuilt one level up", f"parent = {norm_src(a) if isinstance(a, ast.AST) else a}", mech="argument identity")
    # children: node.children = [as_node(child, node) for child in d['children']]  (or children= argument)
    ok_ch = False
    st_node = common.enclosing_stmt(ctor[0])
    NV = st_node.targets[0].id if isinstance(st_node, ast.Assign) and isinstance(st_node.targets[0], ast.Name) else None
    for n in own_nodes(asn.node):
        if isinstance(n, ast.Assign) and NV and common.is_attr(n.targets[0], NV, "children") and isinstance(n.value, ast.ListComp):
            lc = n.value
            g = lc.generators[0]
            kr = key_read(g.iter)
            if kr == ("identity", "children") and not g.ifs and isinstance(lc.elt, ast.Call) and prog.callee(jm, asn, lc.elt).func is asn:
                args = lc.elt.args + [k.value for k in lc.elt.keywords]
                if len(args) == 2 and common.is_name(args[0], g.target.id) and common.is_name(args[1], NV):
                    ok_ch = True
                    read.add("children")
    if not ok_ch and NV:
        # the same rebuilt in place: for c in d['children']: node.children.append(as_node(c, node))
        for n in asn.node.body:
            if isinstance(n, ast.For) and key_read(n.iter) == ("identity", "children") and isinstance(n.target, ast.Name) and len(n.body) == 1 and not n.orelse and \
                    isinstance(n.body[0], ast.Expr) and isinstance(n.body[0].value, ast.Call) and norm_src(n.body[0].value.func) == f"{NV}.children.append" and \
                    len(n.body[0].value.args) == 1 and isinstance(n.body[0].value.args[0], ast.Call) and prog.callee(jm, asn, n.body[0].value.args[0]).func is asn:
                c_ = n.body[0].value.args[0]
                args_ = c_.args + [k_.value for k_ in c_.keywords]
                if len(args_) == 2 and common.is_name(args_[0], n.target.id) and common.is_name(args_[1], NV):
                    ok_ch = True
                    read.add("children")
    run.ob("R1-fields", "json_conversion.as_node/children", ok_ch, w(asn.node, jm),
           "children are rebuilt recursively from key 'children', in order, each with the new node as parent",
           "no `node.children = [as_node(child, node) for child in d['children']]`", mech="comprehension shape")
    retn = [n for n in own_nodes(asn.node) if isinstance(n, ast.Return)]
    run.ob("R1-fields", "json_conversion.as_node/returns-node", bool(retn) and all(common.is_name(r.value, NV) for r in retn), w(asn.node, jm),
           "as_node returns the node it built", "", mech="return-shape match")
    run.ob("R1-fields", "json_conversion.as_node/keys", read == set(record), w(asn.node, jm), "the decoder reads exactly the record fields",
           f"decoder reads {sorted(read)} vs record fields {sorted(record)}", mech="set comparison")
    # __eq__
    eq = prog.fn("node.Node.__eq__")
    S, O = eq.params[0], eq.params[1]
    retn = [n for n in own_nodes(eq.node) if isinstance(n, ast.Return)]
    need(len(retn) == 1, "anchor: Node.__eq__ has one return")
    e = retn[0].value
    compared = set()
    conj_ok = True
    isinst = False
    parts = e.values if isinstance(e, ast.BoolOp) and isinstance(e.op, ast.And) else [e]
    if isinstance(e, ast.BoolOp) and isinstance(e.op, ast.Or):
        conj_ok = False
    for p in parts:
        if isinstance(p, ast.Call) and common.is_name(p.func, "isinstance") and common.is_name(p.args[0], O):
            isinst = True
        elif isinstance(p, ast.Compare) and len(p.ops) == 1 and isinstance(p.ops[0], ast.Eq):
            l, r = p.left, p.comparators[0]
            if isinstance(l, ast.Tuple) and isinstance(r, ast.Tuple) and len(l.elts) == len(r.elts):
                pairs = list(zip(l.elts, r.elts))
            else:
                pairs = [(l, r)]
            for x, y in pairs:
                if isinstance(x, ast.Attribute) and isinstance(y, ast.Attribute) and x.attr == y.attr and \
                        {norm_src(x.value), norm_src(y.value)} == {S, O}:
                    compared.add(x.attr)
                else:
                    conj_ok = False
        elif isinstance(p, ast.BoolOp):
            conj_ok = False
        else:
            conj_ok = False
    run.ob("R1-fields", "node.Node.__eq__/fields", compared == set(record), w(eq.node, nm),
           "equality compares exactly the record fields (a difference in any field of any descendant makes trees unequal)",
           f"__eq__ compares {sorted(compared)} vs record fields {sorted(record)}", mech="set comparison")
    run.ob("R1-fields", "node.Node.__eq__/conjunction", conj_ok and isinst, w(eq.node, nm),
           "equality is the conjunction of isinstance(other, Node) and the per-field equalities",
           f"`{common.short_src(e, 160)}`", mech="formula shape")
    # __init__ stores
    from .. import noderules
    noderules.check_init_pairing(run, "R1-fields")

    # NodeEncoder / tree_to_json / json_to_tree
    t2j = prog.fn("json_conversion.tree_to_json")
    j2t = prog.fn("json_conversion.json_to_tree")
    need("NodeEncoder" in jm.classes, "anchor: class NodeEncoder")
    ne = jm.funcs.get("NodeEncoder.default")
    need(ne is not None, "anchor: NodeEncoder.default")
    # every return of default(): node_to_dict(node) exactly when isinstance(node, Node), the base class's default otherwise
    ok_ne = False
    azn = G.Atomizer(rename={ne.params[1]: "OBJ"})
    isnode = azn.formula(common.spec_expr("isinstance(OBJ, Node)"))
    f_n2d, f_other = [], []
    for r_ in own_nodes(ne.node):
        if isinstance(r_, ast.Return) and r_.value is not None:
            pc_ = G.reach(ne.body, r_, azn)
            for c_, leaf in common.split_ifexp(r_.value, azn):
                is_n2d = isinstance(leaf, ast.Call) and prog.callee(jm, ne, leaf).func is n2d and len(leaf.args) == 1 and common.is_name(leaf.args[0], ne.params[1])
                (f_n2d if is_n2d else f_other).append(G.f_and(pc_ if pc_ is not None else G.F, c_))
    if f_n2d:
        ok_ne = G.equivalent(G.f_or(*f_n2d), isnode)[0] and (not f_other or G.equivalent(G.f_or(*f_other), G.f_not(isnode))[0])
    base_ok = any(prog.dotted(jm, b) == "json.JSONEncoder" for b in jm.classes["NodeEncoder"].bases)
    run.ob("R2-json-api", "json_conversion.NodeEncoder.default", ok_ne and base_ok, w(ne.node, jm),
           "NodeEncoder (a json.JSONEncoder) encodes a Node as node_to_dict(node)", "default() does not return node_to_dict(node) for Node instances",
           mech="method shape")
    sig_checks = 0
    for fi, target in ((t2j, "json.dumps"), (j2t, "json.loads")):
        calls = [n for n in own_nodes(fi.node) if isinstance(n, ast.Call) and prog.dotted(jm, n.func) == target]
        run.ob("R2-json-api", f"{fi.fq}/calls-{target}", len(calls) == 1, w(fi.node, jm), f"{fi.qualname} goes through {target}",
               f"{len(calls)} call(s) of {target}", mech="call census")
        for c in calls:
            std = getattr(json, target.split(".")[1])
            sig = inspect.signature(std)
            names = {p.name for p in sig.parameters.values() if p.kind in (p.POSITIONAL_OR_KEYWORD, p.KEYWORD_ONLY)}
            fwd = any(p.kind == p.VAR_KEYWORD for p in sig.parameters.values())
            fwd_names = set()
            if fwd:
                klass = json.JSONEncoder if target == "json.dumps" else json.JSONDecoder
                fwd_names = {p.name for p in inspect.signature(klass.__init__).parameters.values() if p.kind in (p.POSITIONAL_OR_KEYWORD, p.KEYWORD_ONLY)} - {"self"}
            for kw in c.keywords:
                if kw.arg is None:
                    continue
                sig_checks += 1
                ok = kw.arg in names or kw.arg in fwd_names
                run.ob("R2-json-api", f"{fi.fq}/{target}-keyword-{kw.arg}", ok, w(c, jm),
                       f"keyword `{kw.arg}` exists in the signature of {target} (or of the class it forwards **kw to)",
                       f"{target}() accepts {sorted(names)} and forwards the rest to a constructor accepting {sorted(fwd_names)}: "
                       f"`{kw.arg}=` raises TypeError on every call", mech="inspect.signature of the stdlib callable")
    # tree_to_json: json.dumps(tree, cls=NodeEncoder)
    c = [n for n in own_nodes(t2j.node) if isinstance(n, ast.Call) and prog.dotted(jm, n.func) == "json.dumps"]
    ok_t = bool(c) and c[0].args and common.is_name(c[0].args[0], t2j.params[0]) and any(k.arg == "cls" and common.is_name(k.value, "NodeEncoder") for k in c[0].keywords)
    rt = [n for n in own_nodes(t2j.node) if isinstance(n, ast.Return)]
    ok_t = ok_t and len(rt) == 1 and rt[0].value is c[0]
    run.ob("R2-json-api", "json_conversion.tree_to_json/shape", ok_t, w(t2j.node, jm), "tree_to_json returns json.dumps(tree, cls=NodeEncoder, ...)",
           "", mech="call-shape match")
    # json_to_tree: as_node(json.loads(serialized, ...))
    rt = [n for n in own_nodes(j2t.node) if isinstance(n, ast.Return)]
    ok_j = False
    det = ""
    if len(rt) == 1:
        envj = common.block_env(j2t.body, rt[0]) or {}
        v = G.Atomizer(subst={k: x for k, x in envj.items() if k not in j2t.params}).inline(rt[0].value) if envj else rt[0].value
        if v is not rt[0].value:
            # inlined copy: resolve the callee on the original call node
            v_call = rt[0].value
        det = f"returns `{common.short_src(v)}`"
        if isinstance(v, ast.Call) and prog.callee(jm, j2t, rt[0].value).func is asn and len(v.args) == 1 and isinstance(v.args[0], ast.Call) and \
                prog.dotted(jm, v.args[0].func) == "json.loads" and v.args[0].args and common.is_name(v.args[0].args[0], j2t.params[0]) and \
                not any(k.arg in ("object_hook", "object_pairs_hook", "cls") for k in v.args[0].keywords):
            ok_j = True
    run.ob("R2-json-api", "json_conversion.json_to_tree/shape", ok_j, w(j2t.node, jm),
           "json_to_tree returns as_node(json.loads(serialized)): a Node with parent links, built top-down",
           det + " (an object_hook would see the children before their parent and hand as_node Nodes instead of dicts)", mech="call-shape match")

    # ------------------------------------------------------------------ R3 CLI dataflow
    mn = prog.fn("__main__.main")
    mm = mn.module
    md_cls = f"multidecoder.multidecoder.Multidecoder"
    stores = {}
    for n in own_nodes(mn.node):
        if isinstance(n, ast.Assign) and isinstance(n.targets[0], ast.Name):
            stores.setdefault(n.targets[0].id, []).append(n)
    # data: f.read() under open(..., 'rb') or sys.stdin.buffer.read()
    data_srcs = []
    DATA = None
    for name, sts in stores.items():
        kinds = []
        for st in sts:
            v = st.value
            if isinstance(v, ast.Call) and isinstance(v.func, ast.Attribute) and v.func.attr == "read":
                base = v.func.value
                if prog.dotted(mm, base) == "sys.stdin.buffer":
                    kinds.append("stdin.buffer")
                elif isinstance(base, ast.Name):
                    # with open(path, 'rb') as f
                    for p in common.parents(st):
                        if isinstance(p, ast.With):
                            for it in p.items:
                                if isinstance(it.optional_vars, ast.Name) and it.optional_vars.id == base.id and isinstance(it.context_expr, ast.Call) \
                                        and common.is_name(it.context_expr.func, "open"):
                                    mode = it.context_expr.args[1] if len(it.context_expr.args) > 1 else next((k.value for k in it.context_expr.keywords if k.arg == "mode"), None)
                                    kinds.append("file:" + str(prog.try_fold(mm, mode) if mode is not None else "r"))
                    if not kinds or not kinds[-1].startswith("file:"):
                        kinds.append("file:?")
        if kinds:
            DATA = name
            data_srcs = kinds
    run.ob("R3-cli", "__main__.main/input-bytes", DATA is not None and sorted(data_srcs) == ["file:rb", "stdin.buffer"], w(mn.node, mm),
           "the CLI scans the raw bytes of the file (binary mode) or of standard input (sys.stdin.buffer)", f"data sources: {data_srcs}",
           mech="reaching definitions of the scanned variable")
    # nothing edits the bytes between reading and scanning: every store to DATA is one of the reads above
    if DATA is not None:
        other = [st_ for st_ in stores.get(DATA, []) if not (isinstance(st_.value, ast.Call) and isinstance(st_.value.func, ast.Attribute) and st_.value.func.attr == "read")]
        other += [n for n in own_nodes(mn.node) if isinstance(n, (ast.AugAssign, ast.AnnAssign)) and common.is_name(n.target, DATA)]
        other += [n for n in own_nodes(mn.node) if isinstance(n, ast.Assign) and any(isinstance(t, (ast.Tuple, ast.List)) and any(common.is_name(e, DATA) for e in t.elts) for t in n.targets)]
        run.ob("R3-cli", "__main__.main/input-unmodified", not other, w(other[0], mm) if other else w(mn.node, mm),
               "the bytes that are scanned are exactly the bytes that were read (nothing trims, decodes or rewrites them first)",
               f"`{common.short_src(other[0], 80)}` rewrites the input before the scan" if other else "", mech="store census of the scanned variable")
    # tree = Multidecoder(decoders).scan(data)
    TREE = None
    ok_scan = False
    for name, sts in stores.items():
        for st in sts:
            v = st.value
            if isinstance(v, ast.Call) and isinstance(v.func, ast.Attribute) and v.func.attr == "scan" and len(v.args) == 1 and not v.keywords \
                    and common.is_name(v.args[0], DATA):
                recv = v.func.value
                if isinstance(recv, ast.Name) and len(stores.get(recv.id, [])) == 1:
                    recv = stores[recv.id][0].value
                c0 = prog.callee(mm, mn, recv) if isinstance(recv, ast.Call) else None
                if c0 is not None and c0.kind == "class" and c0.cls == md_cls:
                    TREE = name
                    ok_scan = len(sts) == 1
    run.ob("R3-cli", "__main__.main/tree-is-library-scan", ok_scan, w(mn.node, mm),
           "the tree the CLI reports is Multidecoder(...).scan(<those bytes>) with the default depth", "no `tree = Multidecoder(decoders).scan(data)`",
           mech="call-shape + dataflow")
    # outputs
    t2j_calls = [n for n in own_nodes(mn.node) if isinstance(n, ast.Call) and prog.callee(mm, mn, n).func is t2j]
    ok_json = len(t2j_calls) == 1 and len(t2j_calls[0].args) == 1 and common.is_name(t2j_calls[0].args[0], TREE) and \
        isinstance(getattr(t2j_calls[0], "_parent", None), ast.Call) and common.is_name(t2j_calls[0]._parent.func, "print")
    az = G.Atomizer()
    if t2j_calls:
        pc = G.reach(mn.body, common.enclosing_stmt(t2j_calls[0]), az)
        ok_json = ok_json and any(a == ("atom", "truthy:args.json") for a in G.atoms_of(pc)) and G.implies(pc, ("atom", "truthy:args.json"))[0]
    run.ob("R3-cli", "__main__.main/--json", ok_json, w(t2j_calls[0], mm) if t2j_calls else w(mn.node, mm),
           "--json prints tree_to_json(tree) of the whole tree", "", mech="call-shape + reaching condition")
    ss = prog.fn("query.string_summary")
    ss_calls = [n for n in own_nodes(mn.node) if isinstance(n, ast.Call) and prog.callee(mm, mn, n).func is ss]
    ok_def = False
    if len(ss_calls) == 1 and len(ss_calls[0].args) == 1 and common.is_name(ss_calls[0].args[0], TREE):
        par = getattr(ss_calls[0], "_parent", None)
        if isinstance(par, ast.For) and par.iter is ss_calls[0] and isinstance(par.target, ast.Name) and len(par.body) == 1:
            b = par.body[0]
            ok_def = isinstance(b, ast.Expr) and isinstance(b.value, ast.Call) and common.is_name(b.value.func, "print") and \
                len(b.value.args) == 1 and common.is_name(b.value.args[0], par.target.id) and not b.value.keywords
    run.ob("R3-cli", "__main__.main/default-output", ok_def, w(ss_calls[0], mm) if ss_calls else w(mn.node, mm),
           "the default mode prints each element of string_summary(tree) once, one per line", "", mech="loop-shape match")
    sq = prog.fn("query.squash_replace")
    sq_calls = [n for n in own_nodes(mn.node) if isinstance(n, ast.Call) and prog.callee(mm, mn, n).func is sq]
    ok_rep = len(sq_calls) == 1 and len(sq_calls[0].args) == 2 and common.is_name(sq_calls[0].args[0], DATA) and common.is_attr(sq_calls[0].args[1], TREE, "children") \
        and isinstance(getattr(sq_calls[0], "_parent", None), ast.Call) and norm_src(sq_calls[0]._parent.func) == "sys.stdout.buffer.write"
    run.ob("R4-replace", "__main__.main/--replace", ok_rep, w(sq_calls[0], mm) if sq_calls else w(mn.node, mm),
           "--replace writes squash_replace(data, tree.children) to the binary stdout", "", mech="call-shape match")
    # string_summary / make_label
    qm = prog.mod("query")
    rt = [n for n in own_nodes(ss.node) if isinstance(n, ast.Return)]
    ok_ss = False
    ml = prog.fn("query.make_label")
    if len(rt) == 1 and isinstance(rt[0].value, ast.ListComp):
        lc = rt[0].value
        g = lc.generators[0]
        if len(lc.generators) == 1 and common.is_name(g.iter, ss.params[0]) and not g.ifs and isinstance(g.target, ast.Name):
            v = g.target.id
            ok_ss = norm_src(lc.elt) == f"make_label({v}) + ' ' + repr({v}.value)[2:-1]" and prog.resolve_func_name(qm, "make_label", ss).func is ml
    run.ob("R3-cli", "query.string_summary/line-shape", ok_ss, w(ss.node, qm),
           "one line per node in iteration (pre-)order: make_label(node) + ' ' + repr(value) without the b'' quoting", "", mech="comprehension shape")
    # make_label: walk to the root collecting type and '>'+obfuscation, reversed, joined by '/'
    ML = ml.params[0]
    wl = [n for n in ml.node.body if isinstance(n, ast.While)]
    ok_ml = False
    if len(wl) == 1 and common.is_name(wl[0].test, ML):
        body = wl[0].body
        adv = body[-1]
        ok_adv = isinstance(adv, ast.Assign) and common.is_name(adv.targets[0], ML) and common.is_attr(adv.value, ML, "parent")
        apps = [n for st in body for n in ast.walk(st) if isinstance(n, ast.Call) and isinstance(n.func, ast.Attribute) and n.func.attr == "append"]
        srcs = [norm_src(a.args[0]) for a in apps]
        ok_apps = srcs == [f"{ML}.type", f"'>' + {ML}.obfuscation"]
        guards_ok = True
        for a_, cond in zip(apps, (f"{ML}.type", f"{ML}.obfuscation")):
            pc = G.reach(body, common.enclosing_stmt(a_), az)
            guards_ok = guards_ok and G.equivalent(pc, ("atom", "truthy:" + cond))[0]
        rtm = [n for n in own_nodes(ml.node) if isinstance(n, ast.Return)]
        LST = norm_src(apps[0].func.value) if apps else None
        # leaf-to-root collection, joined root-to-leaf: '/'.join(lst[::-1]) / '/'.join(reversed(lst)) / lst.reverse() then '/'.join(lst)
        rev_stmt = any(isinstance(st_, ast.Expr) and norm_src(st_.value) == f"{LST}.reverse()" for st_ in ml.node.body)
        ret_src = norm_src(rtm[0].value) if len(rtm) == 1 and rtm[0].value is not None else ""
        ok_ret = ret_src in (f"'/'.join({LST}[::-1])", f"'/'.join(reversed({LST}))", f"'/'.join(list(reversed({LST})))") or (rev_stmt and ret_src == f"'/'.join({LST})")
        ok_ml = ok_adv and ok_apps and guards_ok and ok_ret
    run.ob("R3-cli", "query.make_label/ancestor-chain", ok_ml, w(ml.node, qm),
           "a label is the root-to-node chain of non-empty types and '>'-prefixed obfuscations joined by '/'", "", mech="loop-shape match")
    from .. import noderules
    noderules.check_iter_preorder(run, "R3-cli")
    run.floor("R1-fields", 20)
    run.floor("R2-json-api", 6)
    run.floor("R3-cli", 6)
