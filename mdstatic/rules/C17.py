"""C17 - keyword search reports exactly the delimited, case-insensitive occurrences."""
from __future__ import annotations

import ast

from spec import guards as SPEC

from .. import guards as G
from ..core import norm_src
from ..lin import Lin, lin_of_ast
from ..model import bind_node_call, need, own_nodes
from . import common

EXPLANATION = (
    "Static analysis of keyword.find_all / find_keywords / is_mixed_case: the boundary guard is compared by truth table "
    "(with integer theory for the start == 0 / end == len(data) atoms) with the formula transcribed from the statement; "
    "the search loop is matched against the find-advance template (first search from 0, advance by len(keyword), "
    "every path advances, empty keyword rejected); the Node constructor's arguments are bound through Node.__init__'s "
    "signature and their provenance checked (type = list name, value = listed keyword, span = occurrence in the "
    "un-lowered data); the MixedCase guard is compared by truth table per byte. bytes.find/lower/isalnum are trusted."
)
TRUSTED = ["bytes.find / bytes.lower / bytes.isalnum / bytes.isupper / bytes.islower (ASCII semantics)"]


def check(run):
    prog = run.prog
    from . import common as _common
    _common.fresh_hits(run, "C17")
    km = prog.mod("keyword")
    fa = prog.fn("keyword.find_all")
    fk = prog.fn("keyword.find_keywords")
    mc = prog.fn("keyword.is_mixed_case")
    run.note("functions", [fa.fq, fk.fq, mc.fq])
    w = lambda n: f"{km.rel}:{getattr(n, 'lineno', 0)}"   # noqa: E731

    # ------------------------------------------------------------------ find_all
    need(len(fa.params) == 2, "anchor: find_all(keyword, data)")
    KW, DATA = fa.params
    loops = [n for n in fa.node.body if isinstance(n, ast.While)]
    need(len(loops) == 1, "anchor: find_all has one while loop")
    loop = loops[0]
    # START: the variable tested by the loop condition
    names = [x.id for x in ast.walk(loop.test) if isinstance(x, ast.Name)]
    need(len(set(names)) == 1, "anchor: find_all loop condition mentions one variable")
    START = names[0]
    az0 = G.Atomizer(is_int=lambda e: True)
    f = az0.formula(loop.test)
    want = az0.formula(common.spec_expr(f"{START} >= 0"))
    # START only ever holds the result of a find() (>= -1): `!= -1` and `> -1` are other spellings of `>= 0`
    st_stores = [x for x in own_nodes(fa.node) if isinstance(x, ast.Assign) and len(x.targets) == 1 and common.is_name(x.targets[0], START)]
    find_only = bool(st_stores) and all(isinstance(x.value, ast.Call) and isinstance(x.value.func, ast.Attribute) and x.value.func.attr == "find" for x in st_stores)
    ok, _ = G.equivalent(f, want, assuming=az0.formula(common.spec_expr(f"{START} >= -1")) if find_only else G.T)
    run.ob("R3-advance", "keyword.find_all/loop-condition", ok, w(loop), "the search continues exactly while an occurrence was found (start >= 0)",
           f"loop condition is `{norm_src(loop.test)}`", mech="truth table with integer theory")
    # R6 empty keyword guard before the loop
    pre = fa.node.body[: fa.node.body.index(loop)]
    okg = False
    for st in pre:
        if isinstance(st, ast.If) and len(st.body) == 1 and isinstance(st.body[0], ast.Return):
            t = st.test
            empt = (isinstance(t, ast.UnaryOp) and isinstance(t.op, ast.Not) and common.is_name(t.operand, KW)) or \
                norm_src(t) in (f"len({KW}) == 0", f"{KW} == b''", f"not len({KW})")
            rv = st.body[0].value
            if isinstance(rv, ast.Name):
                rv = (common.block_env(fa.node.body, st) or {}).get(rv.id, rv)      # `starts = []` ... `return starts`
            if empt and isinstance(rv, (ast.List, ast.Tuple)) and not rv.elts:
                okg = True
    run.ob("R6-empty-keyword", "keyword.find_all/empty-keyword-guard", okg, w(fa.node), "an empty keyword yields no hits (and the loop always advances by >= 1)",
           "no `if not keyword: return []` before the search loop: the advance start + len(keyword) would not move", mech="guard match")
    # first search: START = DATA.find(KW) (from 0)
    first = [st for st in pre if isinstance(st, ast.Assign) and common.is_name(st.targets[0], START)]
    okf = False
    det = "no initial search"
    if len(first) == 1:
        v = first[0].value
        det = f"`{norm_src(v)}`"
        if isinstance(v, ast.Call) and isinstance(v.func, ast.Attribute) and v.func.attr == "find" and common.is_name(v.func.value, DATA) \
                and v.args and common.is_name(v.args[0], KW) and not v.keywords:
            okf = len(v.args) == 1 or (len(v.args) == 2 and isinstance(v.args[1], ast.Constant) and v.args[1].value == 0)
    run.ob("R3-advance", "keyword.find_all/first-search", okf, w(first[0]) if first else w(fa.node),
           "the first search is data.find(keyword) from offset 0 (leftmost occurrence)", det, mech="call-shape match")
    # advance: on every path through the body, the last store to START is DATA.find(KW, START + len(KW))
    adv = [st for st in loop.body if isinstance(st, ast.Assign) and common.is_name(st.targets[0], START)]
    oka = False
    det = f"{len(adv)} top-level assignment(s) to {START} in the loop body"
    nested = [n for st in loop.body for n in ast.walk(st) if isinstance(n, ast.Name) and n.id == START and isinstance(n.ctx, ast.Store)]
    if len(adv) == 1 and len(nested) == 1 and loop.body[-1] is adv[0] and not any(isinstance(n, (ast.Continue, ast.Break)) for st in loop.body for n in ast.walk(st)):
        v = adv[0].value
        det = f"`{norm_src(v)}`"
        if isinstance(v, ast.Call) and isinstance(v.func, ast.Attribute) and v.func.attr == "find" and common.is_name(v.func.value, DATA) \
                and len(v.args) == 2 and common.is_name(v.args[0], KW) and not v.keywords:
            env = common.block_env(fa.body, adv[0]) or {}
            azl = G.Atomizer(subst=env)
            lf = lin_of_ast(azl.inline(v.args[1]), lambda x: Lin.sym(norm_src(x)))
            oka = lf is not None and lf == Lin.sym(START) + Lin.sym(f"len({KW})")
            det += f" (offset = {lf})"
    run.ob("R3-advance", "keyword.find_all/advance", oka, w(adv[0]) if adv else w(loop),
           "every iteration ends by searching again from start + len(keyword) (non-overlapping, leftmost)", det, mech="linear form of the find offset")
    # R1 boundary guard on the append
    apps = [n for n in ast.walk(loop) if isinstance(n, ast.Call) and isinstance(n.func, ast.Attribute) and n.func.attr == "append"]
    need(len(apps) == 1, "anchor: one append in find_all's loop")
    app = apps[0]
    OUT = norm_src(app.func.value)
    env = common.block_env(fa.body, common.enclosing_stmt(app)) or {}

    def is_int(e):
        s = norm_src(e)
        return "isalnum" not in s
    az = G.Atomizer(rename={START: "START", DATA: "DATA", KW: "KW"}, subst=env, is_int=is_int)
    pc = G.reach(loop.body, common.enclosing_stmt(app), az)
    spec_az = G.Atomizer(subst={"END": common.spec_expr("START + len(KW)")}, is_int=is_int)
    spec = spec_az.formula(common.spec_expr(SPEC.C17_BOUNDARY))
    # inside the loop START is a find() result: 0 <= START and START + len(KW) <= len(DATA)
    # ... and a slice that starts at or beyond the end of the data (or ends at 0) is empty, so its isalnum() is False
    facts = spec_az.formula(common.spec_expr(
        "START >= 0 and START + len(KW) <= len(DATA) and len(KW) >= 1 and START + len(KW) >= 1 and START - 1 >= -1 and START < len(DATA) and (START > 0 or not DATA[START - 1:START].isalnum()) and "
        "(START + len(KW) < len(DATA) or not DATA[START + len(KW):START + len(KW) + 1].isalnum())"))
    ok, cm = G.equivalent(pc, spec, assuming=facts)
    run.ob("R1-boundary", "keyword.find_all/boundary-guard", ok, w(app),
           "an occurrence is reported iff (start == 0 or byte before is not alnum) and (end == len(data) or byte after is not alnum)",
           f"guard is {G.show(pc)}; differs from the statement at {G.show_model(cm) if cm else ''}", mech="truth table with integer theory")
    okv = len(app.args) == 1 and common.is_name(app.args[0], START)
    run.ob("R1-boundary", "keyword.find_all/appends-start", okv, w(app), "the reported position is the occurrence's start",
           f"appends `{norm_src(app.args[0]) if app.args else ''}`", mech="argument identity")
    in_guard = {id(n) for st in pre if isinstance(st, ast.If) for n in ast.walk(st)}
    rets = [n for n in own_nodes(fa.node) if isinstance(n, ast.Return) and n.value is not None and not (isinstance(n.value, ast.List) and not n.value.elts) and id(n) not in in_guard]
    okr = len(rets) == 1 and norm_src(rets[0].value) == OUT
    run.ob("R1-boundary", "keyword.find_all/returns-all", okr, w(rets[0]) if rets else w(fa.node), "find_all returns the collected list unchanged",
           f"returns `{norm_src(rets[0].value) if rets else None}`", mech="return-shape match")

    # ------------------------------------------------------------------ find_keywords
    need(len(fk.params) == 3, "anchor: find_keywords(label, keywords, data)")
    LABEL, KWS, D2 = fk.params
    sites = [n for n in own_nodes(fk.node) if isinstance(n, ast.Call) and prog.is_node_ctor(km, fk, n)]
    need(len(sites) == 1, "anchor: one Node(...) in find_keywords")
    site = bind_node_call(prog, km, fk, sites[0], lambda e: None)
    # the iteration structure around the Node(...): a two-level comprehension or two nested for loops
    levels = []       # innermost first: (target name, iterable)
    comp = None
    for p in common.parents(sites[0]):
        if isinstance(p, (ast.ListComp, ast.GeneratorExp)):
            comp = comp or p
            for g in reversed(p.generators):
                levels.append((g.target.id if isinstance(g.target, ast.Name) else None, g.iter, len(g.ifs)))
        elif isinstance(p, ast.For):
            comp = comp or p
            levels.append((p.target.id if isinstance(p.target, ast.Name) else None, p.iter, 0))
        elif isinstance(p, ast.If):
            levels.append((None, None, 1))      # a filter around the construction
    filters = sum(x[2] for x in levels)
    levels = [x for x in levels if x[1] is not None]
    need(len(levels) == 2 and all(x[0] for x in levels), "anchor: find_keywords builds hits in two nested iterations (keywords, then occurrences)")
    (S, st_iter, _f1), (K, kw_iter, _f2) = levels
    g_st_iter = st_iter
    run.ob("R4-roles", "keyword.find_keywords/iterates-keywords", common.is_name(kw_iter, KWS) and filters == 0, w(comp),
           "every listed keyword is searched, nothing is filtered", f"outer iteration `{norm_src(kw_iter)}` filters={filters}",
           mech="iteration structure")
    # R2 both operands lowered
    env2 = common.block_env(fk.node.body, common.enclosing_stmt(sites[0]), unpack=True) or {}
    env2 = {k: v for k, v in env2.items() if k not in (K, S)}
    call = g_st_iter
    if isinstance(call, ast.Name):
        # occurrences through a temporary: starts = find_all(...); for start in starts
        defs_ = [n.value for n in own_nodes(fk.node) if isinstance(n, ast.Assign) and len(n.targets) == 1 and common.is_name(n.targets[0], call.id)]
        if len(defs_) == 1:
            call = defs_[0]
    ok2 = False
    det = f"`{norm_src(call)}`"
    if isinstance(call, ast.Call) and prog.callee(km, fk, call).func is fa and len(call.args) == 2:
        a0 = norm_src(G.Atomizer(subst=env2).inline(call.args[0]))
        a1 = norm_src(G.Atomizer(subst=env2).inline(call.args[1]))
        ok2 = a0 == f"{K}.lower()" and a1 == f"{D2}.lower()"
        det = f"find_all({a0}, {a1})"
    run.ob("R2-lowering", "keyword.find_keywords/both-lowered", ok2, w(comp),
           "the search compares keyword.lower() with data.lower() (case-insensitive on both sides, same data the spans index)", det,
           mech="argument provenance")
    inl = G.Atomizer(subst=env2)
    a = {k: (inl.inline(v) if isinstance(v, ast.AST) else v) for k, v in site.args.items()}
    run.ob("R4-roles", "keyword.find_keywords/type-is-label", common.is_name(a["type_"] if "type_" in a else a[prog.node_class_params()[0]], LABEL), w(sites[0]),
           "the hit's type is the keyword list's name", f"type = `{norm_src(a[prog.node_class_params()[0]])}`", mech="constructor binding")
    run.ob("R4-roles", "keyword.find_keywords/value-is-listed-keyword", common.is_name(a["value"], K), w(sites[0]),
           "the hit's value is the keyword as listed (not lowered, not the matched text)", f"value = `{norm_src(a['value'])}`", mech="constructor binding")
    run.ob("R4-roles", "keyword.find_keywords/span-start", common.is_name(a["start"], S), w(sites[0]), "span start is the occurrence position",
           f"start = `{norm_src(a['start'])}`", mech="constructor binding")
    lf = lin_of_ast(a["end"], lambda x: Lin.sym(norm_src(x))) if isinstance(a["end"], ast.AST) else None
    run.ob("R4-roles", "keyword.find_keywords/span-end", lf is not None and lf == Lin.sym(S) + Lin.sym(f"len({K})"), w(sites[0]),
           "span end is start + len(keyword)", f"end = {lf}", mech="linear form")
    # R5 MixedCase
    ob = a["obfuscation"]
    okm = False
    det = f"`{norm_src(ob)}`" if isinstance(ob, ast.AST) else str(ob)
    if isinstance(ob, ast.IfExp) and isinstance(ob.test, ast.Call) and prog.callee(km, fk, ob.test).func is mc:
        lab = prog.try_fold(km, ob.body)
        emp = prog.try_fold(km, ob.orelse)
        args = ob.test.args
        raw_ok = False
        if len(args) == 2 and common.is_name(args[0], K) and isinstance(args[1], ast.Subscript) and common.is_name(args[1].value, D2) \
                and isinstance(args[1].slice, ast.Slice) and args[1].slice.lower is not None and args[1].slice.upper is not None:
            lo = lin_of_ast(args[1].slice.lower, lambda x: Lin.sym(norm_src(x)))
            hi = lin_of_ast(args[1].slice.upper, lambda x: Lin.sym(norm_src(x)))
            raw_ok = lo == Lin.sym(S) and hi == Lin.sym(S) + Lin.sym(f"len({K})")
        okm = lab == "MixedCase" and emp == "" and raw_ok
        det = f"label={lab!r} else={emp!r} raw-slice-ok={raw_ok}"
    run.ob("R5-mixedcase", "keyword.find_keywords/mixedcase-call", okm, w(sites[0]),
           "the label is MixedCase iff is_mixed_case(listed keyword, slice of the original data at the span)", det, mech="call-shape + constant folding")
    # is_mixed_case body
    need(len(mc.params) == 2, "anchor: is_mixed_case(value, raw)")
    VAL, RAW = mc.params
    body = mc.node.body
    body = [s for s in body if not (isinstance(s, ast.Expr) and isinstance(s.value, ast.Constant))]
    ok_pre = ok_loop = ok_tail = False
    det = ""
    azm = G.Atomizer(rename={RAW: "RAW", VAL: "KWV"})
    if len(body) == 3 and isinstance(body[0], ast.If) and isinstance(body[1], ast.For) and isinstance(body[2], ast.Return):
        i0, lp, rt = body
        if len(i0.body) == 1 and isinstance(i0.body[0], ast.Return) and prog.try_fold(km, i0.body[0].value) is False and not i0.orelse:
            ok_pre, _ = G.equivalent(azm.formula(i0.test), azm.formula(common.spec_expr(SPEC.C17_MIXED_PRE)))
        # for a, b in zip(X, Y)
        if isinstance(lp.iter, ast.Call) and common.is_name(lp.iter.func, "zip") and len(lp.iter.args) == 2 and isinstance(lp.target, ast.Tuple):
            t0, t1 = (x.id for x in lp.target.elts)
            ren = {}
            for tv, arg in ((t0, lp.iter.args[0]), (t1, lp.iter.args[1])):
                if common.is_name(arg, RAW):
                    ren[tv] = "RAWB"
                elif common.is_name(arg, VAL):
                    ren[tv] = "KWB"
            if set(ren.values()) == {"RAWB", "KWB"} and lp.body and isinstance(lp.body[-1], ast.If) and all(isinstance(x, (ast.Assign, ast.AnnAssign)) for x in lp.body[:-1]):
                i1 = lp.body[-1]
                if len(i1.body) == 1 and isinstance(i1.body[0], ast.Return) and prog.try_fold(km, i1.body[0].value) is True and not i1.orelse:
                    envb = common.block_env(lp.body, i1, unpack=True) or {}
                    azb = G.Atomizer(rename=ren, subst={k: v for k, v in envb.items() if k not in ren})
                    ok_loop, cm = G.equivalent(azb.formula(i1.test), azb.formula(common.spec_expr(SPEC.C17_MIXED_BYTE)),
                                          assuming=azb.formula(common.spec_expr("not (chr(RAWB).isupper() and chr(RAWB).islower()) and not (chr(KWB).isupper() and chr(KWB).islower())")))
                    det = f"per-byte test {G.show(azb.formula(i1.test))}"
        ok_tail = prog.try_fold(km, rt.value) is False
    if len(body) == 2 and isinstance(body[0], ast.If) and isinstance(body[1], ast.Return) and isinstance(body[1].value, ast.Call) and \
            common.is_name(body[1].value.func, "any") and len(body[1].value.args) == 1 and isinstance(body[1].value.args[0], (ast.GeneratorExp, ast.ListComp)):
        # the same decision written as `return any(<per-byte test> for a, b in zip(raw, value))`
        i0, gen_ = body[0], body[1].value.args[0]
        if len(i0.body) == 1 and isinstance(i0.body[0], ast.Return) and prog.try_fold(km, i0.body[0].value) is False and not i0.orelse:
            ok_pre, _ = G.equivalent(azm.formula(i0.test), azm.formula(common.spec_expr(SPEC.C17_MIXED_PRE)))
        g0 = gen_.generators[0]
        if len(gen_.generators) == 1 and not g0.ifs and isinstance(g0.iter, ast.Call) and common.is_name(g0.iter.func, "zip") and len(g0.iter.args) == 2 and \
                isinstance(g0.target, ast.Tuple) and len(g0.target.elts) == 2:
            t0, t1 = (x.id for x in g0.target.elts)
            ren = {}
            for tv, arg in ((t0, g0.iter.args[0]), (t1, g0.iter.args[1])):
                if common.is_name(arg, RAW):
                    ren[tv] = "RAWB"
                elif common.is_name(arg, VAL):
                    ren[tv] = "KWB"
            if set(ren.values()) == {"RAWB", "KWB"}:
                azb = G.Atomizer(rename=ren)
                ok_loop, cm = G.equivalent(azb.formula(gen_.elt), azb.formula(common.spec_expr(SPEC.C17_MIXED_BYTE)),
                                          assuming=azb.formula(common.spec_expr("not (chr(RAWB).isupper() and chr(RAWB).islower()) and not (chr(KWB).isupper() and chr(KWB).islower())")))
                det = f"per-byte test {G.show(azb.formula(gen_.elt))}"
                ok_tail = True      # any() of no true element is False
    run.ob("R5-mixedcase", "keyword.is_mixed_case/uniform-case-excluded", ok_pre, w(mc.node),
           "text that is entirely upper- or lower-case is never MixedCase", "first guard is not `raw.isupper() or raw.islower()` -> False",
           mech="truth table")
    run.ob("R5-mixedcase", "keyword.is_mixed_case/per-byte-test", ok_loop, w(mc.node),
           "MixedCase iff some byte of the matched text is upper (lower) where the keyword's byte is not", det or "loop shape not recognised",
           mech="truth table over 4 case atoms")
    run.ob("R5-mixedcase", "keyword.is_mixed_case/default-false", ok_tail, w(mc.node), "otherwise not MixedCase", "final return is not False",
           mech="constant folding")
    run.floor("R1-boundary", 3)
    run.floor("R3-advance", 3)
    run.floor("R4-roles", 5)
    run.floor("R5-mixedcase", 4)
