"""C07 - the depth limit bounds recursion and only ever truncates the tree.

R1 guard dominance: every decoder invocation, recursive call and tree mutation in scan_node is reached only
   when DEPTH >= 1, and the DEPTH <= 0 paths return the parameter node itself untouched.
R2 decrement: every recursive call passes DEPTH - c with constant c >= 1; scan() forwards its own depth
   parameter unchanged.
R3 non-interference: DEPTH is used nowhere else (guard tests and recursive-call arguments only).
"""
from __future__ import annotations

import ast

from .. import guards as G
from ..core import norm_src
from ..lin import Lin, lin_of_ast
from ..model import need, own_nodes
from . import common

EXPLANATION = (
    "Static analysis of Multidecoder.scan / scan_node: reaching conditions of every decoder call, recursive call "
    "and tree mutation are computed from the structured control flow and compared, by a theory-aware truth table "
    "over the integer depth parameter, with DEPTH >= 1; recursive-call depth arguments are reduced to linear forms "
    "DEPTH - c; the def-use chain of DEPTH is enumerated. Together R1-R3 are the whole mechanism that makes the "
    "tree for k a truncation of the tree for k+1."
)
TRUSTED = ["Python semantics of if/return/for", "the call-graph resolver of mdstatic.model"]


def check(run):
    prog = run.prog
    sn = prog.fn("multidecoder.Multidecoder.scan_node")
    sc = prog.fn("multidecoder.Multidecoder.scan")
    mod = sn.module
    need(len(sn.params) >= 3, "anchor: scan_node(self, node, depth_limit) signature")
    NODE, DEPTH = sn.params[1], sn.params[2]
    run.note("functions", [sn.fq, sc.fq])
    run.note("roles", {"NODE": NODE, "DEPTH": DEPTH})
    where = lambda n: f"{mod.rel}:{getattr(n, 'lineno', sn.lineno)}"   # noqa: E731

    subst = common.single_assignment_temps(sn.node)
    # DEPTH must never be rebound
    stores = [n for n in own_nodes(sn.node) if isinstance(n, ast.Name) and n.id == DEPTH and isinstance(n.ctx, ast.Store)]
    run.ob("R3-noninterference", "multidecoder.scan_node/DEPTH/not-rebound", not stores, where(stores[0]) if stores else where(sn.node),
           "the depth parameter is never reassigned", mech="store census")

    def is_int(e):
        return any(isinstance(x, ast.Name) and x.id == DEPTH for x in ast.walk(e))
    az = G.Atomizer(subst={k: v for k, v in subst.items() if k != DEPTH}, is_int=is_int,
                    truthy_int=lambda e: isinstance(e, ast.Name) and e.id == DEPTH)
    depth_ge_1 = az.compare(ast.Name(id=DEPTH, ctx=ast.Load()), ast.GtE(), ast.Constant(value=1))

    # ---- sensitive constructs: decoder calls, recursive calls, mutations of the tree
    sensitive = []
    rec_calls = []
    dec_calls = common.decoder_invocations(prog, sn)
    for n in own_nodes(sn.node):
        if isinstance(n, ast.Call):
            c = prog.callee(mod, sn, n)
            if c.kind == "repo" and c.func is sn:
                rec_calls.append(n)
                sensitive.append(("recursive-call", n))
            elif isinstance(n.func, ast.Attribute) and n.func.attr in ("append", "extend", "insert", "shift", "pop"):
                sensitive.append((f"mutation:{n.func.attr}", n))
        elif isinstance(n, (ast.Assign, ast.AugAssign)):
            tg = n.targets if isinstance(n, ast.Assign) else [n.target]
            if any(isinstance(t, (ast.Attribute, ast.Subscript)) for t in tg):
                sensitive.append(("mutation:store", n))
    # generator expressions are nested scopes for own_nodes? (they are not function defs, so included)
    for n in dec_calls:
        sensitive.append(("decoder-call", n))
    need(dec_calls, "anchor: no decoder invocation (call of a loop variable over self.decoders) found in scan_node")
    need(rec_calls, "anchor: no recursive scan_node call found")
    run.floor("R1-guard-dominance", 6)
    counts = {}
    for kind, n in sensitive:
        pc = G.reach(sn.body, n, az)
        need(pc is not None, f"internal: cannot locate {norm_src(n)} in scan_node body")
        ok, cm = G.implies(pc, depth_ge_1)
        counts[kind] = counts.get(kind, 0) + 1
        run.ob("R1-guard-dominance", f"multidecoder.scan_node/{kind}#{counts[kind]}", ok, where(n),
               f"{kind} `{common.short_src(n)}` is reached only when {DEPTH} >= 1",
               detail="" if ok else f"reaching condition {G.show(pc)} admits {G.show_model(cm)}",
               mech="reaching condition => DEPTH >= 1 (truth table)")

    # ---- DEPTH <= 0 paths return the node parameter itself
    rets = [n for n in own_nodes(sn.node) if isinstance(n, ast.Return)]
    node_stores = [n for n in own_nodes(sn.node) if isinstance(n, ast.Name) and n.id == NODE and isinstance(n.ctx, ast.Store)]
    found_guard_return = False
    for r in rets:
        pc = G.reach(sn.body, r, az)
        if G.satisfiable(G.f_and(pc, G.f_not(depth_ge_1))):
            # this return is reachable with depth <= 0: it must return NODE, and NODE must not have been rebound
            # on the way (all rebinding stores are themselves dominated by DEPTH >= 1)
            found_guard_return = True
            is_param = isinstance(r.value, ast.Name) and r.value.id == NODE
            rebound_before = False
            for s in node_stores:
                spc = G.reach(sn.body, s, az)
                if spc is not None and G.satisfiable(G.f_and(spc, G.f_not(depth_ge_1))):
                    rebound_before = True
            run.ob("R1-bare-return", "multidecoder.scan_node/return-when-depth<=0", is_param and not rebound_before, where(r),
                   f"the return reachable with {DEPTH} <= 0 yields the parameter node itself",
                   detail="" if is_param and not rebound_before else f"returns `{norm_src(r.value) if r.value else None}`",
                   mech="return value is the node parameter; no rebinding reachable with DEPTH <= 0")
    # every DEPTH <= 0 execution must hit a return before falling into the loop: the function's
    # fall-through-to-end is impossible with depth <= 0 because all sensitive statements need DEPTH>=1; require that
    # at least one return is reachable under DEPTH <= 0 and that the top-level fall-through of the guard excludes it.
    run.ob("R1-bare-return", "multidecoder.scan_node/guard-exists", found_guard_return, where(sn.node),
           f"some return is reachable when {DEPTH} <= 0 (the early-return guard exists)",
           mech="satisfiability of reaching condition & DEPTH <= 0")
    # The guard must hold for *every* DEPTH <= 0, i.e. the condition to get past all returns reachable at depth<=0
    # must imply DEPTH >= 1: check the last statement of the function body.
    last = sn.body[-1]
    pc_last = G.reach(sn.body, last, az)
    ok, cm = G.implies(pc_last, depth_ge_1) if not isinstance(last, ast.If) else (True, None)
    run.ob("R1-bare-return", "multidecoder.scan_node/nothing-past-guard", ok, where(last),
           f"the main scan is reached only when {DEPTH} >= 1",
           detail="" if ok else f"admits {G.show_model(cm)}", mech="reaching condition of the final statement")

    # ---- R2 decrement
    run.floor("R2-decrement", 3)
    for i, c in enumerate(rec_calls, 1):
        arg = common.call_arg(c, sn, 2, DEPTH)   # position 1 excluding self
        okk = False
        detail = "no depth argument: the default depth would restart the budget"
        if arg is not None:
            lf = lin_of_ast(az.inline(arg), lambda x: Lin.sym(ast.unparse(x)))
            if lf is not None and set(lf.t) == {DEPTH} and lf.t[DEPTH] == 1 and lf.c <= -1:
                okk = True
            detail = f"depth argument is `{norm_src(arg)}`" + (f" = {lf}" if lf is not None else "")
        run.ob("R2-decrement", f"multidecoder.scan_node/recursive-call#{i}/depth-arg", okk, where(c),
               f"recursive call passes {DEPTH} - c with constant c >= 1", detail="" if okk else detail,
               mech="linear form of the argument")
    # scan forwards its own parameter
    need(len(sc.params) >= 3, "anchor: scan(self, data, depth_limit) signature")
    SD = sc.params[2]
    fw = [n for n in own_nodes(sc.node) if isinstance(n, ast.Call) and prog.callee(mod, sc, n).func is sn]
    need(fw, "anchor: scan does not call scan_node")
    for c in fw:
        arg = common.call_arg(c, sn, 2, DEPTH)
        okk = isinstance(arg, ast.Name) and arg.id == SD and not any(
            isinstance(x, ast.Name) and x.id == SD and isinstance(x.ctx, ast.Store) for x in own_nodes(sc.node))
        run.ob("R2-decrement", "multidecoder.scan/forwards-depth", okk, f"{mod.rel}:{c.lineno}",
               "scan passes its depth_limit parameter unchanged to scan_node",
               detail="" if okk else f"passes `{norm_src(arg) if arg is not None else 'nothing'}`", mech="argument identity")
    # both public defaults are the same constant
    d1 = common.param_default(sn, DEPTH)
    d2 = common.param_default(sc, SD)
    same = d1 is not None and d2 is not None and norm_src(d1) == norm_src(d2)
    run.ob("R2-decrement", "multidecoder.scan+scan_node/default-depth-agree", same, f"{mod.rel}:{sc.lineno}",
           "scan and scan_node share one default depth", detail="" if same else f"{d1 and norm_src(d1)} vs {d2 and norm_src(d2)}",
           mech="default expression comparison")

    # ---- R3 control-independence: apart from the bare-root guard, no statement's execution may depend on the
    # value of DEPTH (once DEPTH >= 1); a recursive call may additionally be skipped when its callee would
    # return at once (DEPTH - c <= 0), which is behaviour-neutral.
    rec_ids = {}
    for c in rec_calls:
        arg = common.call_arg(c, sn, 2, DEPTH)
        lf = lin_of_ast(az.inline(arg), lambda x: Lin.sym(ast.unparse(x))) if arg is not None else None
        cc = int(-lf.c) if lf is not None and set(lf.t) == {DEPTH} and lf.t[DEPTH] == 1 else None
        rec_ids[id(common.enclosing_stmt(c))] = cc
    simple = [n for n in own_nodes(sn.node) if isinstance(n, ast.stmt) and not isinstance(
        n, (ast.If, ast.For, ast.While, ast.With, ast.Try, ast.FunctionDef, ast.ClassDef))]
    nci = 0
    for stn in simple:
        pc = G.reach(sn.body, stn, az)
        if pc is None:
            continue
        if isinstance(stn, ast.Return) and G.satisfiable(G.f_and(pc, G.f_not(depth_ge_1))):
            continue   # the bare-root return, judged by R1
        bad = depth_dependence(pc, DEPTH, rec_ids.get(id(stn), None) if id(stn) in rec_ids else None)
        nci += 1
        run.ob("R3-control-independence", f"multidecoder.scan_node/{common.stmt_kind(stn)}:{common.short_src(stn, 50)}", bad is None, where(stn),
               f"whether `{common.short_src(stn, 60)}` runs does not depend on the remaining depth (beyond the bare-root guard)",
               detail="" if bad is None else f"runs at {DEPTH}={bad[1]} but not at {DEPTH}={bad[0]} (other conditions equal): "
               "the tree for k is then not a truncation of the tree for k+1", mech="reaching condition evaluated over depth values")
    run.floor("R3-control-independence", 15)

    # ---- R3 non-interference: every Load of DEPTH is inside a guard test or a recursive call's depth argument
    allowed_nodes = set()
    for n in own_nodes(sn.node):
        if isinstance(n, (ast.If, ast.While)):
            f = az.formula(n.test)
            # a test that only speaks about DEPTH
            if all(a[0] == "lin" and a[1] == DEPTH for a in G.atoms_of(f)) and G.atoms_of(f):
                for x in ast.walk(n.test):
                    allowed_nodes.add(id(x))
    for c in rec_calls:
        arg = common.call_arg(c, sn, 2, DEPTH)
        if arg is not None:
            for x in ast.walk(arg):
                allowed_nodes.add(id(x))
    # temporaries that hold DEPTH - c and are used only as recursive depth arguments
    for name, val in subst.items():
        if any(isinstance(x, ast.Name) and x.id == DEPTH for x in ast.walk(val)):
            uses = [x for x in own_nodes(sn.node) if isinstance(x, ast.Name) and x.id == name and isinstance(x.ctx, ast.Load)]
            if all(id(u) in allowed_nodes for u in uses):   # (an unused temporary influences nothing)
                for x in ast.walk(val):
                    allowed_nodes.add(id(x))
    loads = [n for n in own_nodes(sn.node) if isinstance(n, ast.Name) and n.id == DEPTH and isinstance(n.ctx, ast.Load)]
    # nested lambdas/generators referencing DEPTH
    for sub in ast.walk(sn.node):
        if isinstance(sub, ast.Lambda):
            loads += [n for n in ast.walk(sub) if isinstance(n, ast.Name) and n.id == DEPTH]
    run.floor("R3-noninterference", 3)
    for i, n in enumerate(loads, 1):
        ok = id(n) in allowed_nodes
        par = common.enclosing_stmt(n)
        run.ob("R3-noninterference", f"multidecoder.scan_node/DEPTH-use#{i}" if ok else
               f"multidecoder.scan_node/DEPTH-use-outside-guard/{common.stmt_kind(par)}", ok, where(n),
               f"use of {DEPTH} in `{common.short_src(par)}` is a guard test or a recursive-call depth argument",
               detail="" if ok else "the depth budget influences something other than where the search stops",
               mech="def-use chain of the parameter")

    # ---- R4 one tree level per unit of depth: every recursive call is on the hit just attached to the current node or on a
    # direct child of the node scan_node was given (a walk over the whole subtree would re-scan deeper nodes with depth - 1
    # instead of the budget their level is due)
    from .. import frames

    def sel(v):
        return (v.vc == "V8" and v.key == "decoded-arm/recurse-on-hit") or (v.vc == "V8c" and v.key in ("children-arm", "children-arm/descend"))
    frames.emit(run, sel, rule_of=lambda v: "R4-one-level-per-call")
    run.floor("R4-one-level-per-call", 2)


def depth_dependence(pc, DEPTH, skip_c):
    """None if the truth of pc does not depend on the DEPTH value (>= 1) under any assignment of the other atoms;
    else (d_false, d_true). With skip_c = c, pc may additionally be false where DEPTH - c <= 0."""
    by_other = {}
    for env in G.models(pc):
        d = env.get("term:" + DEPTH)
        if d is None:
            return None
        if d < 1:
            continue
        key = tuple(sorted((str(k), v) for k, v in env.items() if k != "term:" + DEPTH))
        by_other.setdefault(key, {})[d] = G.evaluate(pc, env)
    for key, tv in by_other.items():
        big = max(tv)
        ref = tv[big]
        for d, v in sorted(tv.items()):
            if v != ref:
                if skip_c is not None and not v and d - skip_c <= 0:
                    continue
                return (d, big) if ref else (big, d)
    return None
