"""E2 - regex language engine over the byte alphabet.

Patterns are parsed with the stdlib parser (re._parser); the parse tree is compiled to an
epsilon-NFA whose transitions are labelled by 256-bit byte masks, then determinised.
Bytes semantics: \\w \\d \\s are ASCII, (?i) folds ASCII letters only.

Zero-width constructs:
  * \\b / \\B are compiled exactly (the automaton tracks whether the previous byte is a word
    byte; the context outside the match is a parameter: 'N' = non-word / string edge,
    'any' = unknown);
  * a look-behind at the very start and a look-ahead at the very end of the pattern made of
    one character class are *edge assertions*: they are returned separately
    (Compiled.lead / Compiled.trail) and not part of the language;
  * an interior negative look-ahead (?!A) followed by the remainder R of its sequence is
    compiled exactly as R & ~(A.*) when maxlen(A) <= minlen(R);
  * ^ and $ and anything else zero-width is *dropped* and recorded in Compiled.dropped: the
    language is then an over-approximation (Compiled.exact is False).
"""
from __future__ import annotations

import re._constants as sc
import re._parser as sp
import warnings
from collections import deque

warnings.simplefilter("ignore")

FULL = (1 << 256) - 1


def bit(c):
    return 1 << c


def rng(a, b):
    return ((1 << (b + 1)) - 1) ^ ((1 << a) - 1)


def mask_of(bs) -> int:
    m = 0
    for c in bs:
        m |= 1 << c
    return m


def bytes_of(mask: int) -> bytes:
    return bytes(c for c in range(256) if mask >> c & 1)


DIGIT = rng(48, 57)
UP = rng(65, 90)
LO = rng(97, 122)
ALPHA = UP | LO
WORD = DIGIT | UP | LO | bit(95)
SPACE = mask_of(b" \t\n\r\f\v")
NONWORD = FULL ^ WORD
CAT = {
    sc.CATEGORY_DIGIT: DIGIT, sc.CATEGORY_NOT_DIGIT: FULL ^ DIGIT,
    sc.CATEGORY_WORD: WORD, sc.CATEGORY_NOT_WORD: FULL ^ WORD,
    sc.CATEGORY_SPACE: SPACE, sc.CATEGORY_NOT_SPACE: FULL ^ SPACE,
}


def casefold(m):
    up = m & UP
    lo = m & LO
    return m | (up << 32) | (lo >> 32)


class RxError(Exception):
    pass


def parse(pattern):
    """Parse with the stdlib parser. Returns (tree, flags, notes). The one `regex`-only construct the
    repository uses, the reverse-search flag (?r), is stripped and noted."""
    notes = []
    if isinstance(pattern, str):
        pattern = pattern.encode("latin-1")
    if pattern.startswith(b"(?r)"):
        pattern = pattern[4:]
        notes.append("reverse")
    try:
        p = sp.parse(pattern)
    except Exception as e:   # noqa: BLE001
        raise RxError(f"cannot parse {pattern!r}: {e}")
    return p, p.state.flags, notes


class NFA:
    def __init__(self):
        self.eps = []   # per state: list of (target, tag) tag in {None,'b','B'}
        self.tr = []    # per state: list of (mask, target)
        self.has_boundary = False

    def new(self):
        self.eps.append([])
        self.tr.append([])
        return len(self.eps) - 1


class DFA:
    """trans[i] = list of (mask, target) with pairwise disjoint masks; missing bytes are dead."""

    def __init__(self, trans, acc):
        self.trans = trans
        self.acc = acc
        self._trim = None

    @property
    def nstates(self):
        return len(self.trans)

    def step(self, s, c):
        for m, t in self.trans[s]:
            if m >> c & 1:
                return t
        return None


class Builder:
    def __init__(self, flags):
        self.n = NFA()
        self.flags = flags
        self.dropped = []
        self.cuts = []            # possessive / atomic constructs: the matcher no longer tries every split
        self.last_mask = None     # mask of the byte consumed just before the current position, when statically known
        self.trailing = []        # interior single-class look-aheads after which nothing is consumed (= trailing assertions)
        self.pending_la = []
        self.groups = {}          # group index -> (subtree, flags)

    def icase(self, fl):
        return bool(fl & sc.SRE_FLAG_IGNORECASE)

    def charset(self, items, fl):
        neg = False
        m = 0
        for op, av in items:
            if op is sc.NEGATE:
                neg = True
            elif op is sc.LITERAL:
                m |= bit(av) if av < 256 else 0
            elif op is sc.RANGE:
                m |= rng(av[0], min(av[1], 255))
            elif op is sc.CATEGORY:
                m |= CAT[av]
            else:
                raise RxError(f"unsupported set item {op}")
        if self.icase(fl):
            m = casefold(m)
        return (FULL ^ m) if neg else m

    def seq(self, items, cur, fl):
        items = list(items)
        i = 0
        while i < len(items):
            op, av = items[i]
            if op is sc.ASSERT_NOT and av[0] == 1 and i + 1 < len(items):
                # interior negative look-ahead: R & ~(A.*) when maxlen(A) <= minlen(R)
                rest = items[i + 1:]
                a_d = compile_tree(av[1], fl).dfa
                r_c = compile_tree(rest, fl, collect_groups=self.groups)
                amax = maxlen(a_d)
                rmin = minlen(r_c.dfa)
                if amax is not None and rmin is not None and amax <= rmin and r_c.exact:
                    blocked = concat_sigma_star(a_d)
                    d = product(r_c.dfa, complement(blocked), lambda x, y: x and y)
                    return embed_dfa(self.n, d, cur)
                self.dropped.append(("ASSERT_NOT", av))
                i += 1
                continue
            if op in (sc.ASSERT, sc.ASSERT_NOT):
                m = _single_class(av[1], fl)
                if av[0] == -1 and m is not None and self.last_mask is not None:
                    # interior look-behind of one class right after a byte whose class is known
                    inside = self.last_mask & m
                    sat_all = (inside == 0) if op is sc.ASSERT_NOT else (self.last_mask & ~m == 0)
                    sat_none = (self.last_mask & ~m == 0) if op is sc.ASSERT_NOT else (inside == 0)
                    if sat_all:
                        i += 1
                        continue
                    if sat_none:
                        dead = self.n.new()
                        cur = dead
                        i += 1
                        continue
                if av[0] == 1 and m is not None:
                    self.pending_la.append(("in" if op is sc.ASSERT else "notin", m, (str(op), av)))
                    i += 1
                    continue
            cur = self.item(op, av, cur, fl)
            i += 1
        return cur

    def item(self, op, av, cur, fl):
        n = self.n
        if op in (sc.LITERAL, sc.NOT_LITERAL, sc.ANY, sc.IN):
            if self.pending_la:
                # something is consumed after an interior look-ahead: not a trailing assertion -> unsupported
                for _k, _m, raw in self.pending_la:
                    self.dropped.append(raw)
                self.pending_la = []
            cur2 = self._consume(op, av, cur, fl)
            return cur2
        if op in (sc.BRANCH, sc.MAX_REPEAT, sc.MIN_REPEAT) or op is getattr(sc, "POSSESSIVE_REPEAT", None):
            r = self._item(op, av, cur, fl)
            self.last_mask = None
            return r
        return self._item(op, av, cur, fl)

    def _consume(self, op, av, cur, fl):
        n = self.n
        if op is sc.LITERAL:
            m = bit(av) if av < 256 else 0
            m = casefold(m) if self.icase(fl) else m
        elif op is sc.NOT_LITERAL:
            m = bit(av) if av < 256 else 0
            m = FULL ^ (casefold(m) if self.icase(fl) else m)
        elif op is sc.ANY:
            m = FULL if fl & sc.SRE_FLAG_DOTALL else FULL ^ bit(10)
        else:
            m = self.charset(av, fl)
        t = n.new()
        n.tr[cur].append((m, t))
        self.last_mask = m
        return t

    def _item(self, op, av, cur, fl):
        n = self.n
        if op is sc.LITERAL:
            m = bit(av) if av < 256 else 0
            m = casefold(m) if self.icase(fl) else m
            t = n.new()
            n.tr[cur].append((m, t))
            return t
        if op is sc.NOT_LITERAL:
            m = bit(av) if av < 256 else 0
            m = casefold(m) if self.icase(fl) else m
            t = n.new()
            n.tr[cur].append((FULL ^ m, t))
            return t
        if op is sc.ANY:
            m = FULL if fl & sc.SRE_FLAG_DOTALL else FULL ^ bit(10)
            t = n.new()
            n.tr[cur].append((m, t))
            return t
        if op is sc.IN:
            t = n.new()
            n.tr[cur].append((self.charset(av, fl), t))
            return t
        if op is sc.BRANCH:
            end = n.new()
            for alt in av[1]:
                st = n.new()
                n.eps[cur].append((st, None))
                e = self.seq(alt, st, fl)
                n.eps[e].append((end, None))
            return end
        if op is sc.SUBPATTERN:
            g, add, dele, sub = av
            fl2 = (fl | add) & ~dele
            st = n.new()
            n.eps[cur].append((st, None))
            e = self.seq(sub, st, fl2)
            if g is not None:
                self.groups[g] = (sub, fl2)
            return e
        if op in (sc.MAX_REPEAT, sc.MIN_REPEAT) or op is getattr(sc, "POSSESSIVE_REPEAT", None):
            lo, hi, sub = av
            if op is getattr(sc, "POSSESSIVE_REPEAT", None):
                self.cuts.append("possessive repeat")
            for _ in range(lo):
                cur = self.seq(sub, cur, fl)
            if hi is sc.MAXREPEAT:
                loop = n.new()
                n.eps[cur].append((loop, None))
                e = self.seq(sub, loop, fl)
                n.eps[e].append((loop, None))
                return loop
            end = n.new()
            n.eps[cur].append((end, None))
            for _ in range(hi - lo):
                cur = self.seq(sub, cur, fl)
                n.eps[cur].append((end, None))
            return end
        if op is sc.AT:
            if av is sc.AT_BOUNDARY or av is sc.AT_NON_BOUNDARY:
                t = n.new()
                n.eps[cur].append((t, "b" if av is sc.AT_BOUNDARY else "B"))
                n.has_boundary = True
                return t
            self.dropped.append(("AT", av))
            return cur
        if op in (sc.ASSERT, sc.ASSERT_NOT):
            self.dropped.append((str(op), av))
            return cur
        if op is getattr(sc, "ATOMIC_GROUP", None):
            self.cuts.append("atomic group")
            return self.seq(av, cur, fl)
        raise RxError(f"unsupported regex construct {op}")


def closure_plain(n, S):
    st = list(S)
    seen = set(S)
    while st:
        x = st.pop()
        for y, _tag in n.eps[x]:
            if y not in seen:
                seen.add(y)
                st.append(y)
    return frozenset(seen)


def closure_b(n, S):
    """configs (q, prevword, need): need in (None,'W','N') = constraint on the next byte's wordness."""
    st = list(S)
    seen = set(S)
    while st:
        q, p, need = st.pop()
        for y, tag in n.eps[q]:
            nd = need
            if tag == "b":
                want = "N" if p else "W"
            elif tag == "B":
                want = "W" if p else "N"
            else:
                want = None
            if want is not None:
                if nd is not None and nd != want:
                    continue
                nd = want
            c = (y, p, nd)
            if c not in seen:
                seen.add(c)
                st.append(c)
    return frozenset(seen)


def atoms_of(masks):
    parts = [FULL]
    for m in masks:
        new = []
        for p in parts:
            a = p & m
            b = p & ~m
            if a:
                new.append(a)
            if b:
                new.append(b)
        parts = new
    return parts


def determinize(n: NFA, start, accept, before="N", after="N", max_states=400000):
    masks = set(m for trs in n.tr for m, _ in trs)
    if n.has_boundary:
        masks.add(WORD)
    atoms = atoms_of(masks)
    if not n.has_boundary:
        s0 = closure_plain(n, {start})
        ids = {s0: 0}
        trans = []
        acc = []
        work = [s0]
        order = [s0]
        while work:
            S = work.pop()
            i = ids[S]
            while len(trans) <= i:
                trans.append(None)
                acc.append(False)
            acc[i] = accept in S
            row = {}
            for a in atoms:
                T = set()
                for x in S:
                    for m, t in n.tr[x]:
                        if m & a:
                            T.add(t)
                if T:
                    T = closure_plain(n, T)
                    if T not in ids:
                        ids[T] = len(ids)
                        work.append(T)
                        if len(ids) > max_states:
                            raise RxError("DFA too large")
                    row.setdefault(ids[T], 0)
                    row[ids[T]] |= a
            trans[i] = [(m, t) for t, m in row.items()]
        return DFA(trans, acc)
    init = {(start, 0, None)} if before == "N" else {(start, 0, None), (start, 1, None)}
    s0 = closure_b(n, init)
    ids = {s0: 0}
    trans = []
    acc = []
    work = [s0]

    def accepting(S):
        for q, p, need in S:
            if q == accept and (need is None or after == "any" or need == "N"):
                return True
        return False
    while work:
        S = work.pop()
        i = ids[S]
        while len(trans) <= i:
            trans.append(None)
            acc.append(False)
        acc[i] = accepting(S)
        row = {}
        for a in atoms:
            isw = bool(a & WORD)
            T = set()
            for q, p, need in S:
                if need == "W" and not isw:
                    continue
                if need == "N" and isw:
                    continue
                for m, t in n.tr[q]:
                    if m & a:
                        T.add((t, 1 if isw else 0, None))
            if T:
                T = closure_b(n, T)
                if T not in ids:
                    ids[T] = len(ids)
                    work.append(T)
                    if len(ids) > max_states:
                        raise RxError("DFA too large")
                row.setdefault(ids[T], 0)
                row[ids[T]] |= a
        trans[i] = [(m, t) for t, m in row.items()]
    return DFA(trans, acc)


class Compiled:
    def __init__(self):
        self.dfa = None
        self.dropped = []
        self.groups = {}
        self.flags = 0
        self.lead = None     # ('in'|'notin', mask) edge look-behind
        self.trail = None    # ('in'|'notin', mask) edge look-ahead
        self.notes = []
        self.cuts = []
        self.tree = None

    @property
    def exact(self):
        return not self.dropped


def _single_class(sub, fl):
    """mask of a sub-pattern that is exactly one character class / literal, else None."""
    items = list(sub)
    if len(items) != 1:
        return None
    b = Builder(fl)
    op, av = items[0]
    if op is sc.IN:
        return b.charset(av, fl)
    if op is sc.LITERAL:
        m = bit(av)
        return casefold(m) if b.icase(fl) else m
    return None


def split_edges(tree, fl):
    """Peel a leading look-behind and a trailing look-ahead of one character class."""
    items = list(tree)
    lead = trail = None
    if items and items[0][0] in (sc.ASSERT, sc.ASSERT_NOT) and items[0][1][0] == -1:
        m = _single_class(items[0][1][1], fl)
        if m is not None:
            lead = ("in" if items[0][0] is sc.ASSERT else "notin", m)
            items = items[1:]
    if items and items[-1][0] in (sc.ASSERT, sc.ASSERT_NOT) and items[-1][1][0] == 1:
        m = _single_class(items[-1][1][1], fl)
        if m is not None:
            trail = ("in" if items[-1][0] is sc.ASSERT else "notin", m)
            items = items[:-1]
    return items, lead, trail


def compile_tree(tree, fl, before="N", after="N", collect_groups=None, edges=False) -> Compiled:
    c = Compiled()
    c.flags = fl
    items = list(tree)
    if edges:
        items, c.lead, c.trail = split_edges(items, fl)
    b = Builder(fl)
    a = b.n.new()
    e = b.seq(items, a, fl)
    c.dfa = determinize(b.n, a, e, before, after)
    for kind, m, _raw in b.pending_la:
        # interior look-ahead after which nothing is consumed: a trailing assertion
        if c.trail is None:
            c.trail = (kind, m)
        elif c.trail[0] == kind == "notin":
            c.trail = ("notin", c.trail[1] | m)
        else:
            b.dropped.append(_raw)
    c.dropped = b.dropped
    c.cuts = list(b.cuts)
    c.groups = b.groups
    c.tree = items
    if collect_groups is not None:
        collect_groups.update(b.groups)
    return c


_cache: dict = {}


def compile_pattern(pattern, before="N", after="N", edges=True) -> Compiled:
    key = (bytes(pattern) if not isinstance(pattern, str) else pattern, before, after, edges)
    if key in _cache:
        return _cache[key]
    tree, fl, notes = parse(pattern)
    c = compile_tree(tree, fl, before, after, edges=edges)
    c.notes = notes
    _cache[key] = c
    return c


def group_language(pattern, k, before="any", after="any") -> Compiled:
    """Language of capture group k on its own (assertions inside are dropped => over-approximation)."""
    c = compile_pattern(pattern)
    if k == 0:
        return compile_pattern(pattern, before, after)
    if k not in c.groups:
        raise RxError(f"pattern has no group {k}")
    key = ("group", bytes(pattern), k, before, after)
    if key in _cache:
        return _cache[key]
    sub, fl = c.groups[k]
    g = compile_tree(sub, fl, before, after)
    _cache[key] = g
    return g


def group_count(pattern) -> int:
    tree, fl, _ = parse(pattern)
    return tree.state.groups - 1


# ------------------------------------------------------------------ DFA algebra
def trim(d: DFA):
    """(reachable & co-reachable) state set."""
    if d._trim is not None:
        return d._trim
    reach = {0}
    st = [0]
    while st:
        s = st.pop()
        for _m, t in d.trans[s]:
            if t not in reach:
                reach.add(t)
                st.append(t)
    rev = {}
    for s in reach:
        for _m, t in d.trans[s]:
            rev.setdefault(t, set()).add(s)
    co = {s for s in reach if d.acc[s]}
    st = list(co)
    while st:
        s = st.pop()
        for p in rev.get(s, ()):
            if p not in co:
                co.add(p)
                st.append(p)
    d._trim = co
    return co


def is_empty(d: DFA):
    return 0 not in trim(d)


def minlen(d: DFA):
    q = deque([(0, 0)])
    seen = {0}
    while q:
        s, ln = q.popleft()
        if d.acc[s]:
            return ln
        for _m, t in d.trans[s]:
            if t not in seen:
                seen.add(t)
                q.append((t, ln + 1))
    return None


def maxlen(d: DFA):
    """None = unbounded (or empty language -> 0)."""
    live = trim(d)
    if 0 not in live:
        return 0
    # cycle detection + longest path in DAG over live states
    color = {}
    best = {}

    def dfs(s):
        color[s] = 1
        b = 0 if d.acc[s] else -1
        for _m, t in d.trans[s]:
            if t not in live:
                continue
            if color.get(t) == 1:
                raise OverflowError
            if t not in color:
                dfs(t)
            if best[t] >= 0:
                b = max(b, best[t] + 1)
        color[s] = 2
        best[s] = b
    import sys
    old = sys.getrecursionlimit()
    sys.setrecursionlimit(max(old, 100000))
    try:
        dfs(0)
    except OverflowError:
        return None
    finally:
        sys.setrecursionlimit(old)
    return best[0]


def alphabet(d: DFA) -> int:
    live = trim(d)
    m = 0
    for s in live:
        for mk, t in d.trans[s]:
            if t in live:
                m |= mk
    return m


def first_bytes(d: DFA) -> int:
    live = trim(d)
    m = 0
    if 0 in live:
        for mk, t in d.trans[0]:
            if t in live:
                m |= mk
    return m


def last_bytes(d: DFA) -> int:
    live = trim(d)
    m = 0
    for s in live:
        for mk, t in d.trans[s]:
            if t in live and d.acc[t]:
                m |= mk
    return m


def member(d: DFA, w: bytes) -> bool:
    s = 0
    for c in w:
        s = d.step(s, c)
        if s is None:
            return False
    return d.acc[s]


def product(A: DFA, B: DFA, accept, complete=False):
    """Product automaton; None component = dead state. accept(accA, accB) -> bool."""
    ids = {(0, 0): 0}
    trans = []
    acc = []
    work = [(0, 0)]
    while work:
        a, b = work.pop()
        i = ids[(a, b)]
        while len(trans) <= i:
            trans.append(None)
            acc.append(False)
        acc[i] = accept(A.acc[a] if a is not None else False, B.acc[b] if b is not None else False)
        row = {}
        ta = A.trans[a] if a is not None else []
        tb = B.trans[b] if b is not None else []
        ua = 0
        for ma, xa in ta:
            ua |= ma
            rest = ma
            for mb, xb in tb:
                if ma & mb:
                    row[(xa, xb)] = row.get((xa, xb), 0) | (ma & mb)
                    rest &= ~mb
            if rest:
                row[(xa, None)] = row.get((xa, None), 0) | rest
        for mb, xb in tb:
            rest = mb & ~ua
            if rest:
                row[(None, xb)] = row.get((None, xb), 0) | rest
        out = []
        for k, m in row.items():
            if k not in ids:
                ids[k] = len(ids)
                work.append(k)
            out.append((m, ids[k]))
        trans[i] = out
    return DFA(trans, acc)


def complement(A: DFA) -> DFA:
    n = A.nstates
    trans = []
    for s in range(n):
        row = list(A.trans[s])
        u = 0
        for m, _t in row:
            u |= m
        if FULL & ~u:
            row.append((FULL & ~u, n))
        trans.append(row)
    trans.append([(FULL, n)])
    return DFA(trans, [not a for a in A.acc] + [True])


def concat_sigma_star(A: DFA) -> DFA:
    """L(A) . Sigma*  (A deterministic: once an accepting state is reached everything is accepted)."""
    n = A.nstates
    trans = []
    for s in range(n):
        if A.acc[s]:
            trans.append([(FULL, n)])
        else:
            trans.append(list(A.trans[s]))
    trans.append([(FULL, n)])
    return DFA(trans, list(A.acc) + [True])


def quotient_byte(A: DFA, byte: int) -> DFA:
    """{ w : w + bytes([byte]) in L(A) }"""
    b = 1 << byte
    acc = []
    for s in range(A.nstates):
        acc.append(any(m & b and A.acc[t] for m, t in A.trans[s]))
    return DFA([list(r) for r in A.trans], acc)


def ordered_alternatives(pattern):
    """The alternatives of a pattern that is one alternation (possibly wrapped in one capture / non-capture group):
    [(look-ahead tree or None, body tree)] in priority order, plus the flags.  None when the pattern is not of that form."""
    tree, fl, _notes = parse(pattern)
    items = list(tree)
    while len(items) == 1 and items[0][0] is sc.SUBPATTERN:
        g, add, dele, sub = items[0][1]
        fl = (fl | add) & ~dele
        items = list(sub)
    if len(items) != 1 or items[0][0] is not sc.BRANCH:
        return None
    out = []
    for alt in items[0][1][1]:
        alt = list(alt)
        la = None
        if alt and alt[0][0] is sc.ASSERT and alt[0][1][0] == 1:
            la, alt = alt[0][1][1], alt[1:]
        if any(op in (sc.ASSERT, sc.ASSERT_NOT) for op, _av in alt):
            return None
        out.append((la, alt))
    return out, fl



def exponential_ambiguity(pattern, max_scc=1500):
    """Exponential degree of ambiguity of the pattern's position automaton: a position p with two different paths p ->* p
    spelling the same word (then a backtracking matcher that fails after the loop tries 2^k splits of k repetitions).
    Returns None, or (word_to_p, pump_word, position description).  Assertions are treated as empty (they can only remove
    paths, so a report is a candidate the caller states as such); epsilon-ambiguity (nested nullable stars) is not counted."""
    tree, fl, _notes = parse(pattern)
    b = Builder(fl)
    a = b.n.new()
    e = b.seq(list(tree), a, fl)
    n = b.n
    succ, final = {}, {}
    work, seen = [a], {a}
    while work:
        p = work.pop()
        cl = closure_plain(n, {p})
        final[p] = e in cl
        out = []
        for s in cl:
            for m, t in n.tr[s]:
                if m:
                    out.append((m, t))
                    if t not in seen:
                        seen.add(t)
                        work.append(t)
        succ[p] = out
    # co-reachable
    rev = {}
    for p, out in succ.items():
        for _m, t in out:
            rev.setdefault(t, set()).add(p)
    live = {p for p in succ if final[p]}
    work = list(live)
    while work:
        t = work.pop()
        for p in rev.get(t, ()):
            if p not in live:
                live.add(p)
                work.append(p)
    succ = {p: [(m, t) for m, t in out if t in live] for p, out in succ.items() if p in live}
    if a not in succ:
        return None
    for comp in _sccs(list(succ), lambda p: [t for _m, t in succ[p]]):
        S = set(comp)
        if len(S) == 1 and not any(t in S for _m, t in succ[comp[0]]):
            continue
        if len(S) > max_scc:
            raise RxError(f"loop of {len(S)} positions: too large for the pair construction")

        def psucc(pq, S=S):
            p, q = pq
            out = []
            for m1, t1 in succ[p]:
                if t1 in S:
                    for m2, t2 in succ[q]:
                        if t2 in S and m1 & m2:
                            out.append((t1, t2) if t1 <= t2 else (t2, t1))
            return out
        # unordered pairs (p <= q); distinct transitions to the SAME target also count as two paths
        dup = None
        for p in S:
            tg = {}
            for m, t in succ[p]:
                if t in S:
                    for m0 in tg.get(t, ()):
                        if m0 & m:
                            dup = (p, t, m0 & m)
                    tg.setdefault(t, []).append(m)
        if dup is not None:
            p, t, m = dup
            return (_word_to(succ, a, p), bytes([_lowest(m)]) + (_word_between(succ, t, p, S) or b""), f"position {p}")
        nodes = set()
        work = [(p, p) for p in S]
        nodes.update(work)
        while work:
            x = work.pop()
            for y in psucc(x):
                if y not in nodes:
                    nodes.add(y)
                    work.append(y)
        for pc in _sccs(list(nodes), psucc):
            if any(p == q for p, q in pc) and any(p != q for p, q in pc):
                d = next(p for p, q in pc if p == q)
                pcs = set(pc)
                # pump word: a cycle (d,d) -> off-diagonal -> (d,d) inside the component
                off = next((p, q) for p, q in pc if p != q)
                w1 = _pair_word(succ, (d, d), off, pcs)
                w2 = _pair_word(succ, off, (d, d), pcs)
                return (_word_to(succ, a, d), (w1 or b"") + (w2 or b""), f"position {d}")
    return None


def _lowest(m):
    pref = [c for c in b"aA0 " if m >> c & 1]
    if pref:
        return pref[0]
    return (m & -m).bit_length() - 1


def _word_to(succ, a, target):
    prev = {a: None}
    work = [a]
    while work:
        nxt = []
        for p in work:
            if p == target:
                out = []
                while prev[p] is not None:
                    p, c = prev[p]
                    out.append(c)
                return bytes(reversed(out))
            for m, t in succ[p]:
                if t not in prev:
                    prev[t] = (p, _lowest(m))
                    nxt.append(t)
        work = nxt
    return b""


def _word_between(succ, s, t, S):
    prev = {s: None}
    work = [s]
    while work:
        nxt = []
        for p in work:
            if p == t:
                out = []
                while prev[p] is not None:
                    p, c = prev[p]
                    out.append(c)
                return bytes(reversed(out))
            for m, q in succ[p]:
                if q in S and q not in prev:
                    prev[q] = (p, _lowest(m))
                    nxt.append(q)
        work = nxt
    return None


def _pair_word(succ, src, dst, allowed):
    def norm(p, q):
        return (p, q) if p <= q else (q, p)
    prev = {src: None}
    work = [src]
    first = True
    while work:
        nxt = []
        for x in work:
            if x == dst and not first:
                out = []
                while prev[x] is not None:
                    x, c = prev[x]
                    out.append(c)
                return bytes(reversed(out))
            p, q = x
            for m1, t1 in succ[p]:
                for m2, t2 in succ[q]:
                    if m1 & m2:
                        y = norm(t1, t2)
                        if y in allowed and (y not in prev or (y == dst and y == src and first)):
                            if y not in prev:
                                prev[y] = (x, _lowest(m1 & m2))
                                nxt.append(y)
        first = False
        work = nxt
    return None


def _sccs(nodes, succ_fn):
    """Tarjan, iterative; returns the list of components (lists of nodes)."""
    index, low, on, stack, out = {}, {}, set(), [], []
    counter = [0]
    for root in nodes:
        if root in index:
            continue
        work = [(root, iter(succ_fn(root)))]
        index[root] = low[root] = counter[0]
        counter[0] += 1
        stack.append(root)
        on.add(root)
        while work:
            v, it = work[-1]
            adv = False
            for w in it:
                if w not in index:
                    index[w] = low[w] = counter[0]
                    counter[0] += 1
                    stack.append(w)
                    on.add(w)
                    work.append((w, iter(succ_fn(w))))
                    adv = True
                    break
                if w in on:
                    low[v] = min(low[v], index[w])
            if adv:
                continue
            work.pop()
            if work:
                u = work[-1][0]
                low[u] = min(low[u], low[v])
            if low[v] == index[v]:
                comp = []
                while True:
                    w = stack.pop()
                    on.discard(w)
                    comp.append(w)
                    if w == v:
                        break
                out.append(comp)
    return out


def overlapping_alternatives(pattern, big=32):
    """Alternations nested in an unbounded (or >= `big` times) repeat whose alternatives are not pairwise disjoint: the same
    text of one iteration is matched in two ways that start and end at the same place, so k repetitions have 2^k parses
    between the same iteration boundaries.  [(ordinal of the alternation, i, j, witness word)].  The stdlib parser has already
    factored common prefixes out of the alternatives; pairs involving an alternative with an assertion are not judged."""
    tree, fl, _notes = parse(pattern)
    out = []
    ordinal = [0]
    rep = (sc.MAX_REPEAT, sc.MIN_REPEAT, getattr(sc, "POSSESSIVE_REPEAT", None))

    def walk(items, fl, in_loop):
        for op, av in items:
            if op is sc.BRANCH:
                alts = [list(a) for a in av[1]]
                ordinal[0] += 1
                k = ordinal[0]
                if in_loop:
                    ds = []
                    for a in alts:
                        try:
                            c = compile_tree(a, fl)
                            ds.append(c.dfa if c.exact else None)
                        except RxError:
                            ds.append(None)
                    for i in range(len(ds)):
                        for j in range(i + 1, len(ds)):
                            if ds[i] is None or ds[j] is None:
                                continue
                            ok, w = included(ds[i], complement(ds[j]), witness=True)
                            if not ok:
                                out.append((k, i, j, w))
                for a in alts:
                    walk(a, fl, in_loop)
            elif op is sc.SUBPATTERN:
                _g, add, dele, sub = av
                walk(list(sub), (fl | add) & ~dele, in_loop)
            elif op in rep and op is not None:
                _lo, hi, sub = av
                walk(list(sub), fl, in_loop or hi is sc.MAXREPEAT or hi >= big)
            elif op in (sc.ASSERT, sc.ASSERT_NOT):
                walk(list(av[1]), fl, in_loop)
            elif op is getattr(sc, "ATOMIC_GROUP", None) and op is not None:
                walk(list(av), fl, in_loop)
    walk(list(tree), fl, False)
    return out

def embed_dfa(n: NFA, d: DFA, cur):
    base = {}
    for s in range(d.nstates):
        base[s] = n.new()
    end = n.new()
    n.eps[cur].append((base[0], None))
    for s in range(d.nstates):
        for m, t in d.trans[s]:
            n.tr[base[s]].append((m, base[t]))
        if d.acc[s]:
            n.eps[base[s]].append((end, None))
    return end


def included(A: DFA, B: DFA, witness=False):
    """L(A) subset of L(B). With witness=True returns (bool, counterexample bytes|None)."""
    seen = {(0, 0): None}
    work = deque([(0, 0)])
    while work:
        a, b = work.popleft()
        if A.acc[a] and (b is None or not B.acc[b]):
            if not witness:
                return False
            w = []
            k = (a, b)
            while seen[k] is not None:
                k, c = seen[k]
                w.append(c)
            return False, bytes(w[::-1])
        for ma, ta in A.trans[a]:
            rest = ma
            if b is not None:
                for mb, tb in B.trans[b]:
                    x = ma & mb
                    if x:
                        rest &= ~mb
                        k = (ta, tb)
                        if k not in seen:
                            seen[k] = ((a, b), (x & -x).bit_length() - 1)
                            work.append(k)
            if rest:
                k = (ta, None)
                if k not in seen:
                    seen[k] = ((a, b), (rest & -rest).bit_length() - 1)
                    work.append(k)
    return (True, None) if witness else True


def equal(A: DFA, B: DFA):
    return included(A, B) and included(B, A)


def lengths_mod(d: DFA, m: int) -> set[int]:
    """Set of (len(w) mod m) over accepted words."""
    seen = {(0, 0)}
    st = [(0, 0)]
    out = set()
    while st:
        s, r = st.pop()
        if d.acc[s]:
            out.add(r)
        for _mk, t in d.trans[s]:
            k = (t, (r + 1) % m)
            if k not in seen:
                seen.add(k)
                st.append(k)
    return out


def enumerate_words(d: DFA, limit=20000):
    """All words of a finite language (None if infinite or more than `limit`)."""
    if maxlen(d) is None:
        return None
    live = trim(d)
    out = []

    def rec(s, pre):
        if d.acc[s]:
            out.append(bytes(pre))
            if len(out) > limit:
                raise OverflowError
        for m, t in d.trans[s]:
            if t in live:
                for c in range(256):
                    if m >> c & 1:
                        pre.append(c)
                        rec(t, pre)
                        pre.pop()
    try:
        if 0 in live:
            rec(0, [])
    except OverflowError:
        return None
    return out


def literal_dfa(words, icase=False) -> DFA:
    """DFA of a finite set of words (trie)."""
    trans = [dict()]
    acc = [False]
    for w in words:
        s = 0
        for c in w:
            cs = [c]
            if icase and (65 <= c <= 90 or 97 <= c <= 122):
                cs = [c | 32, c & ~32]
            key = tuple(sorted(set(cs)))
            if key not in trans[s]:
                trans.append(dict())
                acc.append(False)
                trans[s][key] = len(trans) - 1
            s = trans[s][key]
        acc[s] = True
    return DFA([[(mask_of(k), t) for k, t in row.items()] for row in trans], acc)


def dfa_of(pattern, before="N", after="N") -> DFA:
    return compile_pattern(pattern, before, after).dfa


def describe_mask(m: int) -> str:
    bs = bytes_of(m)
    if len(bs) > 40:
        return f"<{len(bs)} bytes>"
    return repr(bs)


def mandatory_groups(pattern) -> set[int]:
    """Capture groups that participate in every match (not under an alternation branch or a repeat with min 0)."""
    tree, _fl, _ = parse(pattern)
    out = set()

    def walk(items, mand):
        for op, av in items:
            if op is sc.SUBPATTERN:
                g, _a, _d, sub = av
                if g is not None and mand:
                    out.add(g)
                walk(sub, mand)
            elif op is sc.BRANCH:
                for alt in av[1]:
                    walk(alt, False)
            elif op in (sc.MAX_REPEAT, sc.MIN_REPEAT) or op is getattr(sc, "POSSESSIVE_REPEAT", None):
                lo, _hi, sub = av
                walk(sub, mand and lo >= 1)
            elif op in (sc.ASSERT, sc.ASSERT_NOT):
                walk(av[1], False)
            elif op is getattr(sc, "ATOMIC_GROUP", None):
                walk(av, mand)
    walk(tree, True)
    return out


def skeleton_dfa(pattern, markers=None) -> DFA:
    """language of the pattern with every capture group replaced by a one-byte marker (\\x01 for group 1, ...):
    the literal skeleton that surrounds the groups"""
    tree, fl, _ = parse(pattern)

    def repl(items):
        out = []
        for op, av in items:
            if op is sc.SUBPATTERN:
                g, a, d, sub = av
                if g is not None:
                    out.append((sc.LITERAL, g if markers is None else markers[g]))
                else:
                    out.append((op, (g, a, d, repl(sub))))
            elif op is sc.BRANCH:
                out.append((op, (av[0], [repl(x) for x in av[1]])))
            elif op in (sc.MAX_REPEAT, sc.MIN_REPEAT):
                out.append((op, (av[0], av[1], repl(av[2]))))
            else:
                out.append((op, av))
        return out
    # marker literals must not be case-folded: compile without IGNORECASE effect on them (they are control bytes)
    return compile_tree(repl(tree), fl, "any", "any").dfa


def cuts(pattern) -> list:
    """possessive / atomic constructs of the pattern that can make the search miss (or shorten) a text its language contains.
    A cut is harmless - and not listed - in two shapes, both outside any repeat or assertion: a possessive repeat of one
    character class whose class is disjoint from the first bytes of everything that follows (giving back a byte could never
    help), and a possessive / atomic construct with nothing after it (there is nothing to backtrack for)."""
    tree, fl, _notes = parse(pattern)
    out = []
    POSS = getattr(sc, "POSSESSIVE_REPEAT", None)
    ATOM = getattr(sc, "ATOMIC_GROUP", None)

    def first_of(items, fl):
        if not items:
            return 0
        try:
            return first_bytes(compile_tree(items, fl).dfa)
        except RxError:
            return FULL

    def walk(items, fl, cont, nested):
        items = list(items)
        for i, (op, av) in enumerate(items):
            follow = items[i + 1:] + cont
            if POSS is not None and op is POSS:
                _lo, _hi, sub = av
                m = _single_class(list(sub), fl)
                if nested:
                    ok = False
                elif m is not None:
                    ok = first_of(follow, fl) & m == 0
                else:
                    ok = not follow
                if not ok:
                    out.append("possessive repeat" + (" inside a repeat" if nested else " followed by text it could have given back"))
                walk(list(sub), fl, [], True)
            elif ATOM is not None and op is ATOM:
                if nested or follow:
                    out.append("atomic group")
                walk(list(av), fl, [], True)
            elif op is sc.SUBPATTERN:
                _g, add, dele, sub = av
                walk(list(sub), (fl | add) & ~dele, follow if add == 0 and dele == 0 else follow, nested)
            elif op is sc.BRANCH:
                for alt in av[1]:
                    walk(list(alt), fl, follow, nested)
            elif op in (sc.MAX_REPEAT, sc.MIN_REPEAT):
                walk(list(av[2]), fl, [], True)
            elif op in (sc.ASSERT, sc.ASSERT_NOT):
                walk(list(av[1]), fl, [], True)
    walk(list(tree), fl, [], False)
    return out
