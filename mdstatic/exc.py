"""E3 - exception-escape analysis.

For every function reachable from the entry points: the raising constructs are enumerated from the AST; each is
discharged by (1) an enclosing handler / contextlib.suppress that covers the class (class hierarchy resolved),
(2) facts of the abstract interpreter (index / unpack / divisor / struct bounds, None-dereference, the regex language
of a conversion's argument), or (3) a reviewed exemption whose stated condition is re-checked on every run.
What is left propagates to the callers; an entry point must propagate nothing."""
from __future__ import annotations

import ast

from . import rx
from .absint import BytesV, ConstV, IntV, Ref, StrV
from .core import norm_src
from .lin import Lin
from .model import FuncInfo, Program, own_nodes
from .rules import common

ANCESTORS = {
    "Exception": [],
    "ValueError": ["Exception"], "UnicodeError": ["ValueError", "Exception"],
    "UnicodeDecodeError": ["UnicodeError", "ValueError", "Exception"], "UnicodeEncodeError": ["UnicodeError", "ValueError", "Exception"],
    "binascii.Error": ["ValueError", "Exception"], "ipaddress.AddressValueError": ["ValueError", "Exception"],
    "LookupError": ["Exception"], "IndexError": ["LookupError", "Exception"], "KeyError": ["LookupError", "Exception"],
    "ArithmeticError": ["Exception"], "ZeroDivisionError": ["ArithmeticError", "Exception"], "OverflowError": ["ArithmeticError", "Exception"],
    "TypeError": ["Exception"], "AttributeError": ["Exception"], "AssertionError": ["Exception"], "OSError": ["Exception"],
    "struct.error": ["Exception"], "pefile.PEFormatError": ["Exception"], "StopIteration": ["Exception"],
    "xortool.AnalysisError": ["Exception"],
}

# callee (dotted, as resolved by the program model) -> exception classes it may raise for the arguments this code base gives it.
# An empty set = total. This table is the trusted base of the analysis and is printed in the evidence.
EXTERNAL_RAISES = {
    "len": set(), "sorted": set(), "isinstance": set(), "hasattr": set(), "bool": set(), "str": set(), "repr": set(), "list": set(), "tuple": set(),
    "set": set(), "frozenset": set(), "dict": set(), "enumerate": set(), "zip": set(), "range": set(), "all": set(), "any": set(), "ord": set(),
    "print": set(), "round": set(), "sum": set(), "iter": set(), "reversed": set(), "callable": set(), "getattr": {"AttributeError"}, "abs": set(),
    "map": set(), "filter": set(), "bytearray": {"ValueError"}, "id": set(), "type": set(), "divmod": {"ZeroDivisionError"}, "slice": set(), "memoryview": set(),
    "regex.compile": set(), "regex.split": set(), "regex.subn": set(), "regex.escape": set(),
    "int": {"ValueError"}, "bytes": {"ValueError"}, "chr": {"ValueError", "OverflowError"}, "max": {"ValueError"}, "min": {"ValueError"}, "next": {"StopIteration"},
    "regex.finditer": set(), "regex.search": set(), "regex.match": set(), "regex.fullmatch": set(), "regex.sub": set(), "regex.findall": set(),
    "binascii.unhexlify": {"binascii.Error"}, "binascii.a2b_hex": {"binascii.Error"}, "binascii.a2b_base64": {"binascii.Error"}, "bytes.fromhex": {"ValueError"},
    "urllib.parse.unquote_to_bytes": set(), "urllib.parse.urlsplit": {"ValueError"},
    "ipaddress.IPv4Address": {"ipaddress.AddressValueError"}, "ipaddress.IPv6Address": {"ipaddress.AddressValueError"},
    "socket.inet_aton": {"OSError"}, "socket.inet_pton": {"OSError"},
    "ntpath.normpath": set(), "ntpath.splitext": set(), "os.path.join": set(),
    "struct.unpack_from": {"struct.error"}, "struct.calcsize": set(),
    "pefile.PE": {"pefile.PEFormatError"},
    "json.dumps": set(), "json.JSONEncoder.default": {"TypeError"},
    "functools.partial": set(), "functools.lru_cache": set(), "functools.cache": set(),
    "heapq.merge": set(), "itertools.chain": set(), "itertools.chain.from_iterable": set(), "itertools.islice": {"ValueError"}, "operator.attrgetter": set(),
    "operator.itemgetter": set(), "itertools.groupby": set(), "itertools.accumulate": set(), "itertools.takewhile": set(), "itertools.dropwhile": set(),
    "itertools.repeat": set(), "itertools.starmap": set(), "itertools.zip_longest": set(), "itertools.count": set(), "itertools.product": set(),
    "collections.deque": set(), "collections.defaultdict": set(), "collections.OrderedDict": set(), "contextlib.suppress": set(), "warnings.warn": set(), "collections.Counter": set(),
    "string.printable.encode": set(),
}
# methods of bytes / str / list / dict / match / library objects: total unless listed
METHOD_RAISES = {"index": {"ValueError"}, "rindex": {"ValueError"}, "remove": {"ValueError"}, "pop": {"IndexError"}, "decode": {"UnicodeDecodeError"},
                 "encode": {"UnicodeEncodeError"}}
ATTR_RAISES = {"port": {"ValueError"}}      # SplitResult.port validates


def covers(handler_class: str, exc: str) -> bool:
    return handler_class in ("BaseException", "Exception") or handler_class == exc or handler_class in ANCESTORS.get(exc, [])


class Construct:
    def __init__(self, fi, node, kind, classes, text):
        self.fi, self.node, self.kind, self.classes, self.text = fi, node, kind, set(classes), text
        self.discharged = {}       # class -> mechanism
        self.where = f"{fi.module.rel}:{getattr(node, 'lineno', fi.lineno)}"

    def key(self):
        return f"{self.fi.fq}/{self.kind}:{common.short_src(self.node, 48)}"


class ExcAnalysis:
    def __init__(self, prog: Program, funcs, edges):
        self.prog = prog
        self.funcs = [f for f in funcs]
        self.edges = edges
        self.constructs: dict[FuncInfo, list[Construct]] = {}
        self.escape: dict[FuncInfo, dict[str, Construct]] = {}
        self.aliases = {}
        for fi in self.funcs:
            self.constructs[fi] = self.enumerate(fi)

    # ------------------------------------------------------------------ class names
    def class_name(self, module, e) -> str:
        d = self.prog.dotted(module, e) or norm_src(e)
        d = {"binascii.Error": "binascii.Error", "ipaddress.AddressValueError": "ipaddress.AddressValueError"}.get(d, d)
        if d.startswith("multidecoder.xortool."):
            d = "xortool." + d.rsplit(".", 1)[1]
        if d in ("AnalysisError",) and "xortool" in module.name:
            d = "xortool.AnalysisError"
        return d

    # ------------------------------------------------------------------ enumeration
    def enumerate(self, fi: FuncInfo):
        prog = self.prog
        m = fi.module
        out = []
        nodes = list(own_nodes(fi.node)) if not isinstance(fi.node, ast.Lambda) else list(ast.walk(fi.node.body))
        for n in nodes:
            if isinstance(n, ast.Call):
                c = prog.callee(m, fi, n)
                if c.kind == "repo" and c.func is not None:
                    out.append(Construct(fi, n, "call", {"<callee>"}, c.func.fq))
                    out[-1].callee = c.func
                elif c.kind == "class" and c.cls and c.cls.startswith("multidecoder."):
                    continue
                elif c.kind == "ext":
                    d = c.ext
                    if d in EXTERNAL_RAISES:
                        cl = EXTERNAL_RAISES[d]
                        if d in ("max", "min") and (any(k.arg == "default" for k in n.keywords) or len(n.args) >= 2):
                            cl = set()
                        if d == "next" and len(n.args) >= 2:
                            cl = set()
                        if d in ("bytes", "bytearray", "int", "str", "list", "dict", "set", "tuple") and not n.args and not n.keywords:
                            cl = set()      # the empty constructor
                        if cl:
                            out.append(Construct(fi, n, "ext", cl, d))
                    elif d.startswith(("inspect.", "importlib.", "pkgutil.", "os.", "argparse.", "sys.")) or d == "open":
                        continue      # registry build / CLI plumbing: not on the scan path (scoped out by the caller)
                    elif d.startswith("multidecoder.") and d.rsplit(".", 1)[1] in ("get", "items", "keys", "values", "encode", "upper", "lower"):
                        continue      # total method of a module-level constant (dict.get, ...)
                    else:
                        out.append(Construct(fi, n, "ext-unknown", {"Exception"}, d))
                elif c.kind == "method":
                    cl = METHOD_RAISES.get(c.attr, set())
                    if c.attr in ("decode", "encode"):
                        err = next((k.value for k in n.keywords if k.arg == "errors"), n.args[1] if len(n.args) > 1 else None)
                        if err is not None and prog.try_fold(m, err) in ("ignore", "replace", "backslashreplace", "surrogatepass", "surrogateescape"):
                            cl = set()
                    if c.attr == "pop" and n.args:
                        cl = {"IndexError", "KeyError"}
                    if cl:
                        out.append(Construct(fi, n, "method", cl, c.attr))
                elif c.kind in ("param", "local"):
                    out.append(Construct(fi, n, "indirect-call", {"<indirect>"}, norm_src(n.func)))
            elif isinstance(n, ast.Subscript) and isinstance(n.ctx, ast.Load) and not isinstance(n.slice, ast.Slice):
                par = getattr(n, "_parent", None)
                if isinstance(par, ast.AnnAssign) and par.annotation is n:
                    continue
                if _in_annotation(n):
                    continue
                out.append(Construct(fi, n, "subscript", {"IndexError", "KeyError"}, norm_src(n)))
            elif isinstance(n, (ast.Assign, ast.For, ast.comprehension)) and isinstance(getattr(n, "targets", [getattr(n, "target", None)])[0], (ast.Tuple, ast.List)):
                out.append(Construct(fi, n, "unpack", {"ValueError"}, norm_src(n.targets[0] if isinstance(n, ast.Assign) else n.target)))
            elif isinstance(n, ast.BinOp) and isinstance(n.op, (ast.Div, ast.Mod, ast.FloorDiv)):
                if isinstance(n.op, ast.Mod) and isinstance(n.left, ast.Constant) and isinstance(n.left.value, (str, bytes)):
                    continue
                dv = prog.try_fold(m, n.right)
                if isinstance(dv, (int, float)) and dv != 0:
                    continue      # non-zero constant divisor
                out.append(Construct(fi, n, "division", {"ZeroDivisionError"}, norm_src(n)))
            elif isinstance(n, ast.Raise):
                cls = "Exception"
                if n.exc is not None:
                    e = n.exc.func if isinstance(n.exc, ast.Call) else n.exc
                    cls = self.class_name(m, e)
                out.append(Construct(fi, n, "raise", {cls}, cls))
            elif isinstance(n, ast.Assert):
                out.append(Construct(fi, n, "assert", {"AssertionError"}, norm_src(n.test)))
            elif isinstance(n, ast.Attribute) and isinstance(n.ctx, ast.Load) and n.attr in ATTR_RAISES and isinstance(getattr(n, "_parent", None), ast.Expr):
                out.append(Construct(fi, n, "attribute", ATTR_RAISES[n.attr], n.attr))
        return out

    # ------------------------------------------------------------------ handler coverage
    def handlers_over(self, fi: FuncInfo, node):
        """yield handler class names of the try bodies / suppress blocks enclosing `node` inside fi (innermost first)"""
        child = node
        for p in common.parents(node):
            if p is fi.node:
                break
            if isinstance(p, ast.Try) and any(child is b or _contains(b, child) for b in p.body):
                names = []
                for h in p.handlers:
                    if h.type is None:
                        names.append("BaseException")
                    else:
                        ts = h.type.elts if isinstance(h.type, ast.Tuple) else [h.type]
                        names += [self.class_name(fi.module, t) for t in ts]
                yield names
            if isinstance(p, ast.With):
                for it in p.items:
                    ce = it.context_expr
                    if isinstance(ce, ast.Call) and self.prog.dotted(fi.module, ce.func) == "contextlib.suppress" and any(child is b or _contains(b, child) for b in p.body):
                        yield [self.class_name(fi.module, a) for a in ce.args]
            child = p

    def covered(self, c: Construct, exc: str):
        for names in self.handlers_over(c.fi, c.node):
            for n in names:
                if covers(n, exc):
                    return n
        return None

    # ------------------------------------------------------------------ propagation
    def solve(self, discharge):
        """discharge(construct, exc) -> mechanism text or None. Computes self.escape by fixpoint."""
        for fi in self.funcs:
            self.escape[fi] = {}
        changed = True
        rounds = 0
        while changed and rounds < 20:
            changed = False
            rounds += 1
            for fi in self.funcs:
                esc = {}
                for c in self.constructs[fi]:
                    classes = set(c.classes)
                    if "<callee>" in classes:
                        classes.discard("<callee>")
                        classes |= set(self.escape.get(c.callee, {}).keys())
                    if "<indirect>" in classes:
                        classes.discard("<indirect>")
                    for exc in classes:
                        if exc in c.discharged:
                            continue
                        h = self.covered(c, exc)
                        if h:
                            c.discharged[exc] = f"handler {h}"
                            continue
                        mech = discharge(c, exc)
                        if mech:
                            c.discharged[exc] = mech
                            continue
                        esc.setdefault(exc, c)
                if set(esc) != set(self.escape[fi]):
                    self.escape[fi] = esc
                    changed = True
        return self.escape


def _contains(root, target):
    for n in ast.walk(root):
        if n is target:
            return True
    return False


def _in_annotation(n):
    child = n
    for p in common.parents(n):
        if isinstance(p, ast.arg) or (isinstance(p, ast.AnnAssign) and _contains(p.annotation, n)) or \
                (isinstance(p, (ast.FunctionDef,)) and p.returns is not None and _contains(p.returns, n)):
            return True
        child = p
    _ = child
    return False
