"""Exhaustive evaluation of a small pure function over a finite domain.

Some clauses are about a function whose whole input space is finite (the callback of the percent normaliser sees one of
22*22 two-hex-digit texts).  For those the function's syntax tree is interpreted here - nothing of the repository is imported
or executed - with a whitelist of pure builtins, for EVERY input, and compared with the documented table.  Any construct
outside the whitelist raises Unsupported: the caller reports the function as not analysable (never as correct)."""
from __future__ import annotations

import ast
import binascii

STR_METHODS = {"upper", "lower", "isalnum", "isalpha", "isdigit", "isascii", "isupper", "islower", "isspace", "encode", "decode", "startswith",
               "endswith", "strip", "lstrip", "rstrip", "hex", "zfill", "rjust", "ljust", "index", "find", "count", "title", "swapcase",
               "casefold", "isprintable", "isdecimal", "isnumeric", "replace", "format", "join", "to_bytes"}


class Unsupported(Exception):
    pass


class Raised(Exception):
    """the interpreted function raises"""

    def __init__(self, exc):
        super().__init__(repr(exc))
        self.exc = exc


class _Return(Exception):
    def __init__(self, v):
        self.v = v


class FakeMatch:
    """a match object whose groups are known texts"""

    def __init__(self, groups):
        self.groups_ = groups

    def group(self, *ks):
        ks = ks or (0,)
        out = tuple(self.groups_[k] for k in ks)
        return out[0] if len(out) == 1 else out

    def __getitem__(self, k):
        return self.groups_[k]

    def groups(self):
        return tuple(self.groups_[k] for k in sorted(self.groups_) if k)


class Evaluator:
    def __init__(self, prog, module, budget=20000):
        self.prog, self.module, self.budget = prog, module, budget

    # ------------------------------------------------------------------ functions
    def call_function(self, fn: ast.FunctionDef, args: list, outer: dict | None = None):
        env = dict(outer or {})
        names = [a.arg for a in fn.args.posonlyargs + fn.args.args]
        if len(args) > len(names) or fn.args.vararg or fn.args.kwarg:
            raise Unsupported("argument shape")
        defaults = fn.args.defaults
        for i, n in enumerate(names):
            if i < len(args):
                env[n] = args[i]
            else:
                j = i - (len(names) - len(defaults))
                if j < 0:
                    raise Unsupported("missing argument")
                env[n] = self.ev(defaults[j], env)
        try:
            self.block(fn.body, env)
        except _Return as r:
            return r.v
        return None

    def block(self, stmts, env):
        for st in stmts:
            self.budget -= 1
            if self.budget < 0:
                raise Unsupported("evaluation budget exhausted")
            if isinstance(st, ast.Expr):
                if not isinstance(st.value, ast.Constant):
                    self.ev(st.value, env)
            elif isinstance(st, ast.Pass):
                pass
            elif isinstance(st, ast.Return):
                raise _Return(self.ev(st.value, env) if st.value is not None else None)
            elif isinstance(st, ast.Assign):
                v = self.ev(st.value, env)
                for t in st.targets:
                    self.assign(t, v, env)
            elif isinstance(st, ast.AnnAssign):
                if st.value is not None:
                    self.assign(st.target, self.ev(st.value, env), env)
            elif isinstance(st, ast.AugAssign) and isinstance(st.target, ast.Name):
                env[st.target.id] = self.binop(st.op, env[st.target.id], self.ev(st.value, env))
            elif isinstance(st, ast.If):
                self.block(st.body if self.ev(st.test, env) else st.orelse, env)
            elif isinstance(st, ast.For) and not st.orelse:
                for x in self.ev(st.iter, env):
                    self.assign(st.target, x, env)
                    self.block(st.body, env)
            elif isinstance(st, ast.Raise):
                raise Raised(ast.unparse(st.exc) if st.exc else "re-raise")
            elif isinstance(st, ast.Try) and not st.finalbody:
                try:
                    self.block(st.body, env)
                except Raised as r:
                    for h in st.handlers:
                        if self.handler_matches(h, r.exc):
                            self.block(h.body, env)
                            break
                    else:
                        raise
                else:
                    self.block(st.orelse, env)
            else:
                raise Unsupported(f"statement {type(st).__name__}")

    def handler_matches(self, h, exc):
        if h.type is None:
            return True
        if not isinstance(exc, BaseException):
            raise Unsupported("handler for an explicit raise")
        names = [ast.unparse(t) for t in (h.type.elts if isinstance(h.type, ast.Tuple) else [h.type])]
        mro = {c.__name__ for c in type(exc).__mro__}
        return any(n.split(".")[-1] in mro for n in names)

    def assign(self, t, v, env):
        if isinstance(t, ast.Name):
            env[t.id] = v
        elif isinstance(t, (ast.Tuple, ast.List)):
            vs = list(v)
            if len(vs) != len(t.elts):
                raise Raised(ValueError("unpack"))
            for a, b in zip(t.elts, vs):
                self.assign(a, b, env)
        else:
            raise Unsupported("assignment target")

    # ------------------------------------------------------------------ expressions
    def guard(self, f, *a, **k):
        try:
            return f(*a, **k)
        except (Unsupported, Raised, _Return):
            raise
        except Exception as x:   # noqa: BLE001   the interpreted program raises this
            raise Raised(x)

    def binop(self, op, a, b):
        import operator as o
        table = {ast.Add: o.add, ast.Sub: o.sub, ast.Mult: o.mul, ast.FloorDiv: o.floordiv, ast.Mod: o.mod, ast.BitAnd: o.and_, ast.BitOr: o.or_,
                 ast.BitXor: o.xor, ast.LShift: o.lshift, ast.RShift: o.rshift}
        if type(op) not in table:
            raise Unsupported(f"operator {type(op).__name__}")
        if isinstance(op, (ast.Mult, ast.LShift)) and isinstance(b, int) and b > 64:
            raise Unsupported("large repetition")
        return self.guard(table[type(op)], a, b)

    def ev(self, e, env):
        self.budget -= 1
        if self.budget < 0:
            raise Unsupported("evaluation budget exhausted")
        if isinstance(e, ast.Constant):
            return e.value
        if isinstance(e, ast.Name):
            if e.id in env:
                return env[e.id]
            v = self.prog.try_fold(self.module, e)
            if v is None:
                raise Unsupported(f"name {e.id}")
            return v
        if isinstance(e, ast.BoolOp):
            v = None
            for x in e.values:
                v = self.ev(x, env)
                if isinstance(e.op, ast.And) and not v:
                    return v
                if isinstance(e.op, ast.Or) and v:
                    return v
            return v
        if isinstance(e, ast.UnaryOp):
            v = self.ev(e.operand, env)
            if isinstance(e.op, ast.Not):
                return not v
            if isinstance(e.op, ast.USub):
                return self.guard(lambda: -v)
            if isinstance(e.op, ast.Invert):
                return self.guard(lambda: ~v)
            raise Unsupported("unary operator")
        if isinstance(e, ast.BinOp):
            return self.binop(e.op, self.ev(e.left, env), self.ev(e.right, env))
        if isinstance(e, ast.IfExp):
            return self.ev(e.body if self.ev(e.test, env) else e.orelse, env)
        if isinstance(e, ast.Compare):
            left = self.ev(e.left, env)
            for op, r in zip(e.ops, e.comparators):
                right = self.ev(r, env)
                import operator as o
                table = {ast.Lt: o.lt, ast.LtE: o.le, ast.Gt: o.gt, ast.GtE: o.ge, ast.Eq: o.eq, ast.NotEq: o.ne, ast.Is: o.is_, ast.IsNot: o.is_not,
                         ast.In: lambda a, b: a in b, ast.NotIn: lambda a, b: a not in b}
                if not self.guard(table[type(op)], left, right):
                    return False
                left = right
            return True
        if isinstance(e, (ast.Tuple, ast.List)):
            vs = [self.ev(x, env) for x in e.elts]
            return tuple(vs) if isinstance(e, ast.Tuple) else vs
        if isinstance(e, ast.Set):
            return frozenset(self.ev(x, env) for x in e.elts)
        if isinstance(e, ast.Subscript):
            base = self.ev(e.value, env)
            if isinstance(e.slice, ast.Slice):
                lo, hi, st = (self.ev(x, env) if x is not None else None for x in (e.slice.lower, e.slice.upper, e.slice.step))
                return self.guard(lambda: base[lo:hi:st])
            k = self.ev(e.slice, env)
            return self.guard(lambda: base[k])
        if isinstance(e, ast.JoinedStr):
            out = []
            for v in e.values:
                if isinstance(v, ast.Constant):
                    out.append(v.value)
                elif isinstance(v, ast.FormattedValue) and v.conversion in (-1, 115, 114):
                    x = self.ev(v.value, env)
                    spec = self.ev(v.format_spec, env) if v.format_spec is not None else ""
                    out.append(self.guard(format, repr(x) if v.conversion == 114 else x, spec))
                else:
                    raise Unsupported("format conversion")
            return "".join(out)
        if isinstance(e, (ast.GeneratorExp, ast.ListComp, ast.SetComp)) and len(e.generators) == 1 and not e.generators[0].is_async:
            g = e.generators[0]
            out = []
            for x in self.ev(g.iter, env):
                env2 = dict(env)
                self.assign(g.target, x, env2)
                if all(self.ev(c, env2) for c in g.ifs):
                    out.append(self.ev(e.elt, env2))
            return frozenset(out) if isinstance(e, ast.SetComp) else out
        if isinstance(e, ast.Call):
            return self.call(e, env)
        if isinstance(e, ast.Attribute):
            d = self.prog.dotted(self.module, e)
            if d == "string.ascii_letters":
                import string
                return string.ascii_letters
            if d == "string.digits":
                return "0123456789"
            v = self.prog.try_fold(self.module, e)
            if v is None:
                raise Unsupported(f"attribute {ast.unparse(e)}")
            return v
        raise Unsupported(f"expression {type(e).__name__}")

    def call(self, e, env):
        if e.keywords and any(k.arg is None for k in e.keywords):
            raise Unsupported("**kwargs")
        args = []
        for a in e.args:
            if isinstance(a, ast.Starred):
                args.extend(self.ev(a.value, env))
            else:
                args.append(self.ev(a, env))
        kw = {k.arg: self.ev(k.value, env) for k in e.keywords}
        d = self.prog.dotted(self.module, e.func) or ""
        pure = {"binascii.unhexlify": binascii.unhexlify, "binascii.a2b_hex": binascii.a2b_hex, "binascii.hexlify": binascii.hexlify,
                "binascii.b2a_hex": binascii.b2a_hex, "bytes.fromhex": bytes.fromhex, "bytearray.fromhex": bytearray.fromhex,
                "int": int, "chr": chr, "ord": ord, "bytes": bytes, "bytearray": bytearray, "len": len, "str": str, "bool": bool, "hex": hex,
                "min": min, "max": max, "abs": abs, "tuple": tuple, "list": list, "set": frozenset, "frozenset": frozenset, "sorted": sorted,
                "any": any, "all": all, "range": self._range, "int.from_bytes": int.from_bytes, "isinstance": None,
                "urllib.parse.unquote_to_bytes": None}
        if d in pure and pure[d] is not None and not (isinstance(e.func, ast.Name) and e.func.id in env):
            return self.guard(pure[d], *args, **kw)
        if isinstance(e.func, ast.Attribute):
            recv = self.ev(e.func.value, env)
            name = e.func.attr
            if isinstance(recv, FakeMatch) and name in ("group", "groups"):
                return self.guard(getattr(recv, name), *args)
            if isinstance(recv, (str, bytes, bytearray, int)) and name in STR_METHODS and hasattr(recv, name):
                return self.guard(getattr(recv, name), *args, **kw)
            raise Unsupported(f"method {name} on {type(recv).__name__}")
        if isinstance(e.func, ast.Name):
            r = self.prog.resolve_func_name(self.module, e.func.id, None)
            if r and r.kind == "repo" and isinstance(r.func.node, ast.FunctionDef):
                return Evaluator.call_function(self._sub(r.func.module), r.func.node, args)
        raise Unsupported(f"call {d or ast.unparse(e.func)}")

    def _sub(self, module):
        sub = Evaluator(self.prog, module, self.budget)
        return sub

    def _range(self, *a):
        r = range(*a)
        if len(r) > 4096:
            raise Unsupported("long range")
        return r
