"""E6 - affine frame analysis of Multidecoder.scan_node.

An abstract interpretation of the hit loop over an affine store (variables and the span fields of the
abstract objects HIT / NODE / PARENT are linear forms over the symbols below) with trace partitioning at
branches, plus path facts (linear inequalities) discharged by Fourier-Motzkin entailment.

Symbols (all in the coordinate frame of the scanned value, "ABS"):
  s, e     span of the hit as the decoder returned it
  A        absolute origin of the current node at loop head       (invariant (i): OFFSET = A(NODE))
  lam      len(NODE.value);   sig  NODE.start (relative to its own parent)
  D        DEND at loop head: ABS end of the last decoded hit      (invariant (iv))

The engine checks that the loop invariant of DESIGN.md 2.6 is inductive and that the verification conditions
V1-V10 hold. Roles (HIT, NODE, STACK, OFFSET, DEND) are inferred from dataflow anchors, never from names."""
from __future__ import annotations

import ast
from dataclasses import dataclass, field

from . import guards as G
from .core import norm_src
from .lin import Lin, entails_eq, entails_nonneg, lin
from .model import AnalysisError, need, own_nodes
from .rules import common


class Obj:
    def __init__(self, name, fields=None):
        self.name = name
        self.f = dict(fields or {})

    def __repr__(self):
        return f"<{self.name}>"


class Unknown:
    def __init__(self, why):
        self.why = why

    def __repr__(self):
        return f"?({self.why})"


@dataclass
class VC:
    vc: str
    key: str
    ok: bool
    line: int
    what: str
    detail: str = ""


@dataclass
class Roles:
    fn: object = None
    loop: ast.For = None
    sorted_call: ast.Call = None
    HIT: str = None
    NODE: str = None
    STACK: str = None
    OFFSET: str = None
    DEND: str = None
    stack_expr_is_local: bool = True
    votes: dict = field(default_factory=dict)


class State:
    def __init__(self):
        self.v = {}
        self.facts: list[Lin] = []      # each >= 0
        self.events = []
        self.shifted = 0
        self.pushed = []
        self.parent_of_hit = None
        self.popped = False
        self.conds = []                 # (kind, formula-text, stmt)

    def clone(self):
        n = State()
        memo = {}

        def cp(val):
            if isinstance(val, Obj):
                if id(val) not in memo:
                    memo[id(val)] = Obj(val.name, dict(val.f))
                return memo[id(val)]
            return val
        n.v = {k: cp(v) for k, v in self.v.items()}
        n.facts = list(self.facts)
        n.events = [(k, tuple(cp(x) for x in a) if isinstance(a, tuple) else cp(a), st) for k, a, st in self.events]
        n.shifted = self.shifted
        n.pushed = [cp(x) for x in self.pushed]
        n.parent_of_hit = cp(self.parent_of_hit)
        n.popped = self.popped
        n.conds = list(self.conds)
        return n


def _is_zero(e):
    return isinstance(e, ast.Constant) and e.value == 0 and not isinstance(e.value, bool)


def _is_empty_list(e):
    return (isinstance(e, ast.List) and not e.elts) or (
        isinstance(e, ast.Call) and isinstance(e.func, ast.Name) and e.func.id == "list" and not e.args)


def infer_roles(prog) -> Roles:
    sn = prog.fn("multidecoder.Multidecoder.scan_node")
    R = Roles(fn=sn)
    need(len(sn.params) >= 2, "anchor: scan_node(self, node, ...) signature")
    R.NODE = sn.params[1]
    # the hit loop: a top-level `for` over (a variable holding) sorted(...)
    assigns = {}
    for n in own_nodes(sn.node):
        if isinstance(n, ast.Assign) and len(n.targets) == 1 and isinstance(n.targets[0], ast.Name):
            assigns.setdefault(n.targets[0].id, []).append(n.value)
    dec_calls = common.decoder_invocations(prog, sn)
    need(dec_calls, "anchor: scan_node does not invoke the registry's decoders")

    def holds_decoders(e):
        return any(any(x is d for x in ast.walk(e)) for d in dec_calls)

    def expand(e, depth=0):
        """inline single-assignment temporaries (hits = [...]; results = sorted(hits, ...)): new outer nodes, original inner nodes"""
        if depth > 4:
            return e
        if isinstance(e, ast.Name) and isinstance(e.ctx, ast.Load) and len(assigns.get(e.id, [])) == 1:
            return expand(assigns[e.id][0], depth + 1)
        if isinstance(e, ast.Call):
            new = ast.Call(func=e.func, args=[expand(a, depth + 1) for a in e.args],
                           keywords=[ast.keyword(arg=k.arg, value=k.value) for k in e.keywords])
            return ast.copy_location(new, e)
        return e
    def comp_from_fill(F, C):
        """`for s in D: C.extend(h for h in s(x) if c)`  /  `for s in D: for h in s(x): [if c:] C.append(h)`  as one comprehension"""
        if not (isinstance(F.target, ast.Name) and len(F.body) == 1 and not F.orelse):
            return None
        outer = ast.comprehension(target=F.target, iter=F.iter, ifs=[], is_async=0)
        b = F.body[0]
        if isinstance(b, ast.Expr) and isinstance(b.value, ast.Call) and isinstance(b.value.func, ast.Attribute) and b.value.func.attr == "extend" and \
                common.is_name(b.value.func.value, C) and len(b.value.args) == 1 and isinstance(b.value.args[0], (ast.GeneratorExp, ast.ListComp)) and \
                len(b.value.args[0].generators) == 1:
            g = b.value.args[0]
            return ast.copy_location(ast.ListComp(elt=g.elt, generators=[outer, g.generators[0]]), F)
        if isinstance(b, ast.For) and isinstance(b.target, ast.Name) and len(b.body) == 1 and not b.orelse:
            inner, ifs = b.body[0], []
            if isinstance(inner, ast.If) and len(inner.body) == 1 and not inner.orelse:
                ifs, inner = [inner.test], inner.body[0]
            if isinstance(inner, ast.Expr) and isinstance(inner.value, ast.Call) and isinstance(inner.value.func, ast.Attribute) and \
                    inner.value.func.attr == "append" and common.is_name(inner.value.func.value, C) and len(inner.value.args) == 1:
                g1 = ast.comprehension(target=b.target, iter=b.iter, ifs=ifs, is_async=0)
                return ast.copy_location(ast.ListComp(elt=inner.value.args[0], generators=[outer, g1]), F)
        return None

    def synth_iter(st):
        """the loop's iterable as `sorted(<comprehension>, key=...)` when it is built that way in several statements:
        C = [...] / C = [] + filling loop, then C.sort(key=...) or sorted(C, key=...)"""
        it = expand(st.iter)
        if holds_decoders(it) and isinstance(it, ast.Call) and common.is_name(it.func, "sorted"):
            return it
        fallback = it if holds_decoders(it) else None
        r = synth_from_statements(st)
        return r if r is not None else fallback

    def synth_from_statements(st):
        base, sort_kw, sort_at = st.iter, None, None
        if isinstance(base, ast.Call) and common.is_name(base.func, "sorted") and len(base.args) == 1:
            sort_kw, base = list(base.keywords), base.args[0]
        if not isinstance(base, ast.Name):
            return None
        # results = sorted(found, key=...): look through the sorted temporary to the collection it sorts
        for _hop in range(3):
            defs = assigns.get(base.id, [])
            if sort_kw is None and len(defs) == 1 and isinstance(defs[0], ast.Call) and common.is_name(defs[0].func, "sorted") and \
                    len(defs[0].args) == 1 and isinstance(defs[0].args[0], ast.Name):
                sort_kw, sort_at, base = list(defs[0].keywords), defs[0], defs[0].args[0]
            else:
                break
        C = base.id
        init = comp = None
        fills, sorts = [], []
        for i, s_ in enumerate(sn.node.body):
            if s_ is st:
                break
            tgt = val = None
            if isinstance(s_, ast.Assign) and len(s_.targets) == 1 and isinstance(s_.targets[0], ast.Name):
                tgt, val = s_.targets[0].id, s_.value
            elif isinstance(s_, ast.AnnAssign) and isinstance(s_.target, ast.Name) and s_.value is not None:
                tgt, val = s_.target.id, s_.value
            mentions = any(isinstance(x, ast.Name) and x.id == C for x in ast.walk(s_))
            if val is not None and val is sort_at:
                continue      # results = sorted(C, key=...): the temporary we looked through
            if tgt == C:
                init, fills, sorts = val, [], []
            elif isinstance(s_, ast.Expr) and isinstance(s_.value, ast.Call) and isinstance(s_.value.func, ast.Attribute) and \
                    s_.value.func.attr == "sort" and common.is_name(s_.value.func.value, C) and not s_.value.args:
                sorts.append((i, s_.value))
            elif isinstance(s_, ast.For) and mentions:
                fills.append((i, s_))
            elif mentions:
                return None
        if isinstance(init, (ast.ListComp, ast.GeneratorExp)) and not fills:
            comp = init
        elif init is not None and _is_empty_list(init) and len(fills) == 1:
            comp = comp_from_fill(fills[0][1], C)
        if comp is None or len(sorts) > 1 or (sorts and sort_kw is not None) or (sorts and fills and sorts[0][0] < fills[0][0]):
            return None
        if sorts:
            sort_kw = list(sorts[0][1].keywords)
            sort_at = sorts[0][1]
        sort_at_ = sort_at
        if sort_kw is None:
            return comp
        call = ast.Call(func=ast.Name(id="sorted", ctx=ast.Load()), args=[comp], keywords=sort_kw)
        return ast.copy_location(call, sort_at if sort_at is not None else st.iter)
    cands = []
    for st in sn.node.body:
        if isinstance(st, ast.For) and isinstance(st.target, ast.Name):
            it = synth_iter(st)
            if it is not None and holds_decoders(it):
                cands.append((st, it))
    need(len(cands) == 1, f"anchor: expected one top-level hit loop over the decoders' results in scan_node, found {len(cands)}")
    R.loop, it = cands[0]
    R.HIT = R.loop.target.id
    R.sorted_call = it if (isinstance(it, ast.Call) and isinstance(it.func, ast.Name) and it.func.id == "sorted") else None
    R.iter_expr = it
    # candidates initialised before the loop
    zero_locals, list_locals = set(), set()
    for st in sn.node.body:
        if st is R.loop:
            break
        tgt = val = None
        if isinstance(st, ast.Assign) and len(st.targets) == 1 and isinstance(st.targets[0], ast.Name):
            tgt, val = st.targets[0].id, st.value
        elif isinstance(st, ast.AnnAssign) and isinstance(st.target, ast.Name) and st.value is not None:
            tgt, val = st.target.id, st.value
        if tgt:
            if _is_zero(val):
                zero_locals.add(tgt)
            if _is_empty_list(val):
                list_locals.add(tgt)
    R.zero_locals, R.list_locals = zero_locals, list_locals
    votes = {"OFFSET": {}, "DEND": {}, "STACK": {}}

    def vote(role, name, why):
        votes[role].setdefault(name, []).append(why)
    H, N = R.HIT, R.NODE
    for n in ast.walk(R.loop):
        # STACK: X.append(NODE) / NODE = X.pop()
        if isinstance(n, ast.Call) and isinstance(n.func, ast.Attribute):
            f = n.func
            if f.attr == "append" and len(n.args) == 1 and common.is_name(n.args[0], N) and not (
                    isinstance(f.value, ast.Attribute) and f.value.attr == "children"):
                vote("STACK", norm_src(f.value), "append(NODE)")
            if f.attr == "pop" and isinstance(getattr(n, "_parent", None), ast.Assign) and common.is_name(n._parent.targets[0], N):
                vote("STACK", norm_src(f.value), "NODE = pop()")
            if f.attr == "shift" and common.is_name(f.value, H) and n.args:
                for x in ast.walk(n.args[0]):
                    if isinstance(x, ast.Name) and x.id in zero_locals:
                        vote("OFFSET", x.id, "shift argument")
        if isinstance(n, ast.While):
            for x in ast.walk(n.test):
                if isinstance(x, ast.Name) and x.id in zero_locals:
                    vote("OFFSET", x.id, "pop-loop condition")
        if isinstance(n, ast.AugAssign) and isinstance(n.target, ast.Name) and n.target.id in zero_locals:
            if any(isinstance(x, ast.Attribute) and x.attr == "start" for x in ast.walk(n.value)):
                vote("OFFSET", n.target.id, "accumulates a start")
        if isinstance(n, ast.If) and any(isinstance(b, ast.Continue) for b in n.body):
            names = {x.id for x in ast.walk(n.test) if isinstance(x, ast.Name)}
            if H in names:
                for x in names & zero_locals:
                    if any(common.is_attr(y, H, "end") for y in ast.walk(n.test)):
                        vote("DEND", x, "skip guard compares it with HIT.end")
        if isinstance(n, ast.Assign) and len(n.targets) == 1 and isinstance(n.targets[0], ast.Name) and n.targets[0].id in zero_locals:
            if any(common.is_attr(y, H, "end") for y in ast.walk(n.value)) or any(
                    isinstance(y, ast.Name) and y.id not in zero_locals and y.id not in (H, N) for y in ast.walk(n.value)):
                vote("DEND", n.targets[0].id, "assigned an end")
    R.votes = votes

    def pick(role, exclude=()):
        c = {k: v for k, v in votes[role].items() if k not in exclude}
        if not c:
            return None
        best = sorted(c.items(), key=lambda kv: (-len(kv[1]), kv[0]))
        if len(best) > 1 and len(best[0][1]) == len(best[1][1]):
            raise AnalysisError(f"anchor: ambiguous {role} role in scan_node: {sorted(c)}")
        return best[0][0]
    R.STACK = pick("STACK")
    R.DEND = pick("DEND")
    R.OFFSET = pick("OFFSET", exclude=(R.DEND,) if R.DEND and len(votes["OFFSET"]) > 1 else ())
    if R.OFFSET == R.DEND and R.OFFSET is not None:
        # one variable plays both roles: keep the stronger and leave the other unresolved
        if len(votes["OFFSET"].get(R.OFFSET, [])) >= len(votes["DEND"].get(R.DEND, [])):
            R.DEND = None
        else:
            R.OFFSET = None
    return R


class FrameAnalysis:
    def __init__(self, prog):
        self.prog = prog
        self.vcs: list[VC] = []
        self.R = infer_roles(prog)
        self.sn = self.R.fn
        self.mod = self.sn.module
        self.assumptions = []
        self.has_stack_guard_in_pop_loop = None
        self.pop_loop = None
        self.node_start_reads = []
        self.run()

    # ------------------------------------------------------------------ reporting
    def report(self, vc, key, ok, node, what, detail=""):
        self.vcs.append(VC(vc, key, bool(ok), getattr(node, "lineno", self.sn.lineno), what, "" if ok else detail))
        return ok

    # ------------------------------------------------------------------ evaluation
    def ev(self, st: State, e):
        R = self.R
        if isinstance(e, ast.Constant) and isinstance(e.value, int) and not isinstance(e.value, bool):
            return Lin(e.value)
        if isinstance(e, ast.Name):
            return st.v.get(e.id, Unknown(e.id))
        if isinstance(e, ast.Attribute):
            b = self.ev(st, e.value)
            if isinstance(b, Obj):
                return b.f.get(e.attr, Unknown(f"{b.name}.{e.attr}"))
            return Unknown(norm_src(e))
        if isinstance(e, ast.UnaryOp) and isinstance(e.op, ast.USub):
            x = self.ev(st, e.operand)
            return -x if isinstance(x, Lin) else Unknown("neg")
        if isinstance(e, ast.BinOp) and isinstance(e.op, (ast.Add, ast.Sub)):
            a, b = self.ev(st, e.left), self.ev(st, e.right)
            if isinstance(a, Lin) and isinstance(b, Lin):
                return a + b if isinstance(e.op, ast.Add) else a - b
            return Unknown(norm_src(e))
        if isinstance(e, ast.Call) and isinstance(e.func, ast.Name) and e.func.id == "len" and len(e.args) == 1:
            a = e.args[0]
            if isinstance(a, ast.Attribute) and a.attr == "value":
                b = self.ev(st, a.value)
                if isinstance(b, Obj):
                    return b.f.get("len", Unknown("len"))
            if isinstance(a, ast.Name) and isinstance(st.v.get(a.id), tuple) and st.v[a.id][0] == "value-of":
                return st.v[a.id][1].f.get("len", Unknown("len"))
            return Unknown(norm_src(e))
        if isinstance(e, ast.Call) and isinstance(e.func, ast.Name) and e.func.id in ("max", "min") and len(e.args) == 2:
            a, b = self.ev(st, e.args[0]), self.ev(st, e.args[1])
            if isinstance(a, Lin) and isinstance(b, Lin):
                if entails_nonneg(st.facts, b - a):
                    return b if e.func.id == "max" else a
                if entails_nonneg(st.facts, a - b):
                    return a if e.func.id == "max" else b
            return Unknown(norm_src(e))
        if isinstance(e, ast.NamedExpr):
            return self.ev(st, e.value)
        return Unknown(norm_src(e))

    def cmp(self, st, e):
        """comparison -> (diff, op) meaning diff op 0 with op in <=,==,!= ; None if not affine."""
        if isinstance(e, ast.UnaryOp) and isinstance(e.op, ast.Not):
            c = self.cmp(st, e.operand)
            return None if c is None else negate(*c)
        if isinstance(e, ast.Compare) and len(e.ops) == 1:
            a, b = self.ev(st, e.left), self.ev(st, e.comparators[0])
            op = {ast.Lt: "<", ast.LtE: "<=", ast.Gt: ">", ast.GtE: ">=", ast.Eq: "==", ast.NotEq: "!="}.get(type(e.ops[0]))
            if isinstance(a, Lin) and isinstance(b, Lin) and op:
                return norm(a - b, op)
        return None

    # ------------------------------------------------------------------ main
    def run(self):
        R = self.R
        sn = self.sn
        H, N = R.HIT, R.NODE
        self.check_v1()
        self.check_v2()
        self.check_shift_summary()
        for role in ("STACK", "OFFSET", "DEND"):
            if getattr(R, role) is None:
                self.report("V10", f"role-{role}", False, R.loop,
                            f"the {role} role of the context-tracking loop is present",
                            f"no variable plays the {role} role (anchors: {R.votes.get(role)})")
        if R.OFFSET is None or R.STACK is None:
            return
        s, e, A, lam, sig, D = (Lin.sym(x) for x in ("s", "e", "A", "lam", "sig", "D"))
        self.sym = dict(s=s, e=e, A=A, lam=lam, sig=sig, D=D)
        st = State()
        HIT = Obj("HIT", {"start": s, "end": e})
        NODE = Obj("NODE", {"start": sig, "len": lam})
        st.v = {H: HIT, N: NODE, R.OFFSET: A}
        if R.DEND:
            st.v[R.DEND] = D
        st.v[R.STACK] = ("stack",)
        # axioms: hit well-formed, lengths non-negative, ordering invariant (v): s >= A
        st.facts = [e - s, s - A, lam, A, D]
        self.finals = []
        ends = self.block(R.loop.body, st)
        for fs in ends:
            self.finals.append(("fall", fs))
        self.judge_paths()
        self.check_return()
        self.check_children_arm()
        self.check_read_set()
        self.check_other_writes()

    # -- V1 -------------------------------------------------------------------------------
    def check_v1(self):
        R = self.R
        sn = self.sn
        params = set(sn.params)
        for role, init in (("STACK", "[]"), ("OFFSET", "0"), ("DEND", "0")):
            name = getattr(R, role)
            if name is None:
                continue
            is_local_name = name.isidentifier() and name not in params
            pool = R.list_locals if role == "STACK" else R.zero_locals
            ok = is_local_name and name in pool
            # assigned exactly once before the loop, at the function's top level
            self.report("V1", f"init-{role}", ok, R.loop,
                        f"{role} is a local initialised to {init} inside every activation, before the hit loop",
                        f"`{name}` is not a fresh local initialised to {init} in scan_node "
                        "(state shared across activations or carried into the recursive scan)")
        # no mutable default arguments / extra state parameters
        a = sn.node.args
        for d in list(a.defaults) + [x for x in a.kw_defaults if x is not None]:
            bad = isinstance(d, (ast.List, ast.Dict, ast.Set, ast.Call))
            self.report("V1", "no-mutable-default", not bad, d, "scan_node has no mutable default argument",
                        f"default `{norm_src(d)}` is shared between calls")

    # -- V2 -------------------------------------------------------------------------------
    def check_v2(self):
        R = self.R
        sc = R.sorted_call
        if sc is None:
            self.report("V2", "sorted", False, R.loop, "hits are ordered by sorted(...) before the loop",
                        f"loop iterates `{common.short_src(R.iter_expr)}`, not a sorted() result")
            return
        kw = {k.arg: k.value for k in sc.keywords}
        rev = kw.get("reverse")
        self.report("V2", "no-reverse", rev is None or (isinstance(rev, ast.Constant) and rev.value is False), sc,
                    "the sort is ascending (no reverse=True)", f"reverse={norm_src(rev) if rev is not None else None}")
        key = kw.get("key")
        okk, det = False, "no key function"
        if key is not None:
            fn_node = None
            if isinstance(key, ast.Lambda):
                fn_node = key
            elif isinstance(key, ast.Name):
                r = self.prog.resolve_func_name(self.mod, key.id, self.sn)
                if r.kind == "repo":
                    fn_node = r.func.node
            if fn_node is not None:
                args = fn_node.args.args
                body = fn_node.body if isinstance(fn_node, ast.Lambda) else (
                    fn_node.body[-1].value if fn_node.body and isinstance(fn_node.body[-1], ast.Return) else None)
                if len(args) >= 1 and isinstance(body, ast.Tuple):
                    p = args[-1].arg if not isinstance(fn_node, ast.Lambda) and args[0].arg == "self" else args[0].arg

                    def atom(x):
                        if isinstance(x, ast.Attribute) and isinstance(x.value, ast.Name) and x.value.id == p and x.attr in ("start", "end"):
                            return Lin.sym(x.attr)
                        return None
                    from .lin import lin_of_ast
                    forms = [lin_of_ast(x, atom) for x in body.elts]
                    det = f"key is {norm_src(body)}"
                    if len(forms) == 2 and all(f is not None for f in forms):
                        f0, f1 = forms
                        okk = (set(f0.t) == {"start"} and f0.t["start"] > 0 and set(f1.t) == {"end"} and f1.t["end"] < 0)
                    elif len(forms) > 2:
                        det += " (extra tie-breakers change the registry-order tie rule)"
                else:
                    det = f"key is {common.short_src(key)}"
        self.report("V2", "sort-key", okk, sc, "sort key orders by start ascending, then end descending, nothing else", det)
        # generator shape
        gen = sc.args[0] if sc.args else None
        shape_ok, det = False, "first argument of sorted() is not a generator/list comprehension"
        if isinstance(gen, (ast.GeneratorExp, ast.ListComp)):
            gens = gen.generators
            det = f"`{common.short_src(gen)}`"
            if len(gens) == 2 and isinstance(gens[0].target, ast.Name) and isinstance(gens[1].target, ast.Name):
                search, hit = gens[0].target.id, gens[1].target.id
                outer_is_registry = any(isinstance(x, ast.Attribute) and x.attr == "decoders" for x in ast.walk(gens[0].iter))
                inner = gens[1].iter
                inner_ok = (isinstance(inner, ast.Call) and common.is_name(inner.func, search) and len(inner.args) == 1
                            and not inner.keywords and common.is_attr(inner.args[0], self.R.NODE, "value"))
                elt_ok = common.is_name(gen.elt, hit)
                filt0 = not gens[0].ifs
                filt1 = len(gens[1].ifs) == 1 and common.is_attr(gens[1].ifs[0], hit, "value")
                shape_ok = outer_is_registry and inner_ok and elt_ok and filt0 and filt1
                if not inner_ok:
                    det += " - decoders are not called with exactly NODE.value"
                elif not (filt0 and filt1):
                    det += " - the only filter allowed is `hit.value` (drop empty hits)"
        self.report("V2", "generator-shape", shape_ok, sc,
                    "hits are enumerated registry-outer / decoder-result-inner, decoders receive NODE.value only, "
                    "only empty-valued hits are filtered", det)

    def check_shift_summary(self):
        node_mod = self.prog.mod("node")
        need("Node.shift" in node_mod.funcs, "anchor: Node.shift not found")
        sh = node_mod.funcs["Node.shift"]
        need(len(sh.params) >= 2, "anchor: Node.shift(self, offset)")
        slf, par = sh.params[0], sh.params[1]
        summ = {}
        other = []
        for n in own_nodes(sh.node):
            if isinstance(n, ast.AugAssign) and isinstance(n.target, ast.Attribute) and common.is_name(n.target.value, slf):
                from .lin import lin_of_ast
                v = lin_of_ast(n.value, lambda x: Lin.sym(x.id) if isinstance(x, ast.Name) else None)
                k = None
                if v is not None and set(v.t) <= {par} and v.c == 0:
                    k = v.t.get(par, 0) * (1 if isinstance(n.op, ast.Add) else -1 if isinstance(n.op, ast.Sub) else None)
                summ[n.target.attr] = summ.get(n.target.attr, 0) + k if k is not None else "?"
            elif isinstance(n, ast.Assign):
                for t in n.targets:
                    if isinstance(t, ast.Attribute) and common.is_name(t.value, slf):
                        from .lin import lin_of_ast

                        def atom(x, slf=slf):
                            if isinstance(x, ast.Attribute) and common.is_name(x.value, slf):
                                return Lin.sym("self." + x.attr)
                            if isinstance(x, ast.Name):
                                return Lin.sym(x.id)
                            return None
                        v = lin_of_ast(n.value, atom)
                        if v is not None and v.c == 0 and set(v.t) == {"self." + t.attr, par} and v.t["self." + t.attr] == 1:
                            summ[t.attr] = summ.get(t.attr, 0) + v.t[par] if summ.get(t.attr, 0) != "?" else "?"
                        else:
                            summ[t.attr] = "?"
        rets = [n for n in own_nodes(sh.node) if isinstance(n, ast.Return)]
        ret_self = bool(rets) and all(common.is_name(r.value, slf) for r in rets)
        self.shift_summary = summ
        self.report("V5", "Node.shift-summary", summ == {"start": 1, "end": 1}, sh.node,
                    "Node.shift adds its argument once to start and once to end, and touches nothing else",
                    f"effect summary of Node.shift: {summ}")
        self.report("V5", "Node.shift-returns-self", ret_self, sh.node, "Node.shift returns the node it shifted",
                    "shift() does not return self on every path (callers use `parse_ip(x).shift(k)` as a value)")
        _ = other

    # -- abstract interpretation of the loop body -----------------------------------------
    def block(self, stmts, st):
        cur = [st]
        for stmt in stmts:
            nxt = []
            for s0 in cur:
                nxt += self.step(stmt, s0)
            cur = nxt
        return cur

    def step(self, stmt, st: State):
        R = self.R
        H, N = R.HIT, R.NODE
        if isinstance(stmt, ast.If):
            # `if STACK:` inside the pop loop
            if st.v.get("__inpop") and self.is_stack_truth(stmt.test):
                a = st.clone()
                out = self.block(stmt.body, a)
                # the empty-stack arm is excluded by the premise "hits are in bounds" (C01/C03 own it)
                self.assumptions.append("pop loop with an empty stack is unreachable when every hit lies inside the scanned value")
                return out
            a, b = st.clone(), st.clone()
            xt = self.xtest(stmt.test)
            c = self.cmp(st, xt)
            if c is not None:
                d, op = c
                if op == "<=":
                    a.facts.append(-d)
                    b.facts.append(d - 1)
                elif op == "==":
                    a.facts += [d, -d]
            a.conds.append(("+", xt, stmt, c, self.snapshot(st)))
            b.conds.append(("-", xt, stmt, c, self.snapshot(st)))
            return self.block(stmt.body, a) + self.block(stmt.orelse, b)
        if isinstance(stmt, ast.Continue):
            self.finals.append(("continue", st))
            return []
        if isinstance(stmt, (ast.Break, ast.Return)):
            self.report("V10", "no-early-exit", False, stmt, "the hit loop has no break/return (no hit is lost)",
                        f"`{common.short_src(stmt)}` leaves the loop early")
            return [st]   # keep judging the path as if it fell through, so the other conditions are still evaluated
        if isinstance(stmt, ast.While):
            return self.pop_loop_step(stmt, st)
        if isinstance(stmt, ast.Expr) and isinstance(stmt.value, ast.Call):
            return self.call_stmt(stmt, stmt.value, st)
        if isinstance(stmt, (ast.Assign, ast.AnnAssign)):
            targets = stmt.targets if isinstance(stmt, ast.Assign) else [stmt.target]
            value = stmt.value
            if len(targets) == 1:
                t = targets[0]
                if isinstance(t, ast.Name):
                    if isinstance(value, ast.Call) and isinstance(value.func, ast.Attribute) and value.func.attr == "pop" \
                            and norm_src(value.func.value) == R.STACK:
                        st.v[t.id] = st.v.get("__PARENT", Unknown("pop outside the pop loop"))
                        st.popped = True
                        if "__PARENT" not in st.v:
                            self.report("V4", "pop-outside-loop", False, stmt, "contexts are popped only by the pop loop",
                                        f"`{common.short_src(stmt)}`")
                        return [st]
                    if isinstance(value, ast.Call) and isinstance(value.func, ast.Attribute) and value.func.attr == "shift" \
                            and common.is_name(value.func.value, H):
                        self.do_shift(value, st, stmt)
                        st.v[t.id] = st.v[H]
                        return [st]
                    if isinstance(value, ast.Attribute) and value.attr == "value":
                        b = self.ev(st, value.value)
                        if isinstance(b, Obj):
                            st.v[t.id] = ("value-of", b)
                            return [st]
                    st.v[t.id] = self.ev(st, value)
                    return [st]
                if isinstance(t, ast.Attribute):
                    o = self.ev(st, t.value)
                    if t.attr == "parent" and isinstance(o, Obj) and o.name == "HIT":
                        st.parent_of_hit = self.ev(st, value)
                        return [st]
                    if isinstance(o, Obj) and t.attr in ("start", "end"):
                        o.f[t.attr] = self.ev(st, value)
                        st.events.append(("span-write", (o, t.attr), stmt))
                        return [st]
                    if isinstance(o, Obj):
                        st.events.append(("field-write", (o, t.attr), stmt))
                        return [st]
            return [st]
        if isinstance(stmt, ast.AugAssign):
            if isinstance(stmt.target, ast.Name) and isinstance(stmt.op, (ast.Add, ast.Sub)):
                a = st.v.get(stmt.target.id)
                b = self.ev(st, stmt.value)
                if isinstance(a, Lin) and isinstance(b, Lin):
                    st.v[stmt.target.id] = a + b if isinstance(stmt.op, ast.Add) else a - b
                else:
                    st.v[stmt.target.id] = Unknown(norm_src(stmt))
                return [st]
            if isinstance(stmt.target, ast.Attribute):
                o = self.ev(st, stmt.target.value)
                if isinstance(o, Obj) and stmt.target.attr in ("start", "end") and isinstance(stmt.op, (ast.Add, ast.Sub)):
                    a = o.f.get(stmt.target.attr)
                    b = self.ev(st, stmt.value)
                    if isinstance(a, Lin) and isinstance(b, Lin):
                        o.f[stmt.target.attr] = a + b if isinstance(stmt.op, ast.Add) else a - b
                    else:
                        o.f[stmt.target.attr] = Unknown(norm_src(stmt))
                    st.events.append(("span-write", (o, stmt.target.attr), stmt))
                return [st]
            return [st]
        if isinstance(stmt, (ast.Pass, ast.Expr)):
            return [st]
        if isinstance(stmt, ast.For):
            # a nested loop in the hit loop is outside the fragment
            self.report("V10", "nested-loop", False, stmt, "the hit loop body is loop-free apart from the pop loop",
                        f"`{common.short_src(stmt)}`")
            return [st]
        return [st]

    def snapshot(self, st):
        h = st.v.get(self.R.HIT)
        return dict(hit_start=h.f.get("start") if isinstance(h, Obj) else None,
                    hit_end=h.f.get("end") if isinstance(h, Obj) else None,
                    shifted=st.shifted, node=getattr(st.v.get(self.R.NODE), "name", None))

    def is_stack_truth(self, test):
        R = self.R
        if norm_src(test) == R.STACK:
            return True
        if isinstance(test, ast.Compare) and len(test.ops) == 1 and isinstance(test.left, ast.Call) and \
                isinstance(test.left.func, ast.Name) and test.left.func.id == "len" and norm_src(test.left.args[0]) == R.STACK:
            c = test.comparators[0]
            if isinstance(c, ast.Constant) and ((isinstance(test.ops[0], ast.Gt) and c.value == 0) or
                                                (isinstance(test.ops[0], ast.GtE) and c.value == 1) or
                                                (isinstance(test.ops[0], ast.NotEq) and c.value == 0)):
                return True
        return False

    def do_shift(self, call, st, stmt):
        h = st.v[self.R.HIT]
        x = self.ev(st, call.args[0]) if call.args else Unknown("no argument")
        if not isinstance(x, Lin):
            self.report("V5", "shift-amount", False, stmt, "the shift amount is an affine expression of OFFSET", f"shift({x})")
            h.f["start"] = Unknown("shift")
            h.f["end"] = Unknown("shift")
        else:
            for fld in ("start", "end"):
                k = self.shift_summary.get(fld, 0)
                if isinstance(h.f.get(fld), Lin) and k != "?":
                    h.f[fld] = h.f[fld] + x.scale(k)
                else:
                    h.f[fld] = Unknown("shift")
        st.shifted += 1

    def call_stmt(self, stmt, c, st):
        R = self.R
        H, N = R.HIT, R.NODE
        f = c.func
        if isinstance(f, ast.Attribute):
            if f.attr == "shift" and common.is_name(f.value, H):
                self.do_shift(c, st, stmt)
                return [st]
            if f.attr in ("append", "insert", "extend"):
                if isinstance(f.value, ast.Attribute) and f.value.attr == "children":
                    owner = self.ev(st, f.value.value)
                    arg = c.args[-1] if c.args else None
                    h = self.ev(st, arg) if arg is not None else Unknown("no arg")
                    snap = dict(h.f) if isinstance(h, Obj) else None
                    st.events.append(("attach", (owner, h, snap, f.attr, st.v.get(R.OFFSET)), stmt))
                    return [st]
                if norm_src(f.value) == R.STACK:
                    st.pushed.append(self.ev(st, c.args[0]) if c.args else Unknown("no arg"))
                    return [st]
            if f.attr == "pop" and norm_src(f.value) == R.STACK:
                st.popped = True
                if "__PARENT" not in st.v:
                    self.report("V4", "pop-outside-loop", False, stmt, "contexts are popped only by the pop loop",
                                f"`{common.short_src(stmt)}`")
                return [st]
            callee = self.prog.callee(self.mod, self.sn, c)
            if callee.kind == "repo" and callee.func is self.sn:
                arg0 = c.args[0] if c.args else None
                st.events.append(("recurse", (self.ev(st, arg0) if arg0 is not None else Unknown("none"),), stmt))
                return [st]
        return [st]

    def pop_loop_step(self, stmt: ast.While, st: State):
        R = self.R
        S = self.sym
        e, A, lam, sig = S["e"], S["A"], S["lam"], S["sig"]
        self.pop_loop = stmt
        test = stmt.test
        # strip a `STACK and ...` conjunct
        self.has_stack_guard_in_pop_loop = False
        conj = test.values if isinstance(test, ast.BoolOp) and isinstance(test.op, ast.And) else [test]
        rest = []
        for t in conj:
            if self.is_stack_truth(t):
                self.has_stack_guard_in_pop_loop = True
            else:
                rest.append(t)
        ok_shape = len(rest) == 1
        c = self.cmp(st, rest[0]) if ok_shape else None
        h = st.v[R.HIT]
        self.report("V4", "pop-before-shift", isinstance(h.f.get("end"), Lin) and h.f["end"] == e, stmt,
                    "the pop loop compares the hit's ABS end (the hit has not been shifted yet)",
                    f"HIT.end is {h.f.get('end')} when the pop loop runs")
        want = norm(e - (A + lam), ">")
        okc = c is not None and c[1] == "<=" and c[0] == want[0]
        self.report("V4", "pop-condition", okc, stmt,
                    "a context is popped exactly when the hit ends beyond it: HIT.end > OFFSET + len(NODE.value)",
                    f"condition `{common.short_src(stmt.test)}` is {fmt_cmp(c)}; the model needs {fmt_cmp(want)} "
                    "(e = hit ABS end, A = origin of NODE, lam = len(NODE.value))")
        # body: must move (NODE, OFFSET) to (PARENT, A - sig)
        b = st.clone()
        b.v["__inpop"] = True
        PARENT = Obj("PARENT", {"start": Lin.sym("sigP"), "len": Lin.sym("lamP")})
        b.v["__PARENT"] = PARENT
        outs = self.block(stmt.body, b)
        for bs in outs:
            nd = bs.v.get(R.NODE)
            self.report("V4", "pop-moves-to-parent", isinstance(nd, Obj) and nd.name == "PARENT" and bs.popped, stmt,
                        "each pop-loop iteration makes the popped context's parent the current node",
                        f"after the body NODE is {nd}")
            off = bs.v.get(R.OFFSET)
            self.report("V4", "pop-rebases-offset", isinstance(off, Lin) and off == A - sig, stmt,
                        "each pop subtracts the popped context's own start from OFFSET (OFFSET = A(parent))",
                        f"after the body OFFSET = {off}; invariant (i) needs A - NODE.start")
            if R.DEND and not (isinstance(bs.v.get(R.DEND), Lin) and bs.v[R.DEND] == S["D"]):
                self.report("V4", "pop-keeps-dend", False, stmt, "the pop loop leaves DEND alone", f"DEND = {bs.v.get(R.DEND)}")
        post = st.clone()
        if okc:
            post.facts.append(c[0] - 1)   # loop condition (d <= 0) is false: d >= 1, i.e. e <= A + lam
        return [post]

    # -- judging the paths ------------------------------------------------------------------
    def judge_paths(self):
        R = self.R
        S = self.sym
        s, e, A, lam, D = S["s"], S["e"], S["A"], S["lam"], S["D"]
        skip_guards = set()
        self_guards = set()
        other_guards = set()
        n_attach_paths = 0
        for kind, fs in self.finals:
            att = [ev for ev in fs.events if ev[0] == "attach"]
            if kind == "continue":
                # classify the guard that led here: the last positive condition
                pos = [c for c in fs.conds if c[0] == "+"]
                g = pos[-1] if pos else None
                if att:
                    self.report("V7", "attach-then-skip", False, att[0][2], "a hit is never attached and then skipped",
                                "an attached hit reaches `continue`")
                if g is None:
                    self.report("V10", "unconditional-continue", False, R.loop, "no unconditional continue in the hit loop")
                    continue
                _sgn, test, stmt, c, snap = g
                names = {x.id for x in ast.walk(test) if isinstance(x, ast.Name)}
                if R.DEND and R.DEND in names:
                    if id(stmt) in skip_guards:
                        continue
                    skip_guards.add(id(stmt))
                    want = norm(e - D, "<=")
                    okc = c is not None and c[1] == "<=" and c[0] == want[0]
                    det = (f"guard `{common.short_src(test)}` is {fmt_cmp(c)}; the model needs {fmt_cmp(want)} with both sides "
                           "in the frame of the scanned value (ABS)")
                    if c is not None and not okc and snap["shifted"]:
                        det += " - the hit was already shifted into NODE's frame when the test ran"
                    self.report("V3", "skip-guard", okc, stmt,
                                "a hit is dropped exactly when its ABS end <= the ABS end of the last decoded hit", det)
                elif self.is_self_match_guard(test):
                    if id(stmt) in self_guards:
                        continue
                    self_guards.add(id(stmt))
                    self.check_self_match(test, stmt, fs, snap)
                else:
                    if id(stmt) in other_guards:
                        continue
                    other_guards.add(id(stmt))
                    self.report("V10", "extra-drop", False, stmt,
                                "the only hits dropped are those inside a decoded span and those restating their parent",
                                f"`if {common.short_src(test)}: continue` drops hits for another reason")
                continue
            if kind != "fall":
                continue
            n_attach_paths += 1
            tag = "decoded" if any(ev[0] == "recurse" for ev in fs.events) else "context"
            if len(att) != 1:
                self.report("V7", f"attach-once/{tag}", False, R.loop, "every kept hit is attached exactly once",
                            f"{len(att)} attach events on a path that keeps the hit")
                continue
            owner, h, hf, how, off_at = att[0][1]
            stmt = att[0][2]
            self.report("V7", f"attach-append/{tag}", how == "append", stmt, "kept hits are appended (sibling order = visit order)",
                        f"children.{how}(...)")
            self.report("V5", f"shift-once/{tag}", fs.shifted == 1, stmt,
                        "the hit is shifted exactly once between the pop loop and its attachment", f"shifted {fs.shifted} times")
            ok_owner = isinstance(owner, Obj) and owner.name == "NODE"
            self.report("V7", f"attach-to-NODE/{tag}", ok_owner, stmt, "the hit is appended to the current node's children",
                        f"appended to {owner}")
            par = fs.parent_of_hit
            self.report("V7", f"parent-pairing/{tag}", isinstance(par, Obj) and isinstance(owner, Obj) and par.name == owner.name, stmt,
                        "HIT.parent is the node whose child list receives the hit",
                        f"HIT.parent = {par}, child list owner = {owner}")
            good_span = bool(hf) and isinstance(hf.get("start"), Lin) and isinstance(hf.get("end"), Lin) and \
                isinstance(off_at, Lin) and hf["start"] == s - off_at and hf["end"] == e - off_at and off_at == A
            # the final span (end of path) must equal the attached span: no later writes
            h_end = fs.v.get(R.HIT) if tag == "decoded" else fs.v.get(R.NODE)
            fin = h_end.f if isinstance(h_end, Obj) else {}
            still = isinstance(fin.get("start"), Lin) and isinstance(fin.get("end"), Lin) and fin["start"] == s - A and fin["end"] == e - A
            self.report("V5", f"rebased-span/{tag}", good_span and still, stmt,
                        "the attached hit's span is (s - A(NODE), e - A(NODE)): same shift on both ends, exactly the origin of the node it is attached to",
                        f"attached span is ({hf.get('start') if hf else '?'}, {hf.get('end') if hf else '?'}) with OFFSET = {off_at}; "
                        f"final span ({fin.get('start')}, {fin.get('end')}); needs (s - A, e - A)")
            # V3: e > D on the attach path
            if R.DEND:
                self.report("V3", f"not-shadowed/{tag}", entails_nonneg(fs.facts, e - D - 1), stmt,
                            "a kept hit ends strictly after the last decoded span (ABS)",
                            "e > DEND is not derivable on the attach path (shadow test missing, weakened or evaluated in another frame)")
            self.report("V4", f"inside-context/{tag}", entails_nonneg(fs.facts, A + lam - e), stmt,
                        "a kept hit lies inside the node it is attached to: e <= A(NODE) + len(NODE.value)",
                        "e <= A + lam is not derivable on the attach path")
            rec = [ev for ev in fs.events if ev[0] == "recurse"]
            dend = fs.v.get(R.DEND) if R.DEND else None
            off = fs.v.get(R.OFFSET)
            nd = fs.v.get(R.NODE)
            if rec:
                if R.DEND:
                    self.report("V8", "decoded-arm/dend", isinstance(dend, Lin) and entails_eq(fs.facts, dend, e), rec[0][2],
                                "the decoded arm sets DEND to the hit's ABS end",
                                f"decoded arm leaves DEND = {dend}; invariant (iv) needs the absolute end e "
                                "(a NODE-relative end makes the shadow test compare two different frames)")
                self.report("V8", "decoded-arm/no-push", not fs.pushed, rec[0][2], "the decoded arm does not open a context",
                            "a decoded hit is pushed as a context")
                self.report("V8", "decoded-arm/keeps-node", isinstance(off, Lin) and off == A and isinstance(nd, Obj) and nd.name == "NODE",
                            rec[0][2], "the decoded arm leaves NODE and OFFSET unchanged", f"NODE = {nd}, OFFSET = {off}")
                tgt = rec[0][1][0]
                self.report("V8", "decoded-arm/recurse-on-hit", isinstance(tgt, Obj) and tgt.name == "HIT" and len(rec) == 1, rec[0][2],
                            "the decoded hit itself is scanned recursively, once", f"recursion target {tgt}, {len(rec)} call(s)")
            else:
                self.report("V8", "context-arm/push-node", len(fs.pushed) == 1 and isinstance(fs.pushed[0], Obj) and fs.pushed[0].name == "NODE",
                            stmt, "the context arm pushes the current node exactly once", f"pushed {fs.pushed}")
                self.report("V8", "context-arm/node-becomes-hit", isinstance(nd, Obj) and nd.name == "HIT", stmt,
                            "the context arm makes the hit the current node", f"NODE = {nd}")
                self.report("V8", "context-arm/offset", isinstance(off, Lin) and off == s, stmt,
                            "the context arm advances OFFSET by the hit's relative start (OFFSET = A(HIT) = s)",
                            f"context arm leaves OFFSET = {off}; invariant (i) needs s")
                if R.DEND:
                    self.report("V8", "context-arm/dend", isinstance(dend, Lin) and dend == D, stmt,
                                "the context arm leaves DEND unchanged", f"DEND = {dend}")
        if n_attach_paths != 2:
            self.report("V8", "two-arms", False, R.loop, "a kept hit takes exactly one of two arms (decoded / context)",
                        f"{n_attach_paths} attach path(s)")
        self.report("V3", "skip-guard-present", bool(skip_guards) or not R.DEND, R.loop,
                    "a shadow test against DEND exists", "no `continue` guard mentions DEND")
        self.report("V6", "self-match-guard-present", bool(self_guards), R.loop,
                    "a self-match guard exists (a hit restating its parent is dropped)", "no such guard")
        self.check_v8_condition()

    def xtest(self, test):
        """the test with calls of one-expression helper functions (def f(a, b): return <expr>) replaced by their body"""
        prog, mod, sn = self.prog, self.mod, self.sn
        cache = self.__dict__.setdefault("_xtest_cache", {})
        if id(test) in cache:
            return cache[id(test)]

        def body_of(fi):
            if fi is None or isinstance(fi.node, ast.Lambda) or fi.cls or fi.node.args.vararg or fi.node.args.kwarg or fi.node.args.kwonlyargs:
                return None
            stmts = [x for x in fi.node.body if not (isinstance(x, ast.Expr) and isinstance(x.value, ast.Constant))]
            if len(stmts) == 1 and isinstance(stmts[0], ast.Return) and stmts[0].value is not None:
                return stmts[0].value
            return None
        repl = {}
        for n in ast.walk(test):
            if isinstance(n, ast.Call) and not n.keywords and not any(isinstance(a, ast.Starred) for a in n.args):
                try:
                    c = prog.callee(mod, sn, n)
                except Exception:   # noqa: BLE001
                    continue
                fi = c.func if c.kind == "repo" else None
                b = body_of(fi)
                if b is not None and len(fi.params) == len(n.args):
                    repl[id(n)] = (b, dict(zip(fi.params, n.args)))
        if not repl:
            cache[id(test)] = test
            return test

        class Sub(ast.NodeTransformer):
            def __init__(self, env):
                self.env = env

            def visit_Name(self, x):
                if isinstance(x.ctx, ast.Load) and x.id in self.env:
                    return G._copy(self.env[x.id])
                return x

        def rebuild(e):
            if id(e) in repl:
                b, env = repl[id(e)]
                env = {k: rebuild(v) for k, v in env.items()}
                return Sub(env).visit(G._copy(b))
            if isinstance(e, ast.BoolOp):
                return ast.BoolOp(op=e.op, values=[rebuild(v) for v in e.values])
            if isinstance(e, ast.UnaryOp):
                return ast.UnaryOp(op=e.op, operand=rebuild(e.operand))
            return e
        out = rebuild(test)
        ast.copy_location(out, test)
        ast.fix_missing_locations(out)
        cache[id(test)] = out
        return out

    def is_self_match_guard(self, test):
        R = self.R
        has_val = any(isinstance(x, ast.Attribute) and x.attr in ("value", "type") and common.is_name(x.value, R.NODE) for x in ast.walk(test))
        return has_val

    def az(self, at=None):
        """atomizer in role names; `at`: the statement whose test is read - single-assignment temporaries that reach it are inlined"""
        R = self.R
        subst = {}
        if at is not None:
            env = common.block_env(R.loop.body, at) or {}
            roles = {R.HIT, R.NODE, R.OFFSET, R.DEND, R.STACK}
            subst = {k: v for k, v in env.items() if k not in roles}
        return G.Atomizer(rename={R.HIT: "HIT", R.NODE: "NODE"}, subst=subst,
                          is_int=lambda e: any(isinstance(x, ast.Attribute) and x.attr in ("start", "end") for x in ast.walk(e)))

    def check_self_match(self, test, stmt, fs, snap):
        az = self.az(stmt)
        got = az.formula(test)
        spec = G.f_and(
            az.formula(ast.parse("HIT.start == 0", mode="eval").body),
            az.formula(ast.parse("HIT.value == NODE.value", mode="eval").body),
            az.formula(ast.parse("HIT.type == NODE.type", mode="eval").body),
        )
        ok, cm = G.equivalent(got, spec)
        self.report("V6", "self-match-formula", ok, stmt,
                    "a hit is dropped as self-match exactly when start == 0 and value == NODE.value and type == NODE.type",
                    f"guard is {G.show(got)}; differs from the model at {G.show_model(cm) if cm else ''}")
        S = self.sym
        # evaluated after the shift, in NODE's frame, with NODE = innermost containing context
        ok2 = snap["shifted"] == 1 and isinstance(snap["hit_start"], Lin) and snap["hit_start"] == S["s"] - S["A"]
        self.report("V6", "self-match-frame", ok2, stmt,
                    "the self-match test reads the hit's start relative to the node it would be attached to (after the shift)",
                    f"HIT.start is {snap['hit_start']} when the test runs (shifted {snap['shifted']} times)")

    def check_v8_condition(self):
        R = self.R
        H = R.HIT
        # the If whose arms are (recurse) / (push): find the If in the loop body containing a recursive call
        target = None
        for n in ast.walk(R.loop):
            if isinstance(n, ast.If):
                has_rec = any(isinstance(c, ast.Call) and self.prog.callee(self.mod, self.sn, c).func is self.sn for b in n.body for c in ast.walk(b))
                has_rec_else = any(isinstance(c, ast.Call) and self.prog.callee(self.mod, self.sn, c).func is self.sn for b in n.orelse for c in ast.walk(b))
                if has_rec or has_rec_else:
                    target = (n, has_rec)
        if target is None:
            self.report("V8", "decoded-test", False, R.loop, "the decoded/context decision exists", "no branch leads to the recursive scan")
            return
        n, positive = target
        az = self.az(n)
        got = az.formula(self.xtest(n.test))
        if not positive:
            got = G.f_not(got)
        spec = G.f_or(az.formula(ast.parse("HIT.value.lower() != HIT.original.lower()", mode="eval").body),
                      az.formula(ast.parse("HIT.children", mode="eval").body))
        # accept len(children) > 0 style
        ok, cm = G.equivalent(got, spec)
        self.report("V8", "decoded-test", ok, n,
                    "a hit is treated as decoded exactly when its value differs from its original ignoring ASCII case, or it has children",
                    f"test is {G.show(got)}; the model is {G.show(spec)}; they differ at {G.show_model(cm) if cm else ''}")
        # Node.original
        nm = self.prog.mod("node")
        need("Node.original" in nm.funcs, "anchor: Node.original not found")

    # -- V9 ------------------------------------------------------------------------------------
    def check_return(self):
        R = self.R
        body = self.sn.node.body
        idx = body.index(R.loop)
        tail = body[idx + 1:]
        ok, det = False, "no return after the hit loop"
        S, N = R.STACK, R.NODE

        # names bound once, before the loop and before NODE is rebound, to the node scan_node was given
        rebinds = {}
        for n_ in ast.walk(self.sn.node):
            if isinstance(n_, ast.Name) and isinstance(n_.ctx, ast.Store):
                rebinds[n_.id] = rebinds.get(n_.id, 0) + 1
        root_alias = set()
        for st_ in body[:idx]:
            if any(isinstance(x_, ast.Name) and x_.id == N and isinstance(x_.ctx, ast.Store) for x_ in ast.walk(st_)):
                break
            if isinstance(st_, ast.Assign) and len(st_.targets) == 1 and isinstance(st_.targets[0], ast.Name) and common.is_name(st_.value, N) and \
                    rebinds.get(st_.targets[0].id, 0) == 1:
                root_alias.add(st_.targets[0].id)

        def is_root_expr(e):
            if isinstance(e, ast.Name) and e.id in root_alias:
                return True
            # STACK[0] if STACK else NODE
            if isinstance(e, ast.IfExp):
                if self.is_stack_truth(e.test) and is_stack0(e.body) and common.is_name(e.orelse, N):
                    return True
                if isinstance(e.test, ast.UnaryOp) and isinstance(e.test.op, ast.Not) and self.is_stack_truth(e.test.operand) \
                        and common.is_name(e.body, N) and is_stack0(e.orelse):
                    return True
            return False

        def is_stack0(e):
            return isinstance(e, ast.Subscript) and norm_src(e.value) == S and isinstance(e.slice, ast.Constant) and e.slice.value == 0
        if len(tail) == 1 and isinstance(tail[0], ast.Return) and tail[0].value is not None:
            ok = is_root_expr(tail[0].value)
            det = f"returns `{common.short_src(tail[0].value)}`"
        elif len(tail) == 2 and isinstance(tail[0], ast.If) and isinstance(tail[1], ast.Return):
            i, r = tail
            if self.is_stack_truth(i.test) and len(i.body) == 1 and isinstance(i.body[0], ast.Return) and is_stack0(i.body[0].value) \
                    and not i.orelse and common.is_name(r.value, N):
                ok = True
            elif isinstance(i.test, ast.UnaryOp) and isinstance(i.test.op, ast.Not) and self.is_stack_truth(i.test.operand) and \
                    len(i.body) == 1 and isinstance(i.body[0], ast.Return) and common.is_name(i.body[0].value, N) and is_stack0(r.value):
                ok = True
            det = f"returns `{common.short_src(r.value)}`"
        elif tail:
            det = "unrecognised return shape: " + "; ".join(common.short_src(t, 60) for t in tail)
        self.report("V9", "return-root", ok, tail[-1] if tail else R.loop,
                    "scan_node returns the root: the bottom of the context stack if any context is open, else the current node", det)

    # -- children arm (C06) -----------------------------------------------------------------------
    def check_children_arm(self):
        R = self.R
        N = R.NODE
        sn = self.sn
        body = sn.node.body
        idx = body.index(R.loop)
        arm = None
        for st in body[:idx]:
            if isinstance(st, ast.If):
                f = self.az().formula(st.test)
                if f == ("atom", "truthy:NODE.children") or G.equivalent(f, ("atom", "truthy:NODE.children"))[0]:
                    arm = st
        if arm is None:
            self.report("V8c", "children-arm", False, R.loop,
                        "a node that already has children is descended into instead of searched", "no `if NODE.children:` arm before the search")
            return
        ok_loop = False
        rec_ok = False
        ret_ok = False
        dec_inside = False
        dec_calls = common.decoder_invocations(self.prog, sn)
        for st in arm.body:
            if isinstance(st, ast.For) and common.is_attr(st.iter, N, "children") and isinstance(st.target, ast.Name):
                ok_loop = True
                for c in ast.walk(st):
                    if isinstance(c, ast.Call) and self.prog.callee(self.mod, sn, c).func is sn:
                        rec_ok = bool(c.args) and common.is_name(c.args[0], st.target.id)
            if isinstance(st, ast.Return):
                ret_ok = common.is_name(st.value, N)
        for d in dec_calls:
            if any(x is d for x in ast.walk(arm)):
                dec_inside = True
        self.report("V8c", "children-arm/descend", ok_loop and rec_ok, arm,
                    "every supplied child is scanned recursively", "the arm does not call scan_node on each element of NODE.children")
        self.report("V8c", "children-arm/returns", ret_ok and not dec_inside, arm,
                    "the children arm returns NODE without calling any decoder", "the arm falls through to the search or runs decoders")
        # the arm must dominate the search: the search's reaching condition implies not NODE.children
        az = self.az()
        pc = G.reach(body, R.loop, az)
        okd, cm = G.implies(pc, G.f_not(("atom", "truthy:NODE.children")))
        self.report("V8c", "children-arm/dominates-search", okd, arm,
                    "the search is reached only for nodes without supplied children",
                    f"search reachable with NODE.children non-empty: {G.show(pc)}")

    # -- read set (C08-R2) --------------------------------------------------------------------------
    def check_read_set(self):
        R = self.R
        N = R.NODE
        allowed = {"value", "type", "children"}
        in_pop = set()
        if self.pop_loop is not None:
            for x in ast.walk(self.pop_loop):
                in_pop.add(id(x))
        # reads of NODE before the first context push refer to the root; after rebinding they refer to contexts.
        for n in own_nodes(self.sn.node):
            if isinstance(n, ast.Attribute) and common.is_name(n.value, N) and isinstance(n.ctx, ast.Load):
                if n.attr in allowed:
                    continue
                self.node_start_reads.append((n, id(n) in in_pop))
        # nested lambdas
        return

    # -- V10 other writes ------------------------------------------------------------------------------
    def check_other_writes(self):
        R = self.R
        roles = {R.OFFSET: "OFFSET", R.DEND: "DEND", R.STACK: "STACK"}
        ok = True
        det = ""
        for kind, fs in self.finals:
            for ev in fs.events:
                if ev[0] == "span-write":
                    ok = False
                    det = f"`{common.short_src(ev[2])}` writes a span field directly"
        self.report("V10", "no-direct-span-write", ok, R.loop,
                    "span fields of hits and nodes are changed only through Node.shift", det)
        _ = roles


def norm(diff: Lin, op: str):
    """normalise to (d, '<=') meaning d <= 0 over integers, or (d, '=='), (d, '!=')."""
    if op in (">", ">="):
        diff = -diff
        op = {">": "<", ">=": "<="}[op]
    if op == "<":
        diff = diff + 1
        op = "<="
    if op in ("==", "!="):
        # canonical sign
        if diff.t and diff.t[sorted(diff.t)[0]] < 0:
            diff = -diff
    return diff, op


def negate(diff, op):
    if op == "<=":
        return (-diff) + 1, "<="
    if op == "==":
        return diff, "!="
    return diff, "=="


def fmt_cmp(c):
    if c is None:
        return "not an affine comparison"
    return f"[{c[0]} {c[1]} 0]"


_cache = {}


def analysis(prog) -> FrameAnalysis:
    if id(prog) not in _cache:
        _cache[id(prog)] = FrameAnalysis(prog)
    return _cache[id(prog)]


def emit(run, select, rule_of=None):
    """Turn the engine's VCs into obligations of a property. select(vc) -> bool."""
    fa = analysis(run.prog)
    rel = fa.mod.rel
    n = 0
    for v in fa.vcs:
        if not select(v):
            continue
        rule = rule_of(v) if rule_of else v.vc
        run.ob(rule, f"multidecoder.scan_node/{v.vc}/{v.key}", v.ok, f"{rel}:{v.line}", v.what, v.detail,
               mech="affine frame analysis (E6)")
        n += 1
    run.note("roles", {k: getattr(fa.R, k) for k in ("HIT", "NODE", "STACK", "OFFSET", "DEND")})
    run.note("role_anchors", {k: {n_: len(w) for n_, w in v.items()} for k, v in fa.R.votes.items()})
    run.note("paths_through_hit_loop", len(getattr(fa, "finals", [])))
    for a in fa.assumptions:
        run.assume(a)
    return fa
