"""E4 - abstract interpretation of the decoder functions over a term / linear-form domain.

Values are abstract terms: integers are exact linear forms over symbols (len(x), m.start(k), m.end(k), loop counters,
fresh unknowns) and the state carries a conjunction of linear facts (each >= 0) that is the relational numeric
domain; byte strings carry a provenance term and a length (a linear form); match objects carry their pattern and
subject; Node objects and lists live in an abstract heap. Control flow is handled with trace partitioning
(one abstract state per path, bounded), loops by havocking the variables that change across the back edge
(iterated to a fixpoint), calls of repository functions by context-sensitive inlining (bounded depth). Entailment
of a <= b is decided by Fourier-Motzkin elimination (mdstatic.lin). Nothing is executed.
"""
from __future__ import annotations

import ast
import itertools
from dataclasses import dataclass, field

from . import rx
from .core import norm_src
from .lin import Lin, component, entails_nonneg, inconsistent, lin
from .model import PKG, AnalysisError, FuncInfo, NotConst, Program

MAX_PARTS = 400
OPAQUE_MODULES = {"xortool"}   # key-guessing numerics: no Node, no spans; analysed only by the exception/termination rules
MAX_DEPTH = 5


# ------------------------------------------------------------------------------------------ values
class AV:
    pass


@dataclass
class IntV(AV):
    lin: Lin

    def __repr__(self):
        return f"Int({self.lin})"


@dataclass
class BytesV(AV):
    term: tuple
    length: Lin

    def __repr__(self):
        return f"Bytes({fmt_term(self.term)}, len={self.length})"


@dataclass
class StrV(AV):
    term: tuple

    def __repr__(self):
        return f"Str({fmt_term(self.term)})"


@dataclass
class ConstV(AV):
    value: object

    def __repr__(self):
        return f"Const({self.value!r})"


@dataclass
class MatchV(AV):
    mid: str
    maybe_none: bool = False

    def __repr__(self):
        return f"Match({self.mid})"


@dataclass
class Ref(AV):
    """reference to a heap object: kind in node/list/dict/obj"""
    oid: int
    kind: str

    def __repr__(self):
        return f"{self.kind}#{self.oid}"


@dataclass
class TupleV(AV):
    items: list

    def __repr__(self):
        return f"Tuple{self.items}"


@dataclass
class FuncV(AV):
    fi: FuncInfo
    closure: dict | None = None
    bound: list = field(default_factory=list)     # partial-applied leading args

    def __repr__(self):
        return f"Func({self.fi.fq})"


@dataclass
class ExtV(AV):
    name: str

    def __repr__(self):
        return f"Ext({self.name})"


@dataclass
class BoolV(AV):
    cond: tuple | None = None      # ('le', Lin) meaning lin <= 0 ... or None when unknown
    src: str = ""


@dataclass
class UnknownV(AV):
    why: str = ""

    def __repr__(self):
        return f"?({self.why})"


def fmt_term(t, depth=0):
    if not isinstance(t, tuple):
        return repr(t)
    if depth > 4:
        return "..."
    if not t:
        return "()"
    if not isinstance(t[0], str):
        return "(" + ", ".join(fmt_term(x, depth + 1) for x in t) + ")"
    return t[0] + "(" + ", ".join(fmt_term(x, depth + 1) if isinstance(x, tuple) else (repr(x) if not isinstance(x, Lin) else str(x)) for x in t[1:]) + ")"


# ------------------------------------------------------------------------------------------ state
class State:
    def __init__(self):
        self.env: dict[str, AV] = {}
        self.facts: list[Lin] = []
        self.eqs: list[Lin] = []       # explicit equalities (each == 0); also present in facts as f >= 0 and -f >= 0
        self.heap: dict[int, dict] = {}
        self._owned: set = set()     # heap objects this state may mutate in place (copy-on-write)
        self.prefixes: dict = {}   # repr(term) -> tuple of constant prefixes the byte string is known to start with
        self.events: list = []     # (callee fq, argument BytesV) of summarised helper calls on this path
        self.dead = None           # None | 'return' | 'continue' | 'break' | 'raise'
        self.retval = None
        self.trace: list[str] = []  # human-readable branch decisions

    def clone(self):
        s = State()
        s.env = dict(self.env)
        s.facts = list(self.facts)
        s.eqs = list(self.eqs)
        s.prefixes = dict(self.prefixes)
        s.events = list(self.events)
        s.heap = dict(self.heap)      # objects are shared until one side writes (mut)
        s._owned = set()
        self._owned = set()
        s.dead = self.dead
        s.retval = self.retval
        s.trace = list(self.trace)
        s._feas_n = getattr(self, "_feas_n", 0)
        s._feas_v = getattr(self, "_feas_v", False)
        return s

    def mut(self, oid):
        """the heap object `oid`, private to this state (copied on first write after a clone)"""
        if oid not in self._owned:
            self.heap[oid] = _copy_obj(self.heap[oid])
            self._owned.add(oid)
        return self.heap[oid]

    def snap(self):
        """facts-only snapshot (cheap): enough to decide entailments later"""
        f = FactSnap()
        f.facts = list(self.facts)
        f.eqs = list(self.eqs)
        f.trace = tuple(self.trace[-6:])
        f.prefixes = dict(self.prefixes)
        return f

    def add(self, f: Lin):
        if not isinstance(f, Lin):
            return
        if f.is_const():
            if f.c < 0 and Lin(-1) not in self.facts:
                self.facts.append(Lin(-1))    # contradiction marker
            return
        if f not in self.facts:
            self.facts.append(f)

    def add_eq(self, f: Lin):
        """f == 0"""
        if not isinstance(f, Lin):
            return
        if f.is_const():
            if f.c != 0 and Lin(-1) not in self.facts:
                self.facts.append(Lin(-1))
            return
        if f not in self.eqs and (-f) not in self.eqs:
            self.eqs.append(f)
        self.add(f)
        self.add(-f)

    def le(self, a, b) -> bool:
        return entails_nonneg(self.facts, lin(b) - lin(a), eqs=self.eqs)

    def eq(self, a, b) -> bool:
        return self.le(a, b) and self.le(b, a)

    def infeasible(self) -> bool:
        n = len(self.facts)
        done = getattr(self, "_feas_n", 0)
        if getattr(self, "_feas_v", False):
            return True
        if done >= n:
            return False
        new = self.facts[done:]
        seeds = set()
        for f in new:
            seeds |= f.syms()
        v = any(f.is_const() and f.c < 0 for f in new) or inconsistent(component(self.facts, seeds), eqs=self.eqs)
        self._feas_n, self._feas_v = n, v
        return v

    def sig(self):
        return (self.dead, vkey(self.retval), frozenset(self.facts), tuple(sorted((k, vkey(v)) for k, v in self.env.items())),
                tuple(sorted((k, _obj_sig(o)) for k, o in self.heap.items())))

    def adopt(self, other):
        self.env = other.env
        self.facts = other.facts
        self.eqs = other.eqs
        self.prefixes = other.prefixes
        self.events = other.events
        self.heap = other.heap
        self._owned = other._owned
        self.trace = other.trace
        self.dead = other.dead
        self.retval = other.retval


class FactSnap:
    def le(self, a, b) -> bool:
        return entails_nonneg(self.facts, lin(b) - lin(a), eqs=self.eqs)

    def eq(self, a, b) -> bool:
        return self.le(a, b) and self.le(b, a)


def vkey(v):
    """hashable structural key of an abstract value (no string formatting)"""
    if v is None:
        return None
    t = type(v).__name__
    if t == "IntV":
        return ("i", v.lin)
    if t == "BytesV":
        return ("b", _tkey(v.term), v.length)
    if t == "ConstV":
        try:
            hash(v.value)
            return ("c", type(v.value).__name__, v.value)
        except TypeError:
            return ("c", repr(v.value))
    if t == "Ref":
        return ("r", v.oid)
    if t == "MatchV":
        return ("m", v.mid, v.maybe_none)
    if t == "TupleV":
        return ("t",) + tuple(vkey(x) for x in v.items)
    if t == "GuardedInt":
        return ("g", v.lin)
    if t == "StrV":
        return ("s", _tkey(v.term))
    if t == "FuncV":
        return ("f", id(v.fi))
    return (t,)


def _tkey(t):
    try:
        hash(t)
        return t
    except TypeError:
        pass
    if isinstance(t, tuple):
        return tuple(_tkey(x) for x in t)
    return repr(t)


def _obj_sig(o):
    k = o["kind"]
    if k == "node":
        return ("node", tuple(sorted((f, vkey(v)) for f, v in o["fields"].items())))
    if k == "list":
        return ("list", tuple(vkey(x) for x in o["items"]), vkey(o.get("elem")), o.get("length"), o.get("iter"), bool(o.get("summary")))
    if k == "obj":
        return ("obj", o.get("cls"), tuple(sorted((f, vkey(v)) for f, v in o["attrs"].items())))
    return (k, len(o.get("values") or ()))


def dedupe(states):
    if len(states) < 2:
        return list(states)
    seen = {}
    for s in states:
        k = s.sig()
        if k not in seen:
            seen[k] = s
    return list(seen.values())


def _copy_obj(o):
    n = dict(o)
    if "items" in n:
        n["items"] = list(n["items"])
    if "fields" in n:
        n["fields"] = dict(n["fields"])
    if "attrs" in n:
        n["attrs"] = dict(n["attrs"])
    if "pieces" in n:
        n["pieces"] = dict(n["pieces"])
    if "item_states" in n:
        n["item_states"] = dict(n["item_states"])
    return n


class Chooser:
    def __init__(self, prefix):
        self.prefix = list(prefix)
        self.pos = 0
        self.alts = []

    def choose(self, n, label=""):
        if n <= 1:
            return 0
        if self.pos < len(self.prefix):
            c = self.prefix[self.pos]
        else:
            c = 0
            for k in range(1, n):
                self.alts.append(self.prefix[: self.pos] + [k])
            self.prefix.append(0)
        self.pos += 1
        return c


class BudgetExceeded(AnalysisError):
    pass


class Abort(Exception):
    """path ends (infeasible or raise)"""


@dataclass
class SiteRecord:
    site: ast.Call
    func: FuncInfo
    context: tuple
    oid: int


class Interp:
    def __init__(self, prog: Program):
        self.prog = prog
        self.counter = itertools.count(1)
        self.matches: dict[str, dict] = {}       # mid -> {pattern, subject (BytesV), api, node, func}
        self.node_sites: list[SiteRecord] = []
        self.index_uses = []                     # (func, node, base AV, index Lin, facts snapshot) for C01
        self.unpack_uses = []
        self.visited = set()         # ids of the statements the abstract execution reached
        self.split_ops = {}          # repr(term) -> {(split|rsplit, constant separator)} applied to it
        self.piece_sep = {}          # repr(term) -> constant separator of a .split(sep) applied to it
        self.conv_uses = []          # (func, node, kind, argument AV, state) conversions that raise on malformed input
        self.none_uses = []          # (func, node, state) attribute/method use of a possibly-None match
        self.div_uses = []
        self.notes = []
        self.call_stack: list[FuncInfo] = []
        self.ch: Chooser | None = None
        self.unknown_calls = set()
        self.symbol_info: dict[str, str] = {}
        self.predicates_summarised = set()
        self.steps = 0
        self.budget = 400000
        self.summaries: dict = {}          # FuncInfo -> name of the bytes parameter its span contract refers to
        self.summaries_used = set()
        self.opaque_bytes = set()        # FuncInfo of `-> bytes` helpers summarised as an unconstrained result
        self.opaque_calls = set()
        self.raw_len: dict = {}
        self.raw_of: dict = {}            # str(length symbol of an unquoted value) -> BytesV of the raw text
        self.int_prov: dict = {}          # symbol -> ('int', source term, base)
        self.birth: dict[int, State] = {}     # node oid -> state at the end of the loop iteration that produced it

    def pick(self, st, n, label=""):
        """partition point: the chosen alternative becomes part of the path's trace (so that values produced on
        different partitions are kept apart)"""
        k = self.ch.choose(n, label)
        if n > 1:
            st.trace.append(f"{label}={k}")
        return k

    # ---------------------------------------------------------------- symbols
    def fresh(self, hint) -> str:
        n = f"{hint}#{next(self.counter)}"
        return n

    def fresh_int(self, st, hint, lo=None, hi=None) -> IntV:
        s = Lin.sym(self.fresh(hint))
        if lo is not None:
            st.add(s - lo)
        if hi is not None:
            st.add(lin(hi) - s)
        return IntV(s)

    def fresh_bytes(self, st, term, maxlen=None, minlen=0, exact=None) -> BytesV:
        if exact is not None:
            return BytesV(term, lin(exact))
        L = Lin.sym(self.fresh("len"))
        st.add(L - minlen)
        if maxlen is not None:
            st.add(lin(maxlen) - L)
        return BytesV(term, L)

    def alloc(self, st, kind, **kw) -> Ref:
        oid = next(self.counter)
        st.heap[oid] = dict(kind=kind, **kw)
        st._owned.add(oid)
        return Ref(oid, kind)

    # ---------------------------------------------------------------- entry
    def run_function(self, fi: FuncInfo, args: list[AV], st: State | None = None, kwargs=None):
        """Returns list of final states (dead == 'return' with retval)."""
        st = st or State()
        return self.call_repo(fi, args, kwargs or {}, st, top=True)

    # ---------------------------------------------------------------- statements
    def exec_block(self, stmts, states, fi):
        for stmt in stmts:
            nxt = []
            for s in states:
                if s.dead:
                    nxt.append(s)
                else:
                    nxt += self.exec_stmt(stmt, s, fi)
            states = self.cap(nxt)
        return states

    def cap(self, states):
        if len(states) > 8:
            states = dedupe(states)
        if len(states) > MAX_PARTS:
            raise AnalysisError(f"abstract interpretation: more than {MAX_PARTS} partitions")
        return states

    def exec_stmt(self, stmt, st, fi):
        """explore all choice sequences of one statement"""
        self.steps += 1
        self.visited.add(id(stmt))
        if self.steps > self.budget:
            raise BudgetExceeded(f"abstract interpretation: step budget {self.budget} exceeded in {fi.fq}")
        if isinstance(stmt, (ast.If, ast.For, ast.While, ast.Try, ast.With)):
            return self.exec_compound(stmt, st, fi)
        results = []
        pending = [[]]
        guard = 0
        while pending:
            prefix = pending.pop()
            guard += 1
            if guard > 3000:
                raise AnalysisError(f"abstract interpretation: too many alternatives in one statement ({fi.fq}:{getattr(stmt, 'lineno', 0)})")
            s = st.clone()
            saved = self.ch
            self.ch = Chooser(prefix)
            try:
                self.exec_simple(stmt, s, fi)
                if not s.infeasible():
                    results.append(s)
            except Abort:
                pass
            finally:
                alts = [a for a in self.ch.alts if a is not None]
                self.ch = saved
            pending.extend(alts)
        return results

    def with_choices(self, st, fn):
        """run fn(state_clone) for every choice sequence; returns list of (result, state)."""
        results = []
        pending = [[]]
        guard = 0
        while pending:
            prefix = pending.pop()
            guard += 1
            if guard > 3000:
                raise AnalysisError("abstract interpretation: too many alternatives in one expression")
            s = st.clone()
            saved = self.ch
            self.ch = Chooser(prefix)
            try:
                r = fn(s)
                if not s.infeasible():
                    results.append((r, s))
            except Abort:
                pass
            finally:
                alts = [a for a in self.ch.alts if a is not None]
                self.ch = saved
            pending.extend(alts)
        return results

    def exec_simple(self, stmt, st, fi):
        if isinstance(stmt, ast.Assign):
            v = self.ev(stmt.value, st, fi)
            for t in stmt.targets:
                self.assign(t, v, st, fi)
        elif isinstance(stmt, ast.AnnAssign):
            if stmt.value is not None:
                self.assign(stmt.target, self.ev(stmt.value, st, fi), st, fi)
        elif isinstance(stmt, ast.AugAssign):
            cur = self.ev(_load(stmt.target), st, fi)
            rhs = self.ev(stmt.value, st, fi)
            self.assign(stmt.target, self.binop(stmt.op, cur, rhs, st, stmt), st, fi)
        elif isinstance(stmt, ast.Expr):
            self.ev(stmt.value, st, fi)
        elif isinstance(stmt, ast.Return):
            st.retval = self.ev(stmt.value, st, fi) if stmt.value is not None else ConstV(None)
            st.dead = "return"
        elif isinstance(stmt, ast.Continue):
            st.dead = "continue"
        elif isinstance(stmt, ast.Break):
            st.dead = "break"
        elif isinstance(stmt, ast.Raise):
            st.dead = "raise"
            raise Abort()
        elif isinstance(stmt, ast.Assert):
            self.assume(stmt.test, True, st, fi)
        elif isinstance(stmt, (ast.Pass, ast.Import, ast.ImportFrom, ast.Global, ast.Nonlocal)):
            pass
        elif isinstance(stmt, (ast.FunctionDef, ast.AsyncFunctionDef)):
            nf = fi.module.func_of_node(stmt)
            st.env[stmt.name] = FuncV(nf, closure=st.env)
        elif isinstance(stmt, ast.Delete):
            pass
        else:
            raise AnalysisError(f"abstract interpretation: unsupported statement {type(stmt).__name__} in {fi.fq}")

    def exec_compound(self, stmt, st, fi):
        if isinstance(stmt, ast.If):
            out = []
            for truth in (True, False):
                for s in self.assume_states(stmt.test, truth, st.clone(), fi):
                    s.trace.append(f"{'+' if truth else '-'}{stmt.lineno}")
                    out += self.exec_block(stmt.body if truth else stmt.orelse, [s], fi)
            return out
        if isinstance(stmt, ast.With):
            s = st.clone()
            suppress = False
            for it in stmt.items:
                if isinstance(it.context_expr, ast.Call) and self.prog.dotted(fi.module, it.context_expr.func) == "contextlib.suppress":
                    suppress = True
                    continue
                v = self.with_choices(s, lambda x, it=it: self.ev(it.context_expr, x, fi))
                if v:
                    val, s = v[0]
                    if it.optional_vars is not None:
                        self.assign(it.optional_vars, val, s, fi)
            outs = self.exec_block(stmt.body, [s], fi)
            if suppress:
                sk = st.clone()
                for n in _assigned_names(stmt.body):
                    if n in sk.env:
                        sk.env[n] = UnknownV(f"{n} after suppressed exception")
                sk.trace.append(f"suppressed@{stmt.lineno}")
                outs.append(sk)
            return outs
        if isinstance(stmt, ast.Try):
            body_out = self.exec_block(stmt.body, [st.clone()], fi)
            if stmt.orelse:
                live = [s for s in body_out if not s.dead]
                body_out = [s for s in body_out if s.dead] + self.exec_block(stmt.orelse, live, fi)
            out = list(body_out)
            assigned = _assigned_names(stmt.body)
            for h in stmt.handlers:
                hs = st.clone()
                for n in assigned:
                    if n in hs.env:
                        hs.env[n] = UnknownV(f"{n} at exception")
                    # heap objects reachable may have been mutated partially: lists keep old items (sound for our obligations
                    # because appended nodes are recorded at creation)
                if h.name:
                    hs.env[h.name] = UnknownV("exception")
                hs.trace.append(f"except@{h.lineno}")
                out += self.exec_block(h.body, [hs], fi)
            if stmt.finalbody:
                live = [s for s in out if not s.dead]
                out = [s for s in out if s.dead] + self.exec_block(stmt.finalbody, live, fi)
            return out
        if isinstance(stmt, ast.For):
            return self.exec_for(stmt, st, fi)
        if isinstance(stmt, ast.While):
            return self.exec_while(stmt, st, fi)
        raise AnalysisError(f"unsupported compound {type(stmt).__name__}")

    # -- loops ------------------------------------------------------------------------------------
    def item_sig(self, it, s: State, base_trace_len):
        if isinstance(it, Ref) and it.oid in s.heap and s.heap[it.oid]["kind"] == "node":
            site = s.heap[it.oid].get("site")
            return ("node", id(site), tuple(s.trace[base_trace_len:]))
        if isinstance(it, Ref):
            return ("ref", s.heap.get(it.oid, {}).get("kind"), tuple(s.trace[base_trace_len:]))
        return (type(it).__name__, tuple(s.trace[base_trace_len:]))

    def loop_fix(self, head: State, body_fn, assigned, fi):
        """body_fn(state) -> list of end states of one iteration. Returns (head_state, end states of the last round).
        Variables that change across the back edge are widened to a fresh symbol bounded by the candidate bounds that
        hold for every incoming value; a bound that is not inductive is dropped on the next round."""
        cur = head
        tl = len(head.trace)
        widened = {}       # name -> (symbol Lin, [bound facts mentioning the symbol])
        for rnd in range(10):
            ends = body_fn(cur.clone())
            back = [s for s in ends if s.dead in (None, "continue")]
            nxt = cur.clone()
            progress = False
            changed = set()
            for n in assigned:
                hv = cur.env.get(n)
                if isinstance(hv, (UnknownV,)) or (isinstance(hv, BoolV) and hv.cond is None):
                    continue
                if n in widened:
                    sym, bounds = widened[n]
                    keep = []
                    for f in bounds:
                        ok = True
                        for s in back:
                            bv = s.env.get(n)
                            lv = bv.lin if isinstance(bv, IntV) else (bv.length if isinstance(bv, BytesV) else None)
                            if lv is None:
                                ok = False
                                break
                            inst = f.subst(next(iter(sym.t)), lv)
                            if not entails_nonneg(s.facts, inst):
                                ok = False
                                break
                        if ok:
                            keep.append(f)
                        else:
                            nxt.facts = [x for x in nxt.facts if x != f]
                            progress = True
                    widened[n] = (sym, keep)
                    if any(not isinstance(s.env.get(n), (IntV, BytesV)) for s in back):
                        nxt.env[n] = UnknownV(f"join {n}")
                        del widened[n]
                        progress = True
                    continue
                for s in back:
                    if not _same_value(hv, s.env.get(n), cur, s):
                        changed.add(n)
            grew = False
            for s in ends:
                if s.dead == "raise":
                    continue
                for oid, o in cur.heap.items():
                    if oid not in s.heap:
                        continue
                    if o["kind"] == "list":
                        sigs = nxt.mut(oid).setdefault("sigs", set())
                        new_items = s.heap[oid]["items"][len(o["items"]):]
                        inner_states = s.heap[oid].get("item_states", {})
                        for j_, it in enumerate(new_items, len(o["items"])):
                            sg = self.item_sig(it, s, tl)
                            if sg not in sigs and s.dead in (None, "continue"):
                                nxt.mut(oid)["sigs"] = sigs | {sg}
                                sigs = nxt.heap[oid]["sigs"]
                                nxt.mut(oid)["items"] = nxt.heap[oid]["items"] + [it]
                                nxt.mut(oid)["summary"] = True
                                nxt.mut(oid)["length"] = None
                                if isinstance(it, Ref):
                                    _import_obj(nxt, s, it.oid)
                                    # an item appended inside a nested loop keeps the state of the iteration that produced it (that
                                    # state has the facts about the inner loop's element; this round's end state does not)
                                    prod = inner_states.get(j_, s)
                                    self.birth[it.oid] = prod
                                    # the same object (allocated before a partition point) can be appended on several paths:
                                    # remember the producing state per list position
                                    nxt.mut(oid).setdefault("item_states", {})[len(nxt.heap[oid]["items"]) - 1] = prod
                                elif isinstance(it, IntV):
                                    # project the element: a fresh symbol with the candidate bounds (over loop-invariant quantities) that hold
                                    # where it was produced; the bounds are attached to the item and only assumed when the item is drawn
                                    z = Lin.sym(self.fresh("elem"))
                                    inv = {k: x for k, x in nxt.env.items() if k not in assigned}
                                    lens = [x.length for x in inv.values() if isinstance(x, BytesV)]
                                    cands = {Lin(0), Lin(255)} | {x.lin for x in inv.values() if isinstance(x, IntV)} | set(lens) | \
                                        {a - b for a in lens for b in lens if a != b}
                                    gf = []
                                    for cand in cands:
                                        if s.le(cand, it.lin):
                                            gf.append(z - cand)
                                        if s.le(it.lin, cand):
                                            gf.append(cand - z)
                                    nxt.mut(oid)["items"][-1] = GuardedInt(z, tuple(gf))
                                grew = True
                            elif isinstance(it, Ref):
                                self.birth.setdefault(it.oid, s)
                    elif o["kind"] == "node" and s.dead in (None, "continue") and not _same_fields(o["fields"], s.heap[oid]["fields"], cur, s):
                        changed.add(("heapnode", oid))
            if not changed and not grew and not progress:
                return cur, ends
            for c in changed:
                if isinstance(c, tuple) and c[0] == "heapnode":
                    for k in nxt.heap[c[1]]["fields"]:
                        vals = [(s.heap[c[1]]["fields"].get(k), s) for s in back if c[1] in s.heap]
                        if any(not _same_value(nxt.heap[c[1]]["fields"][k], v, nxt, s) for v, s in vals):
                            nxt.mut(c[1])["fields"][k] = UnknownV(f"havoc field {k}")
                else:
                    vals = [s.env.get(c) for s in back] + [cur.env.get(c)]
                    nf = len(nxt.facts)
                    nv = self.havoc_join(vals, nxt, list(back) + [cur], c)
                    nxt.env[c] = nv
                    if isinstance(nv, IntV):
                        widened[c] = (nv.lin, nxt.facts[nf:])
                    elif isinstance(nv, BytesV):
                        widened[c] = (nv.length, [f for f in nxt.facts[nf:] if next(iter(nv.length.t)) in f.t])
            cur = nxt
        raise AnalysisError(f"abstract interpretation: loop in {fi.fq} did not stabilise")

    def havoc_like(self, v, st, hint):
        if isinstance(v, IntV):
            return IntV(Lin.sym(self.fresh(f"h_{hint}")))
        if isinstance(v, BytesV):
            return self.fresh_bytes(st, ("havoc", hint))
        return UnknownV(f"havoc {hint}")

    def havoc_join(self, vals, st, states, name):
        vals = [v for v in vals if v is not None]
        if not vals:
            return UnknownV(name)
        # integer / bytes constants join with symbolic values of the same kind
        vals = [IntV(Lin(v.value)) if isinstance(v, ConstV) and isinstance(v.value, int) and not isinstance(v.value, bool) else
                (BytesV(("const", v.value), Lin(len(v.value))) if isinstance(v, ConstV) and isinstance(v.value, bytes) else v) for v in vals]
        if all(isinstance(v, IntV) for v in vals):
            # keep common bounds: candidates are the values themselves and the integer variables of the head state
            sym = Lin.sym(self.fresh(f"w_{name}"))
            srcs = list(states)
            lens = [x.length for x in st.env.values() if isinstance(x, BytesV)]
            cands = {v.lin for v in vals} | {x.lin for x in st.env.values() if isinstance(x, IntV)} | {Lin(0)} | set(lens) | \
                {a - b for a in lens for b in lens if a != b}
            for cand in cands:
                if all(s.le(cand, v.lin) for v, s in zip(vals, srcs)):
                    st.add(sym - cand)
                if all(s.le(v.lin, cand) for v, s in zip(vals, srcs)):
                    st.add(cand - sym)
            return IntV(sym)
        if all(isinstance(v, BytesV) for v in vals):
            b = self.fresh_bytes(st, ("join",) + tuple(v.term for v in vals[:4]))
            srcs = list(states)
            for cand in {v.length for v in vals} | {x.length for x in st.env.values() if isinstance(x, BytesV)}:
                if all(s.le(v.length, cand) for v, s in zip(vals, srcs)):
                    st.add(cand - b.length)
            return b
        if all(isinstance(v, ConstV) for v in vals) and len({repr(v.value) for v in vals}) == 1:
            return vals[0]
        if all(isinstance(v, Ref) for v in vals) and len({v.oid for v in vals}) == 1:
            return vals[0]
        if all(isinstance(v, (ConstV, BoolV)) for v in vals) and all(isinstance(getattr(v, "value", True), bool) or isinstance(v, BoolV) for v in vals):
            return BoolV(None, name)
        return UnknownV(f"join {name}")

    def exec_for(self, stmt: ast.For, st, fi):
        outs = []
        for it, s0 in self.with_choices(st, lambda s: self.ev(stmt.iter, s, fi)):
            # element-wise update of a list of heap objects: every element is visited exactly once, so the body is applied
            # once to each abstract element (strong update) when it assigns nothing but the loop variable
            if isinstance(it, Ref) and s0.heap[it.oid]["kind"] == "list" and not s0.heap[it.oid].get("iter") and \
                    _assigned_names(stmt.body) <= _target_names(stmt.target) and not stmt.orelse and \
                    all(isinstance(x, Ref) for x in s0.heap[it.oid]["items"]) and s0.heap[it.oid].get("elem") is None and \
                    not any(isinstance(n, (ast.Break, ast.Return, ast.Continue)) for b in stmt.body for n in ast.walk(b)):
                states = [s0]
                for item in list(s0.heap[it.oid]["items"]):
                    nxt = []
                    for s in states:
                        for _r, s1 in self.with_choices(s, lambda x, item=item: self.assign(stmt.target, item, x, fi)):
                            nxt += self.exec_block(stmt.body, [s1], fi)
                    states = nxt
                outs += states
                continue
            allw = _assigned_names(stmt.body) | _target_names(stmt.target)
            cands = _assigned_names(stmt.body) - _target_names(stmt.target)
            lv, defd_end = live_at_head(stmt.body, cands)
            assigned = lv | (cands - defd_end)

            def body(s, it=it):
                def bind(x):
                    elem = self.iter_element(it, x, fi, stmt)
                    if elem is None:
                        raise Abort()
                    self.assign(stmt.target, elem, x, fi)
                res = []
                for _r, s1 in self.with_choices(s, bind):
                    res += self.exec_block(stmt.body, [s1], fi)
                return res
            head, ends = self.loop_fix(s0, body, assigned, fi)
            # exits: exhaustion (head state: zero or more iterations done) + breaks + returns
            ex = head.clone()
            for n in allw - assigned:
                # not live at the head: after the loop it holds the value of the last iteration, if any
                if n in ex.env or True:
                    ex.env[n] = UnknownV(f"{n} after loop")
            outs.append(ex)
            for s in ends:
                if s.dead == "break":
                    s.dead = None
                    outs.append(s)
                elif s.dead in ("return", "raise"):
                    outs.append(s)
            if stmt.orelse:
                outs = [s for s in outs if s.dead] + self.exec_block(stmt.orelse, [s for s in outs if not s.dead], fi)
        return outs

    def exec_while(self, stmt: ast.While, st, fi):
        allw = _assigned_names(stmt.body)
        test_reads = {n.id for n in ast.walk(stmt.test) if isinstance(n, ast.Name)}
        lv, defd_end = live_at_head(stmt.body, allw)
        assigned = lv | (allw - defd_end) | (allw & test_reads)

        def body(s):
            res = []
            for _r, s1 in self.with_choices(s, lambda x: self.assume(stmt.test, True, x, fi)):
                res += self.exec_block(stmt.body, [s1], fi)
            return res
        head, ends = self.loop_fix(st.clone(), body, assigned, fi)
        outs = []
        for _r, s1 in self.with_choices(head, lambda x: self.assume(stmt.test, False, x, fi)):
            for n in allw - assigned:
                s1.env[n] = UnknownV(f"{n} after loop")
            outs.append(s1)
        for s in ends:
            if s.dead == "break":
                s.dead = None
                outs.append(s)
            elif s.dead in ("return", "raise"):
                outs.append(s)
        return outs

    def iter_element(self, it, st, fi, node):
        """abstract element of an iterable for one (arbitrary) iteration; None = provably empty"""
        if isinstance(it, Ref):
            o = st.heap[it.oid]
            if o["kind"] == "list":
                if o.get("iter") == "finditer":
                    return self.new_match(st, o["pattern"], o["subject"], "finditer", node, fi)
                if o.get("iter") == "enumerate":
                    base = o["base"]
                    n = self.length_of(base, st)
                    i = self.fresh_int(st, "i", 0, (n - 1) if n is not None else None)
                    el = self.element_of(base, i, st, fi, node)
                    return TupleV([i, el])
                if o.get("iter") == "zip":
                    return TupleV([self.element_of(b, None, st, fi, node) for b in o["bases"]])
                if o.get("iter") == "range":
                    lo, hi = o["lo"], o["hi"]
                    return self.fresh_int(st, "r", lo, (hi - 1) if hi is not None else None)
                items = o["items"]
                if not items:
                    if o.get("elem") is not None:
                        return self.draw(o["elem"], st)
                    return None
                k = self.pick(st, len(items), "list-elem")
                return self.draw(items[k], st)
            if o["kind"] == "dict":
                return UnknownV("dict key")
        if isinstance(it, BytesV):
            return self.fresh_int(st, "byte", 0, 255)
        if isinstance(it, ConstV) and isinstance(it.value, (bytes, bytearray)):
            if not it.value:
                return None
            return self.fresh_int(st, "byte", min(it.value), max(it.value))
        if isinstance(it, ConstV) and isinstance(it.value, (tuple, list, frozenset, set)):
            vals = list(it.value)
            if not vals:
                return None
            if all(isinstance(v, int) for v in vals):
                return self.fresh_int(st, "c", min(vals), max(vals))
            return UnknownV("const element")
        if isinstance(it, TupleV):
            if not it.items:
                return None
            return it.items[self.pick(st, len(it.items), "tuple-elem")]
        return UnknownV("element of " + repr(it)[:40])

    def draw(self, item, st):
        if isinstance(item, GuardedInt):
            for f in item.facts:
                st.add(f)
            return IntV(item.lin)
        return item

    def element_of(self, base, idx, st, fi, node):
        if isinstance(base, (BytesV,)) or (isinstance(base, ConstV) and isinstance(base.value, bytes)):
            return self.fresh_int(st, "byte", 0, 255)
        if isinstance(base, Ref) and st.heap[base.oid]["kind"] == "list":
            return self.iter_element(base, st, fi, node) or UnknownV("empty")
        return UnknownV("element")

    # ---------------------------------------------------------------- assignment
    def assign(self, target, v, st, fi):
        if isinstance(target, ast.Name):
            st.env[target.id] = v
        elif isinstance(target, (ast.Tuple, ast.List)):
            items = self.unpack(v, len(target.elts), st, fi, target)
            for t, x in zip(target.elts, items):
                if isinstance(t, ast.Starred):
                    self.assign(t.value, UnknownV("starred"), st, fi)
                else:
                    self.assign(t, x, st, fi)
        elif isinstance(target, ast.Attribute):
            o = self.ev(target.value, st, fi)
            if isinstance(o, Ref) and st.heap[o.oid]["kind"] == "node":
                st.mut(o.oid)["fields"][target.attr] = v
            elif isinstance(o, Ref) and st.heap[o.oid]["kind"] == "obj":
                st.mut(o.oid)["attrs"][target.attr] = v
        elif isinstance(target, ast.Subscript):
            o = self.ev(target.value, st, fi)
            idx = self.ev(target.slice, st, fi) if not isinstance(target.slice, ast.Slice) else None
            if isinstance(o, Ref) and st.heap[o.oid]["kind"] == "list":
                lst = st.mut(o.oid)
                if isinstance(idx, IntV):
                    self.record_index(fi, target, o, idx, st)
                lst["items"] = lst["items"] + [v]
                lst["summary"] = True
            elif isinstance(o, Ref) and st.heap[o.oid]["kind"] == "dict":
                st.mut(o.oid)["values"] = list(st.heap[o.oid].get("values") or []) + [v]
        elif isinstance(target, ast.Starred):
            self.assign(target.value, v, st, fi)

    def unpack(self, v, n, st, fi, node):
        if isinstance(v, TupleV):
            if len(v.items) == n:
                self.unpack_uses.append((fi, node, f"tuple of {n}", True))
                return v.items
            self.unpack_uses.append((fi, node, f"tuple of {len(v.items)} unpacked into {n}", False))
            return [UnknownV("unpack")] * n
        if isinstance(v, ConstV) and isinstance(v.value, (tuple, list)):
            if len(v.value) == n:
                self.unpack_uses.append((fi, node, f"constant of {n}", True))
                return [self.const_av(x) for x in v.value]
            self.unpack_uses.append((fi, node, f"constant of length {len(v.value)} unpacked into {n} targets", False))
            raise Abort()
        if isinstance(v, Ref) and st.heap[v.oid]["kind"] == "list":
            o = st.heap[v.oid]
            ln = o.get("length")
            ok = ln is not None and st.le(ln, n) and st.le(n, ln)
            self.unpack_uses.append((fi, node, f"list of length {ln} unpacked into {n} targets", ok))
            el = o.get("elem")
            if o.get("split_of") is not None and isinstance(el, BytesV):
                pieces = [self.fresh_bytes(st, ("piece", i, o["split_of"])) for i in range(n)]
                sep = self.as_bytes(o.get("split_sep")) if o.get("split_sep") is not None else None
                total = Lin(0)
                for pz in pieces:
                    total = total + pz.length
                base_len = o.get("split_len")
                if sep is not None and base_len is not None:
                    tot = total + sep.length.scale(n - 1)
                    st.add_eq(base_len - tot)
                elif base_len is not None:
                    st.add(base_len - total - (n - 1))
                return pieces
            if o["items"] and not o.get("summary") and len(o["items"]) == n:
                return list(o["items"])
            return [el if el is not None else UnknownV("unpack")] * n
        self.unpack_uses.append((fi, node, f"{v!r} unpacked into {n} targets", isinstance(v, UnknownV) and "struct" in v.why))
        return [UnknownV("unpack")] * n

    # ---------------------------------------------------------------- conditions
    def assume_states(self, test, truth, st, fi):
        """all refinements of st under test == truth (deduplicated)"""
        if isinstance(test, ast.UnaryOp) and isinstance(test.op, ast.Not):
            return self.assume_states(test.operand, not truth, st, fi)
        if isinstance(test, ast.BoolOp):
            is_and = isinstance(test.op, ast.And)
            if is_and == truth:
                states = [st]
                for v in test.values:
                    nxt = []
                    for s in states:
                        nxt += self.assume_states(v, truth, s, fi)
                    states = dedupe(nxt)
                return states
            results = []
            prefix = [st]
            for v in test.values:
                nxt = []
                for s in prefix:
                    results += self.assume_states(v, truth, s.clone(), fi)
                    nxt += self.assume_states(v, not truth, s.clone(), fi)
                prefix = dedupe(nxt)
                if not prefix:
                    break
            return dedupe(results)
        if isinstance(test, ast.Compare) and len(test.ops) > 1 and truth:
            states = [st]
            left = test.left
            for op, r in zip(test.ops, test.comparators):
                nxt = []
                for s in states:
                    nxt += self.assume_states(ast.Compare(left=left, ops=[op], comparators=[r]), True, s, fi)
                states = nxt
                left = r
            return states
        return dedupe([s for _r, s in self.with_choices(st, lambda s: self.assume_leaf(test, truth, s, fi))])

    def assume(self, test, truth, st, fi):
        states = self.assume_states(test, truth, st.clone(), fi)
        if not states:
            raise Abort()
        k = self.pick(st, len(states), "assume")
        st.adopt(states[k])

    def assume_leaf(self, test, truth, st, fi):
        if isinstance(test, ast.Compare) and len(test.ops) == 1:
            a = self.ev(test.left, st, fi)
            b = self.ev(test.comparators[0], st, fi)
            self.assume_cmp(a, test.ops[0], b, truth, st, test)
        else:
            v = self.ev(test, st, fi)
            self.assume_truthy(v, truth, st)
            if isinstance(test, ast.Call) and isinstance(test.func, ast.Attribute) and test.func.attr == "startswith" and len(test.args) == 1:
                recv = self.ev(test.func.value, st, fi)
                arg = self.ev(test.args[0], st, fi)
                rb = self.as_bytes(recv)
                if rb is not None and isinstance(arg, ConstV):
                    opts = arg.value if isinstance(arg.value, tuple) else (arg.value,)
                    if all(isinstance(o, bytes) for o in opts) and opts:
                        if truth:
                            st.prefixes[repr(rb.term)] = tuple(opts)
                            st.add(rb.length - min(len(o) for o in opts))
                        else:
                            # known NOT to start with any of these ("!" keys never collide with a term's repr)
                            st.prefixes["!" + repr(rb.term)] = tuple(opts) + tuple(st.prefixes.get("!" + repr(rb.term), ()))
        if st.infeasible():
            raise Abort()

    def assume_truthy(self, v, truth, st):
        if isinstance(v, ConstV):
            if bool(v.value) != truth:
                raise Abort()
        elif isinstance(v, MatchV):
            if not truth:
                if not v.maybe_none:
                    raise Abort()
                st.env_dead_match = True
                # mark: after `if not m` the match is None; nothing to refine numerically
            else:
                v.maybe_none = False
        elif isinstance(v, IntV):
            if not truth:
                st.add_eq(v.lin)
            else:
                k = self.pick(st, 2, "nonzero")
                st.add(v.lin - 1 if k == 0 else -v.lin - 1)
        elif isinstance(v, BytesV):
            if truth:
                st.add(v.length - 1)
            else:
                st.add(-v.length)
        elif isinstance(v, Ref) and st.heap[v.oid]["kind"] == "list":
            o = st.heap[v.oid]
            ln = o.get("length")
            if ln is not None:
                if truth:
                    st.add(ln - 1)
                else:
                    st.add(-ln)
            if truth and not o["items"] and o.get("elem") is None and not o.get("summary") and ln is None and o.get("iter") is None:
                raise Abort()
        elif isinstance(v, BoolV) and v.cond is not None:
            kind, d = v.cond
            if kind == "le":
                st.add(-d if truth else d - 1)

    def assume_cmp(self, a, op, b, truth, st, node):
        if isinstance(a, ConstV) and isinstance(b, ConstV):
            try:
                if bool(_cmp_const(a.value, op, b.value)) != truth:
                    raise Abort()
                return
            except Abort:
                raise
            except Exception:   # noqa: BLE001
                pass
        la, lb = self.as_lin(a), self.as_lin(b)
        neg = {ast.Lt: ast.GtE, ast.LtE: ast.Gt, ast.Gt: ast.LtE, ast.GtE: ast.Lt, ast.Eq: ast.NotEq, ast.NotEq: ast.Eq}
        if la is not None and lb is not None and type(op) in neg:
            o = type(op) if truth else neg[type(op)]
            if o is ast.Lt:
                st.add(lb - la - 1)
            elif o is ast.LtE:
                st.add(lb - la)
            elif o is ast.Gt:
                st.add(la - lb - 1)
            elif o is ast.GtE:
                st.add(la - lb)
            elif o is ast.Eq:
                st.add_eq(la - lb)
            elif o is ast.NotEq:
                if (la - lb).is_const():
                    if (la - lb).c == 0:
                        raise Abort()
                    return
                k = self.pick(st, 2, "neq")
                st.add(la - lb - 1 if k == 0 else lb - la - 1)
            return
        # bytes equality: lengths agree
        if isinstance(op, (ast.Eq, ast.NotEq)):
            eq = isinstance(op, ast.Eq) == truth
            ba, bb = self.as_bytes(a), self.as_bytes(b)
            if isinstance(b, ConstV) and isinstance(b.value, bytes):
                self._note_prefix_cmp(a, (b.value,), eq, st)
            elif isinstance(a, ConstV) and isinstance(a.value, bytes):
                self._note_prefix_cmp(b, (a.value,), eq, st)
            if eq and ba is not None and bb is not None:
                st.add_eq(ba.length - bb.length)
            if isinstance(a, ConstV) and isinstance(b, ConstV):
                if (a.value == b.value) != eq:
                    raise Abort()
            return
        if isinstance(op, (ast.Is, ast.IsNot)):
            is_ = isinstance(op, ast.Is) == truth
            if isinstance(b, ConstV) and b.value is None:
                if isinstance(a, MatchV):
                    if is_ and not a.maybe_none:
                        raise Abort()
                    if not is_:
                        a.maybe_none = False
                elif isinstance(a, ConstV):
                    if (a.value is None) != is_:
                        raise Abort()
                elif isinstance(a, (IntV, BytesV, Ref)) and is_:
                    raise Abort()
            return
        if isinstance(op, (ast.In, ast.NotIn)):
            isin = isinstance(op, ast.In) == truth
            if isinstance(b, ConstV) and isinstance(b.value, (tuple, list, set, frozenset)) and b.value and all(isinstance(x, bytes) for x in b.value):
                self._note_prefix_cmp(a, tuple(b.value), isin, st)
            if isin and isinstance(a, IntV) and isinstance(b, ConstV) and isinstance(b.value, (dict, tuple, list, frozenset, bytes)) and b.value:
                keys = [k for k in b.value if isinstance(k, int)]
                if keys and len(keys) == len(list(b.value)):
                    st.add(a.lin - min(keys))
                    st.add(max(keys) - a.lin)
            return

    def _note_prefix_cmp(self, a, consts, positive, st):
        """`T[:k] == c` (or `in (c1, c2)`) with len(c) == k is a startswith test on T: record it like one."""
        if not isinstance(a, BytesV) or not isinstance(a.term, tuple):
            return
        term, case = a.term, None
        if len(term) == 2 and term[0] in ("lower", "upper"):       # T[:k].lower() == c  is  T.lower()[:k] == c
            case, term = term[0], term[1]
        if not (isinstance(term, tuple) and len(term) == 4 and term[0] == "slice"):
            return
        _tag, inner, lo, hi = term
        if case is not None:
            inner = (case, inner)
        if not (lo is None or (isinstance(lo, Lin) and lo.is_const() and lo.c == 0)):
            return
        if not (isinstance(hi, Lin) and hi.is_const() and hi.c > 0 and all(len(c) == hi.c for c in consts)):
            return
        if positive:
            st.prefixes[repr(inner)] = tuple(consts)
        else:
            st.prefixes["!" + repr(inner)] = tuple(consts) + tuple(st.prefixes.get("!" + repr(inner), ()))

    def as_lin(self, v):
        if isinstance(v, IntV):
            return v.lin
        if isinstance(v, ConstV) and isinstance(v.value, int) and not isinstance(v.value, bool):
            return Lin(v.value)
        return None

    def as_bytes(self, v):
        if isinstance(v, BytesV):
            return v
        if isinstance(v, ConstV) and isinstance(v.value, (bytes, bytearray)):
            return BytesV(("const", bytes(v.value)), Lin(len(v.value)))
        return None

    def const_av(self, x):
        return ConstV(x)

    def length_of(self, v, st):
        b = self.as_bytes(v)
        if b is not None:
            return b.length
        if isinstance(v, Ref):
            o = st.heap[v.oid]
            if o["kind"] == "list":
                if o.get("length") is not None:
                    return o["length"]
                if not o.get("summary") and o.get("iter") is None and o.get("elem") is None:
                    return Lin(len(o["items"]))
            return None
        if isinstance(v, ConstV) and isinstance(v.value, (str, tuple, list, dict, frozenset)):
            return Lin(len(v.value))
        if isinstance(v, TupleV):
            return Lin(len(v.items))
        return None

    # ---------------------------------------------------------------- expressions
    def ev(self, e, st, fi) -> AV:
        m = getattr(self, "ev_" + type(e).__name__, None)
        if m is None:
            return UnknownV(type(e).__name__)
        return m(e, st, fi)

    def ev_Constant(self, e, st, fi):
        return ConstV(e.value)

    def ev_Name(self, e, st, fi):
        if e.id in st.env:
            return st.env[e.id]
        # closure of enclosing function handled by env copy; module constants / functions
        try:
            return ConstV(self.prog.const(fi.module, e.id))
        except NotConst:
            pass
        r = self.prog.resolve_func_name(fi.module, e.id, fi)
        if r.kind == "repo":
            return FuncV(r.func)
        if r.kind == "class":
            return ExtV("class:" + r.cls)
        if r.kind == "ext":
            return ExtV(r.ext)
        return UnknownV("name " + e.id)

    def ev_NamedExpr(self, e, st, fi):
        v = self.ev(e.value, st, fi)
        self.assign(e.target, v, st, fi)
        return v

    def ev_Tuple(self, e, st, fi):
        items = []
        for x in e.elts:
            if isinstance(x, ast.Starred):
                v = self.ev(x.value, st, fi)
                if isinstance(v, TupleV):
                    items += v.items
                else:
                    items.append(UnknownV("star"))
            else:
                items.append(self.ev(x, st, fi))
        if all(isinstance(i, ConstV) for i in items):
            return ConstV(tuple(i.value for i in items))
        return TupleV(items)

    def ev_List(self, e, st, fi):
        items = [self.ev(x, st, fi) for x in e.elts if not isinstance(x, ast.Starred)]
        return self.alloc(st, "list", items=items, length=Lin(len(e.elts)) if not any(isinstance(x, ast.Starred) for x in e.elts) else None)

    def ev_Set(self, e, st, fi):
        try:
            return ConstV(self.prog.fold(fi.module, e))
        except NotConst:
            return UnknownV("set")

    def ev_Dict(self, e, st, fi):
        try:
            return ConstV(self.prog.fold(fi.module, e))
        except NotConst:
            return self.alloc(st, "dict", values=[self.ev(v, st, fi) for v in e.values])

    def ev_JoinedStr(self, e, st, fi):
        return StrV(("fstring",))

    def ev_IfExp(self, e, st, fi):
        k = self.pick(st, 2, "ifexp")
        self.assume(e.test, k == 0, st, fi)
        return self.ev(e.body if k == 0 else e.orelse, st, fi)

    def ev_BoolOp(self, e, st, fi):
        # value semantics of `a or b` / `a and b`; fork only when the chosen operand matters (non-boolean value)
        is_or = isinstance(e.op, ast.Or)
        last = e.values[-1]
        boolish = all(isinstance(v, (ast.Compare, ast.BoolOp)) or (isinstance(v, ast.UnaryOp) and isinstance(v.op, ast.Not)) or
                      (isinstance(v, ast.Call) and isinstance(v.func, ast.Attribute) and v.func.attr in (
                          "startswith", "endswith", "isalnum", "isupper", "islower", "isdigit")) for v in e.values)
        if boolish:
            for v in e.values:
                try:
                    self.ev(v, st.clone(), fi)
                except Abort:
                    pass
            return BoolV(None, norm_src(e))
        k = self.pick(st, len(e.values), "boolop-value")
        for v in e.values[:k]:
            self.assume(v, not is_or, st, fi)
        if k < len(e.values) - 1:
            self.assume(e.values[k], is_or, st, fi)
        _ = last
        return self.ev(e.values[k], st, fi)

    def ev_UnaryOp(self, e, st, fi):
        v = self.ev(e.operand, st, fi)
        if isinstance(e.op, ast.USub):
            la = self.as_lin(v)
            return IntV(-la) if la is not None else UnknownV("neg")
        if isinstance(e.op, ast.Not):
            if isinstance(v, ConstV):
                return ConstV(not v.value)
            return BoolV(None, norm_src(e))
        return UnknownV("unary")

    def ev_Compare(self, e, st, fi):
        if len(e.ops) == 1:
            a, b = self.ev(e.left, st, fi), self.ev(e.comparators[0], st, fi)
            la, lb = self.as_lin(a), self.as_lin(b)
            if la is not None and lb is not None:
                d = la - lb
                op = e.ops[0]
                if isinstance(op, ast.LtE):
                    return BoolV(("le", d))
                if isinstance(op, ast.Lt):
                    return BoolV(("le", d + 1))
                if isinstance(op, ast.GtE):
                    return BoolV(("le", -d))
                if isinstance(op, ast.Gt):
                    return BoolV(("le", -d + 1))
            if isinstance(a, ConstV) and isinstance(b, ConstV):
                try:
                    return ConstV(_cmp_const(a.value, e.ops[0], b.value))
                except Exception:   # noqa: BLE001
                    pass
        else:
            for x in [e.left] + e.comparators:
                self.ev(x, st, fi)
        return BoolV(None, norm_src(e))

    def ev_BinOp(self, e, st, fi):
        a = self.ev(e.left, st, fi)
        b = self.ev(e.right, st, fi)
        return self.binop(e.op, a, b, st, e, fi)

    def binop(self, op, a, b, st, node, fi=None):
        la, lb = self.as_lin(a), self.as_lin(b)
        if isinstance(a, ConstV) and isinstance(b, ConstV):
            try:
                return ConstV(_bin_const(a.value, op, b.value))
            except Exception:   # noqa: BLE001
                return UnknownV("const binop")
        if la is not None and lb is not None:
            if isinstance(op, ast.Add):
                return IntV(la + lb)
            if isinstance(op, ast.Sub):
                return IntV(la - lb)
            if isinstance(op, ast.Mult):
                if la.is_const():
                    return IntV(lb.scale(la.c))
                if lb.is_const():
                    return IntV(la.scale(lb.c))
                return self.fresh_int(st, "mul")
            if isinstance(op, (ast.Mod, ast.FloorDiv, ast.Div)):
                self.div_uses.append((fi, node, lb, st.snap()))
                if isinstance(op, ast.Mod) and lb.is_const() and lb.c > 0:
                    return self.fresh_int(st, "mod", 0, lb.c - 1)
                if isinstance(op, ast.Mod):
                    r = self.fresh_int(st, "mod", 0)
                    st.add(lb - 1 - r.lin)
                    return r
                return self.fresh_int(st, "div") if isinstance(op, ast.FloorDiv) else UnknownV("float")
            if isinstance(op, ast.BitXor):
                r = self.fresh_int(st, "xor", 0)
                self.int_prov[next(iter(r.lin.t))] = ("xor", la, lb)
                for k in (8, 16, 32):
                    top = Lin(2 ** k - 1)
                    if st.le(0, la) and st.le(0, lb) and st.le(la, top) and st.le(lb, top):
                        st.add(top - r.lin)      # the xor of two k-bit values is a k-bit value
                        break
                return r
            if isinstance(op, (ast.BitAnd,)):
                r = self.fresh_int(st, "and", 0)
                return r
            return self.fresh_int(st, "arith")
        ba, bb = self.as_bytes(a), self.as_bytes(b)
        if isinstance(op, ast.Add) and ba is not None and bb is not None:
            return BytesV(("concat", ba.term, bb.term), ba.length + bb.length)
        if isinstance(op, ast.Mult) and ((ba is not None and lb is not None) or (bb is not None and la is not None)):
            by, n = (ba, lb) if ba is not None else (bb, la)
            if by.length.is_const() and by.length.c == 1:
                return BytesV(("repeat", by.term), n)
            return self.fresh_bytes(st, ("repeat", by.term))
        if isinstance(op, ast.Add) and isinstance(a, (StrV, ConstV)) and isinstance(b, (StrV, ConstV)):
            return StrV(("concat",))
        if isinstance(op, ast.Add) and isinstance(a, Ref) and isinstance(b, Ref):
            oa, ob = st.heap[a.oid], st.heap[b.oid]
            if oa["kind"] == "list" and ob["kind"] == "list":
                return self.alloc(st, "list", items=oa["items"] + ob["items"], summary=True)
        if isinstance(op, ast.Div):
            self.div_uses.append((fi, node, lb, st.snap()))
            return UnknownV("float")
        return UnknownV(f"binop {type(op).__name__}")

    def ev_Attribute(self, e, st, fi):
        d = self.prog.dotted(fi.module, e)
        base_is_local = isinstance(_root(e), ast.Name) and _root(e).id in st.env
        if d is not None and not base_is_local:
            try:
                return ConstV(self.prog.fold(fi.module, e))
            except NotConst:
                pass
            root = _root(e)
            if isinstance(root, ast.Name) and root.id in fi.module.imports:
                c = self.prog.callee(fi.module, fi, ast.Call(func=e, args=[], keywords=[]))
                if c.kind == "repo":
                    return FuncV(c.func)
                return ExtV(d)
        o = self.ev(e.value, st, fi)
        if isinstance(o, Ref):
            h = st.heap[o.oid]
            if h["kind"] == "node":
                if e.attr in h["fields"]:
                    return h["fields"][e.attr]
                if e.attr == "original":
                    return UnknownV("original")
                return BoundMethod(o, e.attr)
            if h["kind"] == "obj":
                if e.attr in h["attrs"]:
                    return h["attrs"][e.attr]
                return BoundMethod(o, e.attr)
            return BoundMethod(o, e.attr)
        if isinstance(o, (BytesV, StrV, MatchV, ConstV, TupleV, IntV)):
            return BoundMethod(o, e.attr)
        if isinstance(o, ExtV):
            return ExtV(o.name + "." + e.attr)
        return UnknownV("attr " + e.attr)

    def ev_Subscript(self, e, st, fi):
        base = self.ev(e.value, st, fi)
        if isinstance(e.slice, ast.Slice):
            lo = self.ev(e.slice.lower, st, fi) if e.slice.lower is not None else None
            hi = self.ev(e.slice.upper, st, fi) if e.slice.upper is not None else None
            step = self.ev(e.slice.step, st, fi) if e.slice.step is not None else None
            return self.slice(base, lo, hi, step, st, e)
        idx = self.ev(e.slice, st, fi)
        li = self.as_lin(idx)
        if isinstance(idx, IntV) and idx.lin.is_const() and idx.lin.c.denominator == 1:
            idx = ConstV(int(idx.lin.c))
        if isinstance(base, ConstV) and isinstance(idx, ConstV):
            try:
                return self.const_av(base.value[idx.value])
            except Exception:   # noqa: BLE001
                self.record_index(fi, e, base, idx, st)
                raise Abort()
        if li is not None:
            self.record_index(fi, e, base, IntV(li), st)
        else:
            self.record_index(fi, e, base, idx, st)
        bb = self.as_bytes(base)
        if bb is not None and li is not None:
            return self.fresh_int(st, "byte", 0, 255)
        if isinstance(base, TupleV) and isinstance(idx, ConstV) and isinstance(idx.value, int) and -len(base.items) <= idx.value < len(base.items):
            return base.items[idx.value]
        if isinstance(base, Ref):
            o = st.heap[base.oid]
            if o["kind"] == "list":
                if isinstance(idx, ConstV) and isinstance(idx.value, int) and o.get("split_of") is not None:
                    return self.split_piece(st.mut(base.oid), idx.value, st)
                if isinstance(idx, ConstV) and isinstance(idx.value, int) and not o.get("summary") and o.get("iter") is None and -len(o["items"]) <= idx.value < len(o["items"]):
                    return o["items"][idx.value]
                if o.get("elem") is not None:
                    return o["elem"]
                if o["items"]:
                    return self.draw(o["items"][self.pick(st, len(o["items"]), "subscript")], st)
                return UnknownV("list element")
            if o["kind"] == "dict":
                vals = o.get("values") or []
                if vals:
                    return vals[self.pick(st, len(vals), "dict value")]
                return UnknownV("dict value")
        if isinstance(base, ConstV) and isinstance(base.value, dict):
            vals = list(base.value.values())
            if vals and all(isinstance(v, int) for v in vals):
                return self.fresh_int(st, "dv", min(vals), max(vals))
            return UnknownV("dict value")
        return UnknownV("subscript")

    def split_piece(self, o, k, st):
        """the k-th piece of x.split(sep): memoised per list object; the split-offset lemma
        sum(len(piece_j) for j <= K) + K*len(sep) <= len(x) is added for the non-negative indices used so far"""
        pieces = o.setdefault("pieces", {})
        if k in pieces:
            return pieces[k]
        L = o.get("split_len")
        pz = self.fresh_bytes(st, ("piece", k, o["split_of"]), maxlen=L)
        pieces[k] = pz
        sep = self.as_bytes(o.get("split_sep")) if o.get("split_sep") is not None else None
        if k >= 0 and L is not None:
            # knowledge from a dominating startswith(prefix): the leading pieces are those of the prefix
            lower = {}
            pref = st.prefixes.get(repr(o["split_of"]))
            if pref and sep is not None and isinstance(sep.term, tuple) and sep.term[0] == "const":
                profs = [p.split(sep.term[1]) for p in pref]
                m = min(len(pr) for pr in profs)
                for j in range(m):
                    lower[j] = min(len(pr[j]) for pr in profs)
                if k < m - 1 and len({len(pr[k]) for pr in profs}) == 1:
                    st.add_eq(pz.length - len(profs[0][k]))
                elif k == m - 1 and all(len(pr) == m for pr in profs):
                    st.add(pz.length - lower[k])
            nonneg = sorted(j for j in pieces if j >= 0)
            kmax = nonneg[-1]
            tot = Lin(0)
            for j in range(kmax + 1):
                if j in pieces:
                    tot = tot + pieces[j].length
                else:
                    tot = tot + lower.get(j, 0)
            seplen = sep.length if sep is not None else Lin(1)
            st.add(L - tot - seplen.scale(kmax))
        return pz

    def record_index(self, fi, node, base, idx, st):
        self.index_uses.append((fi, node, base, idx, st.snap(), self.length_of(base, st) if not isinstance(base, tuple) else None))

    def slice(self, base, lo, hi, step, st, node):
        bb = self.as_bytes(base)
        if isinstance(base, ConstV) and all(x is None or isinstance(x, ConstV) for x in (lo, hi, step)):
            try:
                return ConstV(base.value[(lo.value if lo else None):(hi.value if hi else None):(step.value if step else None)])
            except Exception:   # noqa: BLE001
                return UnknownV("const slice")
        if bb is None:
            if isinstance(base, Ref) and st.heap[base.oid]["kind"] == "list":
                o = st.heap[base.oid]
                el = o.get("elem")
                # pieces[:-1] of a split: the elements are the pieces that are followed by a separator
                if (o.get("split_of") is not None and isinstance(el, BytesV) and el.term[:1] == ("piece",) and len(el.term) == 3 and el.term[1] == "split"
                        and not o["items"] and step is None and (lo is None or (isinstance(lo, ConstV) and lo.value in (0, None)))
                        and hi is not None and self.as_lin(hi) is not None and self.as_lin(hi).is_const() and self.as_lin(hi).c == -1):
                    el = BytesV(el.term + ("nonlast",), el.length)
                return self.alloc(st, "list", items=list(o["items"]), summary=True, elem=el)
            return UnknownV("slice of " + repr(base)[:30])
        L = bb.length
        llo = self.as_lin(lo) if lo is not None else None
        lhi = self.as_lin(hi) if hi is not None else None
        if step is not None:
            sl = self.as_lin(step)
            sv = int(sl.c) if sl is not None and sl.is_const() else None
            if sv == -1:
                # reversed slice x[a:b:-1]: at most a+1 bytes (a defaults to the end), at most len(x)
                r = self.fresh_bytes(st, ("revslice", bb.term, llo, lhi), maxlen=L)
                if llo is not None:
                    # negative a counts from the end; only use the bound for provably non-negative a
                    if st.le(0, llo):
                        st.add(llo + 1 - r.length)
                    if lhi is not None and st.le(0, lhi) and st.le(0, llo):
                        st.add(llo - lhi - r.length) if st.le(lhi, llo) else None
                    if lhi is not None and lhi.is_const() and lhi.c == 0 and llo.is_const() and llo.c < 0:
                        # x[-k:0:-1] : len = max(len(x) - k, 0)   (elements len-k .. 1)
                        k = -llo.c
                        st.add(r.length - (L - k))
                        if st.le(k, L):
                            st.add((L - k) - r.length)
                return r
            return self.fresh_bytes(st, ("stepslice", bb.term), maxlen=L)
        term = ("slice", bb.term, llo, lhi)
        # exact cases
        if (lo is None or (llo is not None and llo.is_const() and llo.c == 0)) and hi is None:
            return BytesV(bb.term, L)
        if (lo is not None and llo is None) or (hi is not None and lhi is None):
            return self.fresh_bytes(st, term, maxlen=L)
        a = self.norm_index(llo, L, st, default=Lin(0))
        b = self.norm_index(lhi, L, st, default=L)
        # length = max(b - a, 0) with a, b in [0, L]
        if st.le(a, b):
            n = b - a
        elif st.le(b, a):
            n = Lin(0)
        else:
            k = self.pick(st, 2, "slice-order")
            if k == 0:
                st.add(b - a)
                n = b - a
            else:
                st.add(a - b - 1)
                n = Lin(0)
        if st.infeasible():
            raise Abort()
        return BytesV(term, n)

    def norm_index(self, x, L, st, default):
        """clamp a slice bound into [0, L] following Python's rules; partitions only when the facts do not decide"""
        if x is None:
            return default
        if st.le(0, x):
            if st.le(x, L):
                return x
            if st.le(L, x):
                return L
            k = self.pick(st, 2, "slice-bound")
            if k == 0:
                st.add(L - x)
                return x
            st.add(x - L - 1)
            return L
        if st.le(x, -1):
            y = L + x
            if st.le(0, y):
                return y
            if st.le(y, 0):
                return Lin(0)
            k = self.pick(st, 2, "slice-neg-bound")
            if k == 0:
                st.add(y)
                return y
            st.add(-y - 1)
            return Lin(0)
        k = self.pick(st, 2, "slice-sign")
        if k == 0:
            st.add(x)
        else:
            st.add(-x - 1)
        if st.infeasible():
            raise Abort()
        return self.norm_index(x, L, st, default)

    def ev_ListComp(self, e, st, fi):
        return self.comprehension(e, st, fi)

    ev_GeneratorExp = ev_ListComp
    ev_SetComp = ev_ListComp

    def comprehension(self, e, st, fi):
        """evaluate as a summarised list; element values from one arbitrary iteration per generator"""
        saved_env = dict(st.env)
        items = []
        length = None
        try:
            ok = True
            first_len = None
            for gi, g in enumerate(e.generators):
                it = self.ev(g.iter, st, fi)
                if gi == 0 and not g.ifs and len(e.generators) == 1:
                    first_len = self.length_of(it, st)
                el = self.iter_element(it, st, fi, e)
                if el is None:
                    ok = False
                    break
                self.assign(g.target, el, st, fi)
                for c in g.ifs:
                    self.assume(c, True, st, fi)
            if ok:
                items.append(self.ev(e.elt, st, fi))
                length = first_len
        except Abort:
            items = []
        finally:
            for k in list(st.env):
                if k not in saved_env:
                    del st.env[k]
                else:
                    st.env[k] = saved_env[k]
        return self.alloc(st, "list", items=items, summary=True, length=length, comp=True)

    def ev_DictComp(self, e, st, fi):
        return UnknownV("dictcomp")

    def ev_Lambda(self, e, st, fi):
        return FuncV(fi.module.func_of_node(e), closure=dict(st.env))

    def ev_Starred(self, e, st, fi):
        return self.ev(e.value, st, fi)

    # ---------------------------------------------------------------- calls
    def ev_Call(self, e, st, fi):
        f = self.ev(e.func, st, fi)
        args = []
        for a in e.args:
            if isinstance(a, ast.Starred):
                v = self.ev(a.value, st, fi)
                if isinstance(v, TupleV):
                    args += v.items
                elif isinstance(v, ConstV) and isinstance(v.value, tuple):
                    args += [ConstV(x) for x in v.value]
                else:
                    args.append(("star", v))
            else:
                args.append(self.ev(a, st, fi))
        kwargs = {k.arg: self.ev(k.value, st, fi) for k in e.keywords if k.arg is not None}
        if isinstance(f, FuncV):
            return self.call_repo_value(f, args, kwargs, st, e, fi)
        if isinstance(f, BoundMethod):
            return self.call_method(f.recv, f.name, args, kwargs, st, e, fi)
        if isinstance(f, ExtV):
            return self.call_ext(f.name, args, kwargs, st, e, fi)
        return UnknownV("call of " + repr(f)[:40])

    def call_repo_value(self, f: FuncV, args, kwargs, st, node, fi):
        if f.fi is None:
            return UnknownV("call")
        if f.fi.module.short in OPAQUE_MODULES:
            # numeric helper library: summarised (it allocates no Node and returns lists of byte strings)
            self.opaque_calls.add(f.fi.fq)
            return self.alloc(st, "list", items=[], elem=self.fresh_bytes(st, ("opaque", f.fi.fq)), summary=True)
        if f.fi in self.opaque_bytes and self.call_stack:
            # helper returning bytes whose own path structure is irrelevant to the caller: an unconstrained byte string (sound)
            self.summaries_used.add(f.fi.fq)
            a0 = args[0] if args else None
            b0 = self.as_bytes(a0)
            st.events.append((f.fi.fq, b0))
            return self.fresh_bytes(st, ("call", f.fi.fq, b0.term if b0 is not None else ("?",)))
        if f.fi in self.summaries and self.call_stack:
            # modular step: use the callee's span contract (checked separately with the callee as entry point):
            # every returned node n satisfies 0 <= n.start <= n.end <= len(<contract parameter>)
            pname = self.summaries[f.fi]
            idx = f.fi.params.index(pname)
            allargs = list(f.bound) + list(args)
            arg = allargs[idx] if idx < len(allargs) else kwargs.get(pname)
            b = self.as_bytes(arg)
            self.summaries_used.add(f.fi.fq)
            sN = self.fresh_int(st, "cs", 0)
            eN = self.fresh_int(st, "ce")
            st.add(eN.lin - sN.lin)
            if b is not None:
                st.add(b.length - eN.lin)
            val = self.fresh_bytes(st, ("contract-node-value", f.fi.fq))
            ch = self.alloc(st, "list", items=[], length=Lin(0))
            nd = self.alloc(st, "node", fields=dict(type=UnknownV("type"), value=val, obfuscation=UnknownV("obf"), start=sN, end=eN,
                                                    parent=ConstV(None), children=ch), site=node, contract_of=f.fi.fq)
            return self.alloc(st, "list", items=[nd], summary=True)
        if self.is_predicate(f.fi) and self.call_stack:
            self.predicates_summarised.add(f.fi.fq)
            return BoolV(None, f.fi.qualname)
        allargs = list(f.bound) + list(args)
        states = self.call_repo(f.fi, allargs, kwargs, st, closure=f.closure)
        rets = [s for s in states if s.dead == "return"]
        if not rets:
            raise Abort()
        k = self.pick(st, len(rets), f"return of {f.fi.qualname}")
        r = rets[k]
        st.facts = r.facts
        st.eqs = r.eqs
        st.heap = r.heap
        st._owned = r._owned
        st.trace = r.trace
        st.events = r.events
        st.prefixes = r.prefixes
        return r.retval

    def call_repo(self, fi: FuncInfo, args, kwargs, st, top=False, closure=None):
        if len(self.call_stack) >= MAX_DEPTH or fi in self.call_stack:
            s = st.clone()
            s.dead = "return"
            s.retval = UnknownV("recursion/depth " + fi.qualname)
            return [s]
        callee = st.clone()
        env = dict(closure) if closure else {}
        a = fi.node.args
        names = [x.arg for x in a.posonlyargs + a.args]
        defaults = dict(zip(names[len(names) - len(a.defaults):], a.defaults))
        for x, d in zip(a.kwonlyargs, a.kw_defaults):
            if d is not None:
                defaults[x.arg] = d
        plain = [x for x in args if not (isinstance(x, tuple) and x and x[0] == "star")]
        if len(plain) != len(args):
            # unknown-arity star argument: bind what we can
            pass
        for n, v in zip(names, plain):
            env[n] = v
        for k, v in kwargs.items():
            env[k] = v
        for n in names + [x.arg for x in a.kwonlyargs]:
            if n not in env:
                if n in defaults:
                    try:
                        env[n] = ConstV(self.prog.fold(fi.module, defaults[n]))
                    except NotConst:
                        env[n] = UnknownV("default " + n)
                else:
                    env[n] = UnknownV("missing arg " + n)
        if a.vararg:
            env[a.vararg.arg] = TupleV(plain[len(names):])
        if a.kwarg:
            env[a.kwarg.arg] = UnknownV("kwargs")
        callee.env = env
        callee.dead = None
        callee.retval = None
        self.call_stack.append(fi)
        saved = self.ch
        try:
            outs = self.exec_block(fi.body, [callee], fi)
        finally:
            self.call_stack.pop()
            self.ch = saved
        res = []
        for s in outs:
            if s.dead == "raise":
                continue
            if s.dead is None:
                s.dead = "return"
                s.retval = ConstV(None)
            if s.dead == "return":
                s.env = st.env if not top else s.env
                res.append(s)
        return res

    def is_predicate(self, fi: FuncInfo) -> bool:
        """a function annotated `-> bool` that allocates no Node and mutates nothing: summarised as an unknown boolean
        (its own body is analysed separately, as an entry point, for the index/exception obligations)"""
        if isinstance(fi.node, ast.Lambda):
            return False
        r = fi.node.returns
        if not (isinstance(r, ast.Name) and r.id == "bool") and not (isinstance(r, ast.Constant) and r.value == "bool"):
            return False
        for n in ast.walk(fi.node):
            if isinstance(n, ast.Call) and isinstance(n.func, ast.Attribute) and n.func.attr in ("append", "extend", "shift"):
                return False
            if isinstance(n, ast.Call) and isinstance(n.func, ast.Name) and n.func.id == "Node":
                return False
        return True

    # -- Node constructor ----------------------------------------------------------------------
    def make_node(self, args, kwargs, st, node, fi):
        params = self.prog.node_class_params()
        fields = {}
        for p, v in zip(params, [x for x in args if not (isinstance(x, tuple) and x and x[0] == "star")]):
            fields[p] = v
        if any(isinstance(x, tuple) and x and x[0] == "star" for x in args):
            raise AnalysisError(f"{fi.module.rel}:{node.lineno}: starred argument of unknown arity in Node(...)")
        for k, v in kwargs.items():
            fields[k] = v
        dflt = self.prog.node_defaults()
        for p in params:
            if p not in fields:
                fields[p] = ConstV(self.prog.fold(self.prog.mod("node"), dflt[p])) if p in dflt else UnknownV("missing")
        canon = dict(zip(params, ["type", "value", "obfuscation", "start", "end", "parent", "children"]))
        f2 = {canon[p]: v for p, v in fields.items()}
        ch = f2["children"]
        if isinstance(ch, ConstV) and ch.value is None:
            ch = self.alloc(st, "list", items=[], length=Lin(0))
        elif isinstance(ch, Ref) and st.heap[ch.oid]["kind"] == "list" and not st.heap[ch.oid]["items"] and not st.heap[ch.oid].get("summary"):
            ch = self.alloc(st, "list", items=[], length=Lin(0))   # `if children:` is false for [] -> fresh list
        f2["children"] = ch
        ref = self.alloc(st, "node", fields=f2, site=node)
        if isinstance(ch, Ref):
            for c in st.heap[ch.oid]["items"]:
                if isinstance(c, Ref) and st.heap[c.oid]["kind"] == "node":
                    st.mut(c.oid)["fields"]["parent"] = ref
        self.node_sites.append(SiteRecord(node, fi, tuple(f.fq for f in self.call_stack), ref.oid))
        return ref

    # -- methods ---------------------------------------------------------------------------------
    def call_method(self, recv, name, args, kwargs, st, node, fi):
        if isinstance(recv, MatchV):
            if recv.maybe_none:
                self.none_uses.append((fi, node, st.snap()))
            return self.match_method(recv, name, args, st, node, fi)
        if isinstance(recv, Ref):
            o = st.heap[recv.oid]
            if o["kind"] == "node":
                nm = self.prog.mod("node")
                q = f"Node.{name}"
                if q in nm.funcs:
                    return self.call_repo_value(FuncV(nm.funcs[q]), [recv] + args, kwargs, st, node, fi)
                return UnknownV("node method " + name)
            if o["kind"] == "list":
                return self.list_method(recv, st.mut(recv.oid) if name in ("append", "extend", "insert", "sort", "reverse", "clear", "remove") else o, name, args, st, node, fi)
            if o["kind"] == "obj":
                return UnknownV("obj method " + name)
            if o["kind"] == "dict":
                if name == "get":
                    vals = o.get("values") or []
                    k = self.pick(st, len(vals) + 1, "dict.get")
                    return vals[k] if k < len(vals) else (args[1] if len(args) > 1 else ConstV(None))
                return UnknownV("dict method")
        b = self.as_bytes(recv)
        if b is not None:
            return self.bytes_method(b, recv, name, args, kwargs, st, node, fi)
        if isinstance(recv, StrV) or (isinstance(recv, ConstV) and isinstance(recv.value, str)):
            if name == "encode":
                self.conv_uses.append((fi, node, "encode", [recv] + list(args), dict(kwargs), st.snap(), None))
                if isinstance(recv, ConstV):
                    return ConstV(recv.value.encode())
                # the term is the plain ("encode", x) only for strict UTF-8; any other codec or error handler is part of the term
                cargs = [a.value if isinstance(a, ConstV) else "?" for a in args]
                ckw = {k: (v.value if isinstance(v, ConstV) else "?") for k, v in kwargs.items()}
                codec = cargs[0] if cargs else ckw.get("encoding", "utf-8")
                errors = cargs[1] if len(cargs) > 1 else ckw.get("errors", "strict")
                if isinstance(codec, str) and codec.lower().replace("_", "-") in ("utf-8", "utf8", "u8") and errors == "strict" and len(cargs) <= 2:
                    return self.fresh_bytes(st, ("encode", recv.term))
                return self.fresh_bytes(st, ("encode-with", recv.term, str(codec), str(errors)))
            if name in ("isprintable", "isupper", "islower", "startswith", "endswith"):
                return BoolV(None, name)
            if name == "join":
                return StrV(("join",))
            return StrV((name,))
        if isinstance(recv, ConstV) and isinstance(recv.value, dict) and name == "get":
            vals = list(recv.value.values())
            k = self.pick(st, len(vals) + 1, "dict.get")
            if k < len(vals):
                return ConstV(vals[k])
            return args[1] if len(args) > 1 else ConstV(None)
        if isinstance(recv, IntV) or isinstance(recv, ConstV):
            return UnknownV(f"method {name}")
        return UnknownV(f"method {name} of {recv!r}"[:60])

    def list_method(self, recv, o, name, args, st, node, fi):
        if name == "append":
            o["items"] = o["items"] + [args[0]]
            if o.get("length") is not None:
                o["length"] = o["length"] + 1
            return ConstV(None)
        if name == "extend":
            src = args[0]
            if isinstance(src, Ref) and st.heap[src.oid]["kind"] == "list":
                so = st.heap[src.oid]
                o["items"] = o["items"] + list(so["items"])
                if so.get("elem") is not None:
                    o["items"] = o["items"] + [so["elem"]]
                o["summary"] = True
                o["length"] = None
            else:
                o["summary"] = True
                o["length"] = None
            return ConstV(None)
        if name == "pop":
            if o["items"]:
                return o["items"][self.pick(st, len(o["items"]), "pop")]
            return o.get("elem") or UnknownV("pop of empty")
        if name == "copy":
            return self.alloc(st, "list", items=list(o["items"]), summary=o.get("summary"), elem=o.get("elem"), length=o.get("length"))
        if name in ("sort", "reverse", "clear", "insert", "remove"):
            if name == "insert" and len(args) == 2:
                o["items"] = o["items"] + [args[1]]
            o["summary"] = True
            return ConstV(None)
        if name == "count":
            return self.fresh_int(st, "count", 0)
        return UnknownV("list method " + name)

    def match_method(self, m: MatchV, name, args, st, node, fi):
        info = self.matches[m.mid]
        if name == "group" and len(args) > 1:
            # m.group(1, 2, 3): the tuple of the groups
            return TupleV([self.match_method(m, "group", [a], st, node, fi) for a in args])
        k = 0
        if args:
            if isinstance(args[0], ConstV) and isinstance(args[0].value, int):
                k = args[0].value
            else:
                k = None
        if name in ("start", "end", "span", "group"):
            if k is None:
                return UnknownV("dynamic group index")
            info.setdefault("groups_used", set()).add(k)
            s, e_ = self.group_span(m, k, st)
            if name == "start":
                return IntV(s)
            if name == "end":
                return IntV(e_)
            if name == "span":
                return TupleV([IntV(s), IntV(e_)])
            return BytesV(("group", m.mid, k), e_ - s)
        if name == "groups":
            return UnknownV("groups()")
        return UnknownV("match method " + name)

    def group_span(self, m: MatchV, k, st):
        info = self.matches[m.mid]
        s = Lin.sym(f"{m.mid}.start({k})")
        e_ = Lin.sym(f"{m.mid}.end({k})")
        key = ("span", m.mid, k)
        if key not in info.setdefault("axioms", set()):
            info["axioms"].add(key)
        L = info["subject"].length
        st.add(e_ - s)
        if k == 0:
            st.add(s - info.get("pos", Lin(0)))
            st.add(L - e_)
            if info.get("minlen"):
                st.add(e_ - s - info["minlen"])
            if info.get("anchored_at") is not None:
                st.add(info["anchored_at"] - s)
        else:
            s0, e0 = self.group_span(m, 0, st)
            mand = info.get("mandatory", set())
            if k in mand:
                st.add(s - s0)
                st.add(e0 - e_)
            else:
                # a group that did not participate reports (-1, -1)
                st.add(s + 1)
                st.add(e0 - e_)
                info.setdefault("optional_used", set()).add(k)
            gm = info.get("group_minlen", {}).get(k)
            if gm and k in mand:
                st.add(e_ - s - gm)
        return s, e_

    def new_match(self, st, pattern, subject: BytesV, api, node, fi, pos=None, maybe_none=False):
        mid = f"m{next(self.counter)}"
        info = dict(pattern=pattern, subject=subject, api=api, node=node, func=fi, pos=pos if pos is not None else Lin(0))
        if pattern is not None:
            try:
                c = rx.compile_pattern(pattern, "any", "any")
                info["minlen"] = rx.minlen(c.dfa) or 0
                info["mandatory"] = rx.mandatory_groups(pattern)
                info["ngroups"] = rx.group_count(pattern)
                gml = {}
                for g in info["mandatory"]:
                    try:
                        gml[g] = rx.minlen(rx.group_language(pattern, g).dfa) or 0
                    except rx.RxError:
                        pass
                info["group_minlen"] = gml
            except rx.RxError as x:
                info["rxerror"] = str(x)
        if api == "match":
            info["anchored_at"] = info["pos"]
        self.matches[mid] = info
        return MatchV(mid, maybe_none)

    def bytes_method(self, b: BytesV, recv, name, args, kwargs, st, node, fi):
        L = b.length
        if isinstance(recv, ConstV) and all(isinstance(a, ConstV) for a in args) and not kwargs and name not in ("join",):
            try:
                return self.const_av(getattr(recv.value, name)(*[a.value for a in args]))
            except Exception:   # noqa: BLE001
                pass
        if name in ("lower", "upper", "swapcase", "title", "capitalize"):
            return BytesV((name, b.term), L)
        if name in ("strip", "lstrip", "rstrip"):
            return self.fresh_bytes(st, (name, b.term), maxlen=L)
        if name in ("startswith", "endswith", "isalnum", "isupper", "islower", "isdigit", "isalpha", "isspace"):
            return BoolV(None, name)
        if name in ("find", "rfind", "index", "rindex"):
            sub = self.as_bytes(args[0]) if args else None
            sublen = sub.length if sub is not None else Lin(1)
            start = self.as_lin(args[1]) if len(args) > 1 else None
            end = self.as_lin(args[2]) if len(args) > 2 else None
            k = self.pick(st, 2, "find")
            if k == 0 and name in ("find", "rfind"):
                return IntV(Lin(-1))
            if k == 0:
                raise Abort()    # index(): not found raises
            r = self.fresh_int(st, "found")
            lo = start if start is not None and st.le(0, start) else Lin(0)
            st.add(r.lin - lo)
            hi = end if end is not None and st.le(0, end) and st.le(end, L) else L
            st.add(hi - sublen - r.lin)
            return r
        if name == "count":
            return self.fresh_int(st, "count", 0, L)
        if name in ("partition", "rpartition") and len(args) == 1:
            # (head, sep, tail): found -> head + sep + tail == self; not found -> (self, b"", b"") / (b"", b"", self)
            sepv = self.as_bytes(args[0])
            k = self.pick(st, 2, name)
            if k == 0 or sepv is None:
                empty = BytesV(("const", b""), Lin(0))
                whole = BytesV(b.term, L)
                if sepv is None:
                    u = self.fresh_bytes(st, (name, 0, b.term), maxlen=L)
                    return TupleV([u, self.fresh_bytes(st, (name, 1, b.term), maxlen=L), self.fresh_bytes(st, (name, 2, b.term), maxlen=L)])
                return TupleV([whole, empty, empty] if name == "partition" else [empty, empty, whole])
            head = self.fresh_bytes(st, (name, 0, b.term, sepv.term), maxlen=L)
            tail = self.fresh_bytes(st, (name, 2, b.term, sepv.term), maxlen=L)
            st.add_eq(L - head.length - sepv.length - tail.length)
            return TupleV([head, BytesV(sepv.term, sepv.length), tail])
        if name in ("split", "rsplit", "splitlines"):
            el = self.fresh_bytes(st, ("piece", name, b.term), maxlen=L)
            maxsplit = None
            if len(args) > 1:
                maxsplit = args[1]
            if "maxsplit" in kwargs:
                maxsplit = kwargs["maxsplit"]
            ln = Lin.sym(self.fresh("nparts"))
            sep_given = bool(args) and not (isinstance(args[0], ConstV) and args[0].value is None)
            st.add(ln - (1 if sep_given else 0))
            if isinstance(maxsplit, ConstV) and isinstance(maxsplit.value, int) and maxsplit.value >= 0:
                st.add(Lin(maxsplit.value + 1) - ln)
            if name == "split" and sep_given and isinstance(args[0], ConstV) and isinstance(args[0].value, bytes):
                self.piece_sep[repr(b.term)] = args[0].value
            if name in ("split", "rsplit") and sep_given and isinstance(args[0], ConstV) and isinstance(args[0].value, bytes):
                self.split_ops.setdefault(repr(b.term), set()).add((name, args[0].value))
            return self.alloc(st, "list", items=[], elem=el, length=ln, summary=True, split_of=b.term, split_len=L,
                              split_sep=args[0] if sep_given else None)
        if name == "join":
            return self.fresh_bytes(st, ("join", b.term))
        if name == "replace":
            new = self.as_bytes(args[1]) if len(args) > 1 else None
            old = self.as_bytes(args[0]) if args else None
            t = ("replace", b.term, old.term if old else None, new.term if new else None)
            if new is not None and old is not None and st.le(new.length, old.length):
                return self.fresh_bytes(st, t, maxlen=L)
            return self.fresh_bytes(st, t)
        if name == "decode":
            self.conv_uses.append((fi, node, "decode", [recv] + list(args), dict(kwargs), st.snap(), None))
            return StrV(("decode", b.term, tuple(a.value if isinstance(a, ConstV) else "?" for a in args),
                         tuple(sorted((k, v.value if isinstance(v, ConstV) else "?") for k, v in kwargs.items()))))
        if name == "hex":
            return StrV(("hex", b.term))
        if name == "translate":
            return self.fresh_bytes(st, ("translate", b.term), maxlen=L)
        return UnknownV("bytes method " + name)

    # -- externals ---------------------------------------------------------------------------------
    def call_ext(self, name, args, kwargs, st, node, fi):
        if name == f"class:{PKG}.node.Node":
            return self.make_node(args, kwargs, st, node, fi)
        if name.startswith("class:"):
            return self.alloc(st, "obj", attrs={}, cls=name[6:])
        a0 = args[0] if args else None
        if name in ("int", "bytes", "chr", "binascii.unhexlify", "binascii.a2b_hex", "bytes.fromhex", "binascii.a2b_base64", "struct.unpack_from", "struct.unpack",
                    "max", "min", "next", "ipaddress.IPv4Address", "ipaddress.IPv6Address", "socket.inet_aton", "socket.inet_pton", "urllib.parse.urlsplit", "pefile.PE"):
            extra = None
            if name == "bytes" and isinstance(a0, Ref) and st.heap[a0.oid]["kind"] == "list":
                o_ = st.heap[a0.oid]
                extra = list(o_["items"]) + ([o_["elem"]] if o_.get("elem") is not None else [])
            self.conv_uses.append((fi, node, name, list(args), dict(kwargs), st.snap(), extra))
        if name == "len":
            n = self.length_of(a0, st)
            if n is not None:
                return IntV(n)
            return self.fresh_int(st, "len", 0)
        if name in ("regex.finditer", "regex.search", "regex.match", "regex.fullmatch"):
            pat = a0.value if isinstance(a0, ConstV) and isinstance(a0.value, (bytes, str)) else None
            subj = self.as_bytes(args[1]) if len(args) > 1 else None
            if subj is None:
                subj = self.fresh_bytes(st, ("unknown-subject",))
            pos = None
            if "pos" in kwargs:
                pos = self.as_lin(kwargs["pos"])
            elif len(args) > 3:
                pos = self.as_lin(args[3])
            api = name.split(".")[1]
            if api == "finditer":
                return self.alloc(st, "list", items=[], iter="finditer", pattern=pat, subject=subj, summary=True)
            k = self.pick(st, 2, api)
            if k == 1:
                return ConstV(None)
            m = self.new_match(st, pat, subj, api, node, fi, pos=pos)
            if api == "fullmatch":
                s, e_ = self.group_span(m, 0, st)
                st.add_eq(s)
                st.add_eq(e_ - subj.length)
            return m
        if name == "regex.sub":
            subj = self.as_bytes(args[2]) if len(args) > 2 else None
            repl = args[1] if len(args) > 1 else None
            pat = a0.value if isinstance(a0, ConstV) else None
            if subj is None:
                return UnknownV("re.sub")
            rb = self.as_bytes(repl)
            t = ("re.sub", pat, rb.term if rb else ("callback",), subj.term)
            if rb is not None and rb.length.is_const() and rb.length.c == 0:
                return self.fresh_bytes(st, t, maxlen=subj.length)
            if isinstance(repl, FuncV):
                # callback: analyse it once on an arbitrary match for its own obligations
                m = self.new_match(st, pat, subj, "sub-callback", node, fi)
                try:
                    self.call_repo_value(repl, [m], {}, st, node, fi)
                except Abort:
                    pass
                minl = self.matches[m.mid].get("minlen", 0)
                _ = minl
            return self.fresh_bytes(st, t)
        if name in ("binascii.unhexlify", "binascii.a2b_hex", "bytes.fromhex"):
            b = self.as_bytes(a0)
            if b is not None:
                return BytesV(("unhexlify", b.term), b.length.scale(0.5) if False else _half(b.length))
            return self.fresh_bytes(st, ("unhexlify", ("?",)))
        if name == "binascii.a2b_base64":
            b = self.as_bytes(a0)
            r = self.fresh_bytes(st, ("a2b_base64", b.term if b else ("?",)))
            if b is not None:
                st.add(b.length - r.length)
            return r
        if name == "urllib.parse.unquote_to_bytes":
            b = self.as_bytes(a0)
            r = self.fresh_bytes(st, ("unquote_to_bytes", b.term if b else ("?",)), maxlen=b.length if b else None)
            if b is not None:
                self.raw_len[_tkey(r.term) + (str(r.length),)] = b.length     # length of the text that was percent-decoded
                self.raw_of[str(r.length)] = b
            return r
        if name == "bytes":
            if not args:
                return ConstV(b"")
            if isinstance(a0, Ref) and st.heap[a0.oid]["kind"] == "list":
                o = st.heap[a0.oid]
                n = self.length_of(a0, st)
                el = o["items"][0] if o["items"] else o.get("elem")
                desc = repr(el)[:60]
                if isinstance(el, IntV) and len(el.lin.t) == 1 and el.lin.c == 0 and next(iter(el.lin.t)) in self.int_prov:
                    desc = self.int_prov[next(iter(el.lin.t))]
                elif isinstance(el, IntV):
                    desc = ("expr", el.lin)
                return BytesV(("bytes-of", desc), n) if n is not None else self.fresh_bytes(st, ("bytes-of", desc))
            if isinstance(a0, TupleV):
                return self.fresh_bytes(st, ("bytes-of-tuple",), exact=Lin(len(a0.items)))
            if isinstance(a0, ConstV) and isinstance(a0.value, (tuple, list, bytes)):
                try:
                    return ConstV(bytes(a0.value))
                except Exception:   # noqa: BLE001
                    return UnknownV("bytes(const)")
            if isinstance(a0, BytesV):
                return a0          # bytes(<bytes>) is the same value
            return self.fresh_bytes(st, ("bytes", repr(a0)[:40]))
        if name in ("int", "ord"):
            if isinstance(a0, ConstV):
                try:
                    return ConstV(int(a0.value, *[x.value for x in args[1:]]) if name == "int" else ord(a0.value))
                except Exception:   # noqa: BLE001
                    pass
            r = self.fresh_int(st, name, 0 if name == "ord" else None)
            b0 = self.as_bytes(a0)
            src = b0.term if b0 is not None else (a0.term if isinstance(a0, StrV) else ("?",))
            base = args[1].value if len(args) > 1 and isinstance(args[1], ConstV) else (kwargs["base"].value if isinstance(kwargs.get("base"), ConstV) else 10)
            self.int_prov[next(iter(r.lin.t))] = (name, src, base)
            return r
        if name == "chr":
            if isinstance(a0, IntV) and len(a0.lin.t) == 1 and a0.lin.c == 0:
                sym = next(iter(a0.lin.t))
                return StrV(("chr", self.int_prov.get(sym, ("?", sym))))
            return StrV(("chr", repr(a0)[:40]))
        if name == "str":
            return StrV(("str", repr(a0)[:40]))
        if name in ("min", "max") and len(args) == 2:
            la, lb = self.as_lin(args[0]), self.as_lin(args[1])
            if la is not None and lb is not None:
                if st.le(la, lb):
                    return IntV(la if name == "min" else lb)
                if st.le(lb, la):
                    return IntV(lb if name == "min" else la)
                k = self.pick(st, 2, name)
                lo, hi = (la, lb) if k == 0 else (lb, la)
                st.add(hi - lo)          # partition: lo <= hi
                if st.infeasible():
                    raise Abort()
                return IntV(lo if name == "min" else hi)
        if name in ("min", "max") and len(args) == 1 and isinstance(a0, Ref) and st.heap[a0.oid]["kind"] == "list":
            o = st.heap[a0.oid]
            elems = list(o["items"]) + ([o["elem"]] if o.get("elem") is not None else [])
            r = self.fresh_int(st, name)
            d = kwargs.get("default")
            vals = [self.as_lin(x) for x in elems] + ([self.as_lin(d)] if d is not None else [])
            if vals and all(v is not None and st.le(0, v) for v in vals):
                st.add(r.lin)
            return r
        if name in ("min", "max", "sum", "abs", "round"):
            return self.fresh_int(st, name)
        if name == "enumerate":
            return self.alloc(st, "list", items=[], iter="enumerate", base=a0, summary=True)
        if name == "zip":
            return self.alloc(st, "list", items=[], iter="zip", bases=list(args), summary=True)
        if name == "range":
            ls = [self.as_lin(a) for a in args]
            if len(ls) == 1:
                return self.alloc(st, "list", items=[], iter="range", lo=Lin(0), hi=ls[0], summary=True)
            if len(ls) >= 2:
                return self.alloc(st, "list", items=[], iter="range", lo=ls[0], hi=ls[1] if len(ls) == 2 else None, summary=True)
        if name == "reversed" and self.as_bytes(a0) is not None:
            return self.slice(a0, None, None, ConstV(-1), st, node)      # the bytes of x in reverse order (= x[::-1] once given to bytes())
        if name in ("sorted", "list", "tuple", "reversed", "iter"):
            if isinstance(a0, Ref) and st.heap[a0.oid]["kind"] == "list":
                o = st.heap[a0.oid]
                if o.get("iter"):
                    return a0
                return self.alloc(st, "list", items=list(o["items"]), summary=True, elem=o.get("elem"), length=o.get("length"))
            return a0 if a0 is not None else self.alloc(st, "list", items=[], length=Lin(0))
        if name in ("all", "any", "isinstance", "hasattr", "callable", "bool"):
            return BoolV(None, name)
        if name == "set" or name == "frozenset":
            n0 = self.length_of(a0, st) if a0 is not None else None
            if n0 is not None:
                n = Lin.sym(self.fresh("distinct"))
                st.add(n)
                st.add(n0 - n)
                # a non-empty sequence has at least one distinct element; an empty one has none
                return self.alloc(st, "list", items=[], elem=self.fresh_int(st, "member"), summary=True, length=n, distinct_of=n0)
            return UnknownV("set")
        if name == "struct.unpack_from" or name == "struct.unpack":
            fmt = a0.value if isinstance(a0, ConstV) else None
            if fmt is not None:
                import struct as _s
                n = len(_s.unpack(fmt, bytes(_s.calcsize(fmt))))
                size = _s.calcsize(fmt)
                buf = self.as_bytes(args[1]) if len(args) > 1 else None
                off = self.as_lin(args[2]) if len(args) > 2 else Lin(0)
                self.index_uses.append((fi, node, ("struct", buf, size), IntV(off) if off is not None else None, st.snap()))
                return TupleV([self.fresh_int(st, "field", 0, 2 ** (8 * size // max(n, 1)) - 1) for _ in range(n)])
            return UnknownV("struct")
        if name == "urllib.parse.urlsplit":
            b = self.as_bytes(a0)
            if b is None:
                return UnknownV("urlsplit")
            comps = {}
            total = Lin(0)
            for c in ("scheme", "netloc", "path", "query", "fragment"):
                comps[c] = self.fresh_bytes(st, ("url." + c, b.term))
            # trusted layout axiom of urlsplit for text without whitespace/control characters:
            # [scheme ':'] ['//' netloc] path ['?' query] ['#' fragment] and the sum of the parts with their separators fits
            sep = {}
            for c, w in (("scheme", 1), ("netloc", 2), ("query", 1), ("fragment", 1)):
                present = self.pick(st, 2, "url-" + c) == 0
                if present:
                    st.add(comps[c].length - 1)
                    sep[c] = Lin(w)                      # a non-empty component is preceded/followed by its separator
                elif c == "scheme":
                    st.add_eq(comps[c].length)
                    sep[c] = Lin(0)                      # without a scheme no ':' is consumed (it stays in the path)
                else:
                    st.add_eq(comps[c].length)
                    sx = Lin.sym(self.fresh("sep_" + c))   # the separator may still be there with an empty component
                    st.add(sx)
                    st.add(Lin(w) - sx)
                    sep[c] = sx
            total = comps["scheme"].length + sep["scheme"] + sep["netloc"] + comps["netloc"].length + comps["path"].length + \
                sep["query"] + comps["query"].length + sep["fragment"] + comps["fragment"].length
            st.add_eq(b.length - total)
            ref = self.alloc(st, "obj", attrs=dict(comps), cls="SplitResult", source=b, seps=sep)
            st.heap[ref.oid]["attrs"]["hostname"] = self.fresh_bytes(st, ("url.hostname", b.term), maxlen=comps["netloc"].length)
            st.heap[ref.oid]["attrs"]["port"] = UnknownV("port")
            return ref
        if name in ("ntpath.normpath", "os.path.normpath", "posixpath.normpath"):
            b = self.as_bytes(a0)
            if b is None:
                return UnknownV("normpath")
            r = self.fresh_bytes(st, ("normpath", b.term))
            # trusted: normpath never lengthens a non-empty path (an empty path becomes ".")
            k = self.pick(st, 2, "normpath")
            if k == 0:
                st.add(b.length - 1)
                st.add(b.length - r.length)
                st.add(r.length - 1)
            else:
                st.add(-b.length)
                st.add(r.length - 1)
                st.add(1 - r.length)
            return r
        if name in ("ntpath.splitext", "os.path.splitext", "posixpath.splitext"):
            b = self.as_bytes(a0)
            if b is None:
                return UnknownV("splitext")
            base = self.fresh_bytes(st, ("splitext.root", b.term))
            ext = self.fresh_bytes(st, ("splitext.ext", b.term))
            st.add_eq(base.length + ext.length - b.length)
            return TupleV([base, ext])
        if name in ("ipaddress.IPv4Address", "ipaddress.IPv6Address"):
            ref = self.alloc(st, "obj", attrs={}, cls=name)
            st.heap[ref.oid]["attrs"]["compressed"] = StrV(("compressed", name))
            return ref
        if name in ("socket.inet_aton", "socket.inet_pton"):
            return self.fresh_bytes(st, (name,), exact=Lin(4 if name.endswith("aton") else 16))
        if name == "functools.partial":
            if isinstance(a0, FuncV):
                return FuncV(a0.fi, a0.closure, list(a0.bound) + list(args[1:]))
            return UnknownV("partial")
        if name == "contextlib.suppress":
            return UnknownV("suppress")
        if name == "pefile.PE":
            # trusted: section header fields are unsigned 32-bit integers
            sec = self.alloc(st, "obj", attrs={"PointerToRawData": self.fresh_int(st, "u32", 0, 2 ** 32 - 1),
                                               "SizeOfRawData": self.fresh_int(st, "u32", 0, 2 ** 32 - 1)}, cls="pefile.Section")
            return self.alloc(st, "obj", attrs={"sections": self.alloc(st, "list", items=[], summary=True, elem=sec)}, cls="pefile.PE")
        if name == "print" or name.startswith("warnings."):
            return ConstV(None)
        self.unknown_calls.add(name)
        return UnknownV("ext " + name)


@dataclass
class GuardedInt(AV):
    """an integer list element with the facts that hold whenever it is drawn from the list"""
    lin: Lin
    facts: tuple

    def __repr__(self):
        return f"GInt({self.lin})"


@dataclass
class BoundMethod(AV):
    recv: AV
    name: str


def _half(l: Lin) -> Lin:
    return l.scale(__import__("fractions").Fraction(1, 2))


def _root(e):
    while isinstance(e, (ast.Attribute, ast.Subscript)):
        e = e.value
    return e


def _load(t):
    import copy
    n = copy.copy(t)
    n.ctx = ast.Load()
    return n


def _assigned_names(stmts):
    out = set()
    for s in stmts:
        for n in ast.walk(s):
            if isinstance(n, ast.Name) and isinstance(n.ctx, ast.Store):
                out.add(n.id)
    return out


def live_at_head(body, cands):
    """names of `cands` that may be read in an iteration before being (definitely) written in that iteration"""
    live = set()

    def loads(e, defd):
        for n in ast.walk(e):
            if isinstance(n, ast.Name) and isinstance(n.ctx, ast.Load) and n.id in cands and n.id not in defd:
                live.add(n.id)

    def stores(t):
        return {n.id for n in ast.walk(t) if isinstance(n, ast.Name) and isinstance(n.ctx, ast.Store)}

    def block(stmts, defd):
        defd = set(defd)
        for s in stmts:
            if isinstance(s, ast.Assign):
                loads(s.value, defd)
                for t in s.targets:
                    if not isinstance(t, ast.Name):
                        loads(t, defd)
                defd |= {t.id for t in s.targets if isinstance(t, ast.Name)}
                for t in s.targets:
                    if isinstance(t, (ast.Tuple, ast.List)):
                        defd |= stores(t)
            elif isinstance(s, ast.AnnAssign):
                if s.value is not None:
                    loads(s.value, defd)
                    if isinstance(s.target, ast.Name):
                        defd.add(s.target.id)
            elif isinstance(s, ast.AugAssign):
                loads(s.value, defd)
                if isinstance(s.target, ast.Name):
                    if s.target.id in cands and s.target.id not in defd:
                        live.add(s.target.id)
                else:
                    loads(s.target, defd)
            elif isinstance(s, ast.If):
                loads(s.test, defd)
                # walrus in test defines
                defd |= {n.target.id for n in ast.walk(s.test) if isinstance(n, ast.NamedExpr) and isinstance(n.target, ast.Name)}
                a = block(s.body, defd)
                b = block(s.orelse, defd)
                # a branch that cannot fall through does not constrain the join
                def falls(st):
                    return not (st and isinstance(st[-1], (ast.Continue, ast.Break, ast.Return, ast.Raise)))
                if falls(s.body) and falls(s.orelse):
                    defd = a & b
                elif falls(s.body):
                    defd = a
                elif falls(s.orelse):
                    defd = b
            elif isinstance(s, ast.Try):
                a = block(s.body, defd)
                for h in s.handlers:
                    block(h.body, defd)
                a2 = block(s.orelse, a)
                block(s.finalbody, defd)
                hs_fall = [h for h in s.handlers if not (h.body and isinstance(h.body[-1], (ast.Continue, ast.Break, ast.Return, ast.Raise)))]
                if not hs_fall:
                    defd = a2
            elif isinstance(s, (ast.For, ast.While)):
                if isinstance(s, ast.For):
                    loads(s.iter, defd)
                    inner = defd | stores(s.target)
                else:
                    loads(s.test, defd)
                    inner = defd
                block(s.body, inner)
                block(s.orelse, defd)
            elif isinstance(s, ast.With):
                for it in s.items:
                    loads(it.context_expr, defd)
                    if it.optional_vars is not None:
                        defd |= stores(it.optional_vars)
                defd = block(s.body, defd) if not any(isinstance(it.context_expr, ast.Call) and "suppress" in ast.unparse(it.context_expr.func) for it in s.items) else (block(s.body, defd) and defd)
            else:
                loads(s, defd)
        return defd
    end = block(body, set())
    return live, end


def _target_names(t):
    return {n.id for n in ast.walk(t) if isinstance(n, ast.Name)}


def _same_value(a, b, sa, sb):
    if a is None or b is None:
        return a is b
    if type(a) is not type(b):
        return False
    if isinstance(a, IntV):
        return a.lin == b.lin
    if isinstance(a, BytesV):
        return a.term == b.term and a.length == b.length
    if isinstance(a, ConstV):
        return repr(a.value) == repr(b.value)
    if isinstance(a, Ref):
        return a.oid == b.oid
    if isinstance(a, MatchV):
        return a.mid == b.mid
    if isinstance(a, TupleV):
        return len(a.items) == len(b.items) and all(_same_value(x, y, sa, sb) for x, y in zip(a.items, b.items))
    if isinstance(a, (UnknownV, BoolV, StrV, FuncV, ExtV, BoundMethod)):
        return True
    return False


def _same_fields(fa, fb, sa, sb):
    return all(_same_value(fa.get(k), fb.get(k), sa, sb) for k in set(fa) | set(fb) if k != "parent")


def _import_obj(dst: State, src: State, oid, seen=None):
    seen = seen or set()
    if oid in seen or oid in dst.heap:
        return
    seen.add(oid)
    o = _copy_obj(src.heap[oid])
    dst.heap[oid] = o
    dst._owned.add(oid)
    for v in list(o.get("items", [])) + list(o.get("fields", {}).values()) + list(o.get("attrs", {}).values()):
        if isinstance(v, Ref):
            _import_obj(dst, src, v.oid, seen)
    # facts about imported symbols are carried by the caller (facts lists are merged separately)


def _cmp_const(a, op, b):
    import operator as o
    table = {ast.Eq: o.eq, ast.NotEq: o.ne, ast.Lt: o.lt, ast.LtE: o.le, ast.Gt: o.gt, ast.GtE: o.ge,
             ast.In: lambda x, y: x in y, ast.NotIn: lambda x, y: x not in y, ast.Is: o.is_, ast.IsNot: o.is_not}
    return table[type(op)](a, b)


def _bin_const(a, op, b):
    import operator as o
    table = {ast.Add: o.add, ast.Sub: o.sub, ast.Mult: o.mul, ast.Mod: o.mod, ast.FloorDiv: o.floordiv, ast.Div: o.truediv,
             ast.BitXor: o.xor, ast.BitAnd: o.and_, ast.BitOr: o.or_, ast.Pow: o.pow, ast.LShift: o.lshift, ast.RShift: o.rshift}
    return table[type(op)](a, b)
